"""Type 3 Tag family monitors for C01, C02, C03, C08, C16 (real nfc.tag.tt3 / nfc.tag.tt3_sony classes over the
tag model vf/sim/t3t.py under a real ContactlessFrontend; independent reference reader vf/ref/t3_attr.py and MAC
computation vf/ref/felica_mac.py).

Everything a verdict needs is in the `case` dict of a violation (layout, message salts/lengths, cut index, fault
cell, tamper variant), so replay_cXX re-executes exactly that case.
"""
import contextlib
import io
import os

import nfc
import nfc.clf
import nfc.tag
import nfc.tag.tt3
import nfc.tag.tt3_sony

from vf.core.rec import exc_sig, exc_text
from vf.ref import t3_attr
from vf.sim import tagdevice
from vf.sim.t3t import T3TModel, Tamper

FAM = "t3t"
PASSWORD = b"0123456789abcdef"
# Command bound of one C08 evaluation.  DESIGN.md section 3 names B = 100000 for all tag types; for Type 3 the tighter
# value is sound because the number of commands of a terminating evaluation is bounded by the memory of the model: the
# largest model has < 700 blocks, activation + 2 x (attribute read + ceil(Ln / 16) one-block reads) + has_changed stays
# below 2000 commands even with Nbr = 1 (the largest number observed is reported as max_t3t_c08_commands_per_eval, ~100
# in the quick tier).  The bound is enforced by the harness' own BaseException (T3Bound), so that no `except Exception`
# inside nfcpy can swallow it; SimTagDevice.Bound (an Exception) stays armed behind it at COMMAND_BOUND + 50.
COMMAND_BOUND = 5000
# executed source lines inside nfc/tag/tt3*.py per C08 evaluation (a loop that sends no commands is decided on logical
# progress, not on time); the costliest fault-free evaluation of the quick tier needs < 40000 lines
C08_STEPS = 1000000

ASSUMPTIONS = [
    "vf.sim.t3t is a faithful FeliCa / FeliCa Lite / Lite-S tag model (conformance self-test replays the literal "
    "transcripts and MAC vectors of tests/test_tag_tt3*.py; REG block and response timing are not modelled)",
    "vf.ref.t3_attr is a faithful reading of the T3T attribute block and NDEF read procedure",
    "t3t: a multi-block Write Without Encryption is applied atomically by the tag (cut points are per command)",
    "t3t: a Lite-S write-with-MAC whose response was lost cannot be repeated (WCNT advanced); a TagCommandError "
    "with the tag's status flags is accepted there (counted as t3t_c16_nonidempotent_macwrite)",
    "t3t: format()/dump() document that an error response ends their memory probing; a different result after an "
    "error burst beyond the retry budget is accepted for these two operations only (format returning True: Nbr, Nbw, "
    "Nmaxb not larger than after the fault-free format and not zero, all other attribute fields equal)",
    "t3t: the second key-less service / second system of the C03 layouts is an ordinary FeliCa random service with block "
    "memory of its own (service number 1..3, service codes number<<6|09h and |0Bh)",
    "t3t: history classes - a failed assignment is one where every exchange from command j of the attempt on is lost "
    "(TimeoutError; command lost or executed and the answer lost) until nfcpy gives up with TagCommandError",
    "t3t: the harness fixes the authentication challenge by substituting the module attribute nfc.tag.tt3_sony.os; if "
    "that attribute does not exist the run is INCONCLUSIVE (harness assumption about nfcpy internals)",
]


# =====================================================================================================
# shared helpers
# =====================================================================================================
def mk_msg(salt, n):
    """deterministic message content; different salts give different content at (almost) every offset"""
    a = (salt * 131 + 17) & 0xFF
    step = 2 * (salt % 7) + 3
    return bytes((a + i * step + (i >> 8) * 29 + (i >> 4) * salt) & 0xFF for i in range(n))


def build(layout):
    """layout (JSON-able dict) -> fresh T3TModel"""
    k = layout["kind"]
    old = mk_msg(layout.get("old_salt", 1), layout.get("old_len", 0))
    kw = dict(brty=layout.get("brty", "212F"), sensf_rd=layout.get("sensf_rd", True))
    if k == "generic":
        m = T3TModel.generic(layout["nbr"], layout["nbw"], layout["nmaxb"], extra=layout.get("extra", 2),
                             message=old, rwflag=layout.get("rwflag", 1), ver=layout.get("ver", 0x10), **kw)
        if "ic" in layout:
            m.pmm = bytes([m.pmm[0], layout["ic"]]) + m.pmm[2:]       # the reader class follows the IC code (FeliCa Plug)
    elif k == "standard":
        m = T3TModel.standard(layout["nbr"], layout["nbw"], layout["nmaxb"], ic=layout.get("ic", 0x01),
                              other_systems=layout.get("other_systems", []),
                              ndef_system_first=layout.get("ndef_first", True), extra=layout.get("extra", 2),
                              message=old, rwflag=layout.get("rwflag", 1), **kw)
    else:
        mc = layout.get("mc")
        ctor = T3TModel.lite if k == "lite" else T3TModel.lites
        opts = dict(nmaxb=layout["nmaxb"], message=old, nbr=layout.get("nbr", 4), password=layout.get("password", b""),
                    rwflag=layout.get("rwflag", 1), mc=bytes(mc) if mc is not None else None,
                    formatted=layout.get("formatted", True), **kw)
        if "ic" in layout:
            opts["ic"] = layout["ic"]
        m = ctor(**opts)
        m.ndef_system_first = layout.get("ndef_first", True)
    if "idm" in layout:
        m.idm = bytes(layout["idm"])
    if layout.get("writef") or layout.get("cut_blocks"):
        # a cut state: an earlier write of the message (cut_salt, cut_len) was interrupted after `cut_blocks` of its data
        # blocks were programmed; the attribute block still holds the old length and WriteF
        a = t3_attr.decode(m.get_block(0))
        mid = mk_msg(layout.get("cut_salt", 3), layout.get("cut_len", 0))
        mid += bytes(-len(mid) % 16)
        for i in range(min(layout.get("cut_blocks", 0), len(mid) // 16, a["nmaxb"])):
            m.set_block(1 + i, mid[16 * i:16 * i + 16])
        m.set_block(0, t3_attr.encode(a["ver"], a["nbr"], a["nbw"], a["nmaxb"], layout.get("writef", 0), a["rwflag"],
                                      a["ln"]))
    for code, number, nblocks in layout.get("aux", []):
        m.add_aux_service(code, number, nblocks)
    return m


def lkey(layout):
    return [layout.get(k) for k in ("kind", "nbr", "nbw", "nmaxb", "extra", "rwflag", "auth", "sensf_rd", "ndef_first",
                                    "brty", "ic", "old_len")]


def open_tag(model, layout, **dev_opts):
    """fresh frontend + activation (+ authentication when the layout asks for it)"""
    clf, dev, tag = tagdevice.activate(model, **dev_opts)
    if tag is not None and layout.get("auth"):
        if tag.authenticate(layout.get("password", PASSWORD)) is not True:
            raise RuntimeError("setup: authentication against the model failed")
    return clf, dev, tag


@contextlib.contextmanager
def quiet():
    with contextlib.redirect_stdout(io.StringIO()):      # tt3._format prints its search interval
        yield


class _OsShim(object):
    """deterministic os.urandom for nfc.tag.tt3_sony (the challenge is not part of any verdict)"""

    def __init__(self, seed=7):
        self.ctr = seed

    def urandom(self, n):
        self.ctr += 1
        return bytes((self.ctr * 37 + i * 11 + 5) & 0xFF for i in range(n))

    def __getattr__(self, name):
        return getattr(os, name)


_NO_OS = object()
HARNESS_PROBLEMS = []


@contextlib.contextmanager
def fixed_challenge(seed=7):
    """deterministic challenge for the authentication of nfc.tag.tt3_sony.  Entering / leaving this context never
    raises: when the module has no attribute `os` to substitute (a harness assumption about nfcpy's internals, not a
    property of nfcpy) nothing is patched, the problem is noted and guard() / harness_check() make the run INCONCLUSIVE"""
    mod = nfc.tag.tt3_sony
    old = getattr(mod, "os", _NO_OS)
    if old is _NO_OS or not hasattr(old, "urandom"):
        if not HARNESS_PROBLEMS:
            HARNESS_PROBLEMS.append("nfc.tag.tt3_sony has no module attribute 'os' with urandom(): the authentication "
                                    "challenge can not be fixed by the harness")
        yield
        return
    mod.os = _OsShim(seed)
    try:
        yield
    finally:
        mod.os = old


def harness_check(R):
    for p in HARNESS_PROBLEMS:
        R.inconc("t3t harness: " + p)


def attempt(fn):
    """-> ("ok", value) | ("exc", exception); harness budgets (BaseException) pass through"""
    try:
        return "ok", fn()
    except Exception as e:      # noqa
        return "exc", e


class T3Bound(BaseException):
    """command bound of one evaluation exceeded (BaseException: nfcpy can not catch it)"""


class StepBudgetExceeded(BaseException):
    pass


class StepBudget(object):
    """counts executed source lines of nfc.tag.tt3 / nfc.tag.tt3_sony (sys.monitoring LINE events, local to the code
    objects of these two modules) and raises StepBudgetExceeded into the monitored code when one evaluation exceeds
    the limit"""
    _inst = None

    @classmethod
    def get(cls):
        if cls._inst is None:
            cls._inst = cls()
        return cls._inst

    def __init__(self):
        import sys
        import types
        self.count = 0
        self.limit = C08_STEPS
        self.active = False
        mon = getattr(sys, "monitoring", None)
        if mon is None:
            return
        tool = None
        for t in (3, 2, 1):
            try:
                mon.use_tool_id(t, "vf-t3t-steps")
                tool = t
                break
            except ValueError:
                continue
        if tool is None:
            return
        seen = set()

        def codes(obj):
            if isinstance(obj, types.CodeType):
                if obj not in seen:
                    seen.add(obj)
                    for c in obj.co_consts:
                        codes(c)
            elif isinstance(obj, types.FunctionType):
                codes(obj.__code__)
            elif isinstance(obj, (staticmethod, classmethod)):
                codes(obj.__func__)
            elif isinstance(obj, property):
                for f in (obj.fget, obj.fset, obj.fdel):
                    if f is not None:
                        codes(f)
            elif isinstance(obj, type):
                for v in vars(obj).values():
                    codes(v)

        for m in (nfc.tag.tt3, nfc.tag.tt3_sony):
            for v in vars(m).values():
                if getattr(v, "__module__", None) == m.__name__:
                    codes(v)

        def on_line(code, line):
            self.count += 1
            if self.count > self.limit:
                self.count = 0
                raise StepBudgetExceeded()

        mon.register_callback(tool, mon.events.LINE, on_line)
        for c in seen:
            mon.set_local_events(tool, c, mon.events.LINE)
        self.active = True
        self.ncode = len(seen)


def esc_sig(e):
    """signature of an escaping exception; for a TagCommandError the interesting place is not where it was raised
    (always send_cmd_recv_rsp) but the deepest NDEF access method that did not catch it"""
    import traceback
    if isinstance(e, nfc.tag.TagCommandError):
        via = None
        for f in traceback.extract_tb(e.__traceback__):
            fn = f.filename.replace("\\", "/")
            if "/nfc/" in fn and f.name in ("_read_attribute_data", "_write_attribute_data", "_read_ndef_data",
                                            "_write_ndef_data"):
                via = "%s:%s" % (fn[fn.rfind("/nfc/") + 1:], f.name)
        if via:
            return "%s/via:%s" % (type(e).__name__, via)
    return exc_sig(e)


_SELFTEST = None


def guard(R):
    """simulator / reference conformance vectors (transcripts of the repository's tests) once per process"""
    global _SELFTEST
    if _SELFTEST is None:
        from vf.ref import felica_mac
        from vf.sim import t3t as simmod
        _SELFTEST = simmod.selftest() + felica_mac.selftest() + t3_attr.selftest()
    for b in _SELFTEST:
        R.inconc("t3t simulator conformance self-test failed: " + b)
    if not _SELFTEST:
        R.count("t3t_sim_selftest_ok")
    with fixed_challenge():
        pass
    harness_check(R)


def classify(o, old, new):
    if o == new:
        return "new"
    if o == old:
        return "old"
    if o == b"":
        return "empty"
    return "MIXED"


def vary_msg(msg, nblocks=1, at=0):
    """same length, `nblocks` 16-byte blocks (from block index `at`, wrapping) differ in every byte"""
    out = bytearray(msg)
    nb = (len(out) + 15) // 16
    for b in range(min(nblocks, nb)):
        blk = (at + b * 3) % nb
        for i in range(16 * blk, min(len(out), 16 * blk + 16)):
            out[i] ^= 0x5A
    return bytes(out)


# =====================================================================================================
# history classes: what happened on the SAME tag object / NDEF object before the judged operation
# =====================================================================================================
HIST_KINDS = ["second", "retry", "retry2", "format", "cutstate", "cutstate-retry"]


def hist_gen(hkind, rng, small=False, sony_share=0.35, auth_share=0.25):
    """-> (layout, steps).  steps (all on one tag object, in order):
         ["w", salt, len]                     fault-free assignment
         ["f", salt, len, j, flavour]         failed assignment: every exchange from command j of the attempt on is lost
         ["fmt", version, wipe]               tag.format()
       layouts: generic / Standard (Nbr, Nbw free, 2-byte and - not small - 3-byte block numbers), Lite, Lite-S (plain,
       authenticated); `cutstate`: the start image is an interrupted write (WriteF = 0Fh, first data blocks of another
       message programmed)"""
    if rng.random() < sony_share:
        lay = {"kind": rng.choice(["lite", "lites"]), "nbr": rng.randrange(1, 5), "nbw": 1,
               "nmaxb": rng.randrange(2, 8 if small else 14)}
        if rng.random() < auth_share:
            lay["auth"] = True
            lay["password"] = PASSWORD
    else:
        nbw = rng.choice([1, 1, 2, 3, 5, 13]) if small else rng.randrange(1, 14)
        nmaxb = rng.choice([2, 3, nbw + 1, 2 * nbw + 1, rng.randrange(2, 12)]) if small else rng.choice(
            [2, nbw, nbw + 1, 2 * nbw + 1, 17, rng.randrange(2, 40), 256, 300])
        if nmaxb > 255:
            nbw = min(nbw, 12)
        lay = {"kind": rng.choice(["generic", "generic", "standard"]), "nbr": rng.randrange(1, 16), "nbw": nbw,
               "nmaxb": max(2, nmaxb), "extra": rng.choice([0, 1, 2])}
        if lay["kind"] == "standard":
            lay["ic"] = rng.choice([0x01, 0x0D, 0x20, 0x06])
    cap = lay["nmaxb"] * 16
    pick = [x for x in (0, 1, 16, 17, 255, 256, lay["nbw"] * 16, lay["nbw"] * 16 + 1, cap - 16, cap - 1, cap,
                        rng.randrange(cap + 1), rng.randrange(cap + 1)) if 0 <= x <= cap]
    lay["old_len"] = rng.choice(pick)
    lay["old_salt"] = rng.randrange(1, 100)
    lay["sensf_rd"] = rng.random() < 0.8
    steps = []
    w = lambda: ["w", 100 + rng.randrange(60), rng.choice(pick)]                                   # noqa: E731
    f = lambda: ["f", 160 + rng.randrange(40), rng.choice([x for x in pick if x > 0] or [1]),     # noqa: E731
                 rng.choice([0, 1, 1, 2, 2, 3, 4, rng.randrange(0, 8)]), rng.choice(["cmd_lost", "cmd_lost", "rsp_lost"])]
    if hkind == "second":
        steps = [w()]
    elif hkind == "retry":
        steps = [f()]
    elif hkind == "retry2":
        steps = [f(), f()]
    elif hkind == "format":
        if lay.get("auth"):
            del lay["auth"]
        steps = [["fmt", rng.choice([0x10, 0x10, 0x11]), rng.choice([None, None, 0x00, 0xA5])]]
    if hkind.startswith("cutstate"):
        lay["writef"] = 0x0F
        lay["cut_salt"], lay["cut_len"] = 200 + rng.randrange(40), rng.choice([x for x in pick if x > 0] or [1])
        lay["cut_blocks"] = rng.randrange(0, (lay["cut_len"] + 15) // 16 + 1)
        if hkind == "cutstate-retry":
            steps = [f()]
    return lay, steps


def arm_fail(dev, j, flavour):
    start = dev.n_commands
    hit = {"n": 0}

    def script(n, data):
        if n - start >= j:
            hit["n"] += 1
            return (flavour, nfc.clf.TimeoutError)
        return None
    dev.script = script
    return hit


def hist_play(model, lay, steps, R, prefix):
    """fresh activation, tag.ndef, then the steps on that one tag object -> dict(clf, dev, tag, nd) or None when the
    history could not be played as described (counted, never judged here: the judged operation follows)"""
    with fixed_challenge(), quiet():
        st, v = attempt(lambda: open_tag(model, lay))
        if st != "ok" or v[2] is None:
            R.count(prefix + "_setup_failed")
            return None
        clf, dev, tag = v
        st, nd = attempt(lambda: tag.ndef)
        if st != "ok" or nd is None:
            R.count(prefix + "_setup_failed")
            return None
        for step in steps:
            if step[0] == "w":
                st, e = attempt(lambda: setattr(nd, "octets", mk_msg(step[1], step[2])))
                if st != "ok":
                    R.count(prefix + "_history_write_raised")
                    return None
            elif step[0] == "f":
                hit = arm_fail(dev, step[3], step[4])
                st, e = attempt(lambda: setattr(nd, "octets", mk_msg(step[1], step[2])))
                dev.script = None
                if st == "ok" or not hit["n"]:
                    R.count(prefix + "_fault_behind_end_of_attempt")
                    return None
                if not isinstance(e, nfc.tag.TagCommandError):
                    R.count(prefix + "_attempt_other_exception")          # judged by C16
                    return None
            else:
                st, r = attempt(lambda: tag.format(version=step[1], wipe=step[2]))
                if st != "ok" or r is not True:
                    R.count(prefix + "_format_failed")
                    return None
                st, nd = attempt(lambda: tag.ndef)
                if st != "ok" or nd is None:
                    R.count(prefix + "_no_ndef_after_format")
                    return None
    return {"clf": clf, "dev": dev, "tag": tag, "nd": nd}


# =====================================================================================================
# C01 - round trip, capacity
# =====================================================================================================
RULE_C01 = ("layouts: generic/Standard T3T with every (Nbr 1..15, Nbw 1..13) pair that fits a 255 byte frame, Nmaxb "
            "1..600 (2 and 3 byte block list elements), RWFlag 0/1, NDEF system first or second, SENSF_RES with and "
            "without system code; FeliCa Lite / Lite-S with Nmaxb 1..13, Nbr 1..4, plain and authenticated (MAC reads, "
            "Lite-S MAC writes). per layout a chain of writes with lengths {0,1,15,16,17,253..256,Nbw*16-1..+1,"
            "capacity-1,capacity,random} (every length for capacity <= 48) each followed by a fresh activation and "
            "by the reference reader on raw memory, then capacity+1. distinct by (layout,length); non-trivial if the "
            "read-back comparison or the oversize check was reached.  Correlated contents (a third of the layouts): the "
            "message just written once more (identical), then with one and with two 16-byte blocks changed.  History "
            "classes (part hist): the judged fault-free assignment follows, on the SAME tag / NDEF object, {a completed "
            "assignment; 1 or 2 assignments that failed with TagCommandError because every exchange from command j on "
            "was lost (command lost / executed but answer lost), final message the failed one, a variation of it (1-2 "
            "blocks differ) or another one; format() with re-probed Nbr / Nbw / Nmaxb; a start image that is an "
            "interrupted write (WriteF = 0Fh, part of another message programmed), with and without a failed attempt}: "
            "when the judged assignment returns normally the reference reader and a fresh activation read exactly the "
            "octets assigned last, capacity + 1 is rejected without a command (an assignment that raises there is "
            "counted, not judged: whether the promise extends to an object that saw a failure is left open).  Observed "
            "on the wire and required: Write commands with every block count 1..13, Read commands with 1..15, 3-byte "
            "block list elements")
REQUIRED_C01 = ["t3t_roundtrips", "t3t_refreader_agree", "t3t_oversize_rejected", "t3t_capacity_checked",
                "t3t_len_capacity", "t3t_len_zero", "t3t_len_254_255", "t3t_3byte_blocknumbers", "t3t_readonly_layouts",
                "t3t_pers_generic", "t3t_pers_standard", "t3t_pers_lite", "t3t_pers_lites", "t3t_pers_lite+auth",
                "t3t_pers_lites+auth", "t3t_c01_correlated_identical", "t3t_c01_correlated_one_block_changed",
                "t3t_c01_correlated_two_blocks_changed", "t3t_c01_3byte_block_element_on_wire",
                "t3t_c01_hist_cases", "t3t_c01_hist_roundtrips", "t3t_c01_hist_oversize_rejected",
                "t3t_c01_hist_retry_tag_changed_by_failed_attempt", "t3t_c01_hist_retry_tag_unchanged_by_failed_attempt",
                "t3t_c01_hist_retry_rsp_lost", "t3t_c01_hist_retry_cmd_lost", "t3t_c01_hist_final_same_as_failed",
                "t3t_c01_hist_final_variation_of_failed", "t3t_c01_hist_final_other",
                "t3t_c01_hist_format_nmaxb_grown", "t3t_c01_hist_auth"] + [
    "t3t_c01_hist_kind_" + _k for _k in ("second", "retry", "retry2", "format", "cutstate", "cutstate-retry")] + [
    "t3t_c01_write_cmd_blocks_%d" % _n for _n in range(1, 14)] + [
    "t3t_c01_read_cmd_blocks_%d" % _n for _n in range(1, 16)]


def plan_c01(tier):
    if tier == "quick":
        return [{"part": "grid", "n": 975}, {"part": "big", "n": 300}, {"part": "sony", "n": 416},
                {"part": "sony_auth", "n": 30}, {"part": "hist", "n": 900}]
    out = [{"part": "hist", "n": 6000, "sub": i, "timeout": 1500} for i in range(3)]
    for i in range(4):
        out.append({"part": "grid", "n": 4000, "sub": i, "timeout": 1500})
    for i in range(4):
        out.append({"part": "big", "n": 1200, "sub": i, "timeout": 1500})
    for i in range(2):
        out.append({"part": "sony", "n": 2080, "sub": i, "timeout": 1500})
    for i in range(6):
        out.append({"part": "sony_auth", "n": 150, "sub": i, "timeout": 1500})
    return out


def c01_lengths(cap, nbw, rng):
    if cap <= 48:
        return list(range(cap + 1))
    s = {0, 1, 15, 16, 17, 253, 254, 255, 256, cap - 1, cap, nbw * 16 - 1, nbw * 16, nbw * 16 + 1,
         rng.randrange(cap + 1), rng.randrange(cap + 1)}
    out = sorted(x for x in s if 0 <= x <= cap)
    rng.shuffle(out)
    return out


def c01_gen_layout(part, i, rng):
    if part == "grid":
        pairs = [(r, w) for r in range(1, 16) for w in range(1, 14)]
        nbr, nbw = pairs[i % len(pairs)]
        nmaxb = rng.choice([1, 2, 3, max(1, nbw - 1), nbw, nbw + 1, nbr, nbr + 1, 16, rng.randrange(1, 41), rng.randrange(1, 41)])
        lay = {"kind": rng.choice(["generic", "generic", "standard"]), "nbr": nbr, "nbw": nbw, "nmaxb": nmaxb,
               "extra": rng.choice([0, 1, 2, 3])}
    elif part == "big":
        nmaxb = rng.choice([254, 255, 256, 257, 300, 511, 512, 600, rng.randrange(41, 601), rng.randrange(256, 601)])
        nbw = rng.randrange(1, 14)
        if nmaxb > 255 and nbw == 13:
            nbw = 12                     # 13 three-byte block list elements do not fit a 255 byte frame
        lay = {"kind": rng.choice(["generic", "standard"]), "nbr": rng.randrange(1, 16), "nbw": nbw, "nmaxb": nmaxb,
               "extra": rng.choice([1, 2])}
    else:
        lay = {"kind": ("lite", "lites")[i % 2], "nbr": 1 + (i // 2) % 4, "nbw": 1, "nmaxb": 1 + (i // 8) % 13}
        if part == "sony_auth":
            lay["nmaxb"] = rng.randrange(1, 14)
            lay["auth"] = True
            lay["password"] = PASSWORD if rng.random() < 0.5 else bytes(rng.randrange(256) for _ in range(16))
        lay["ic"] = {"lite": 0xF0, "lites": rng.choice([0xF1, 0xF2])}[lay["kind"]]
    if lay["kind"] == "standard":
        lay["ic"] = rng.choice([0x00, 0x01, 0x02, 0x08, 0x09, 0x0B, 0x0C, 0x0D, 0x20, 0x32, 0x35, 0x06, 0x10, 0x14, 0x1F])
        if rng.random() < 0.5:
            lay["other_systems"] = [rng.choice([0x0003, 0xFE00, 0x8620])]
            lay["ndef_first"] = rng.random() < 0.5
    lay["sensf_rd"] = rng.random() < 0.7
    lay["ndef_first"] = lay.get("ndef_first", rng.random() < 0.6)
    lay["brty"] = rng.choice(["212F", "424F"])
    lay["rwflag"] = 0 if rng.random() < 0.08 and not lay.get("auth") else 1
    cap = lay["nmaxb"] * 16
    lay["old_salt"] = rng.randrange(1, 200)
    lay["old_len"] = rng.choice([0, 1, min(cap, 17), min(cap, 255), cap, rng.randrange(cap + 1)])
    return lay


def run_c01(desc, R, rng):
    guard(R)
    if desc["part"] == "hist":
        for i in range(desc["n"]):
            hkind = HIST_KINDS[i % len(HIST_KINDS)]
            lay, steps = hist_gen(hkind, rng)
            cap = lay["nmaxb"] * 16
            final = rng.choice(["same", "variation", "other"]) if steps and steps[-1][0] == "f" else "other"
            case = {"family": FAM, "hist": hkind, "layout": lay, "steps": steps, "final": final,
                    "final_salt": 60 + rng.randrange(40),
                    "final_len": rng.choice([0, 1, 17, 255, 256, lay["nbw"] * 16 + 1, cap - 1, cap, cap, rng.randrange(cap + 1)]),
                    "vary": [rng.choice([1, 2]), rng.randrange(0, 20)]}
            case["final_len"] = max(0, min(case["final_len"], cap))
            c01_hist_case(case, R)
        return
    for i in range(desc["n"]):
        lay = c01_gen_layout(desc["part"], i + desc.get("sub", 0) * 7919, rng)
        lengths = c01_lengths(lay["nmaxb"] * 16, lay["nbw"], rng)
        if lay.get("auth"):
            lengths = lengths[:6] + [lay["nmaxb"] * 16]
        case = {"family": FAM, "layout": lay, "lengths": lengths, "salt": rng.randrange(1, 250)}
        if i % 3 == 0 and not lay.get("auth"):
            case["correlated"] = rng.randrange(0, 40)
        c01_case(case, R)


def replay_c01(case, R):
    if "hist" in case:
        c01_hist_case(case, R)
    else:
        c01_case(case, R)


def c01_wire_counters(model, c0, R, prefix="t3t_c01"):
    """what the write / read commands of the last operation looked like on the wire (tag model's command log)"""
    for code, numbers, status in model.cmd_log[c0:]:
        if status == (0, 0) and numbers and code in (0x06, 0x08):
            R.count("%s_%s_cmd_blocks_%d" % (prefix, "write" if code == 0x08 else "read", len(numbers)))
            if max(numbers) > 255:
                R.count(prefix + "_3byte_block_element_on_wire")


def c01_hist_case(case, R):
    lay, steps, hkind = case["layout"], case["steps"], case["hist"]
    model = build(lay)
    img0 = model.image()
    sig = "t3t/c01/hist/%s/" % hkind

    def viol(tail, what):
        R.violation(sig + tail, "%s (layout %r, history %r)" % (what, lkey(lay), steps), case)

    key = [lkey(lay), lay.get("writef"), lay.get("cut_blocks"), steps, case["final"], case["final_len"]]
    h = hist_play(model, lay, steps, R, "t3t_c01_hist")
    if h is None:
        R.case(key, nontrivial=False)
        return
    nd, dev = h["nd"], h["dev"]
    if case["final"] in ("same", "variation"):
        final = mk_msg(steps[-1][1], steps[-1][2])
        if case["final"] == "variation":
            final = vary_msg(final, case["vary"][0], case["vary"][1])
    else:
        final = mk_msg(case["final_salt"], case["final_len"])
    a0 = t3_attr.decode(model.get_block(0))
    changed_by_history = model.image() != img0
    with fixed_challenge():
        st, cap = attempt(lambda: nd.capacity)
        if st == "ok" and cap > a0["nmaxb"] * 16:
            viol("capacity>layout", "capacity %d exceeds Nmaxb*16 = %d after the history" % (cap, a0["nmaxb"] * 16))
        if st == "ok" and len(final) > cap:
            final = final[:cap]
        c0 = len(model.cmd_log)
        st, e = attempt(lambda: setattr(nd, "octets", final))
    R.count("t3t_c01_hist_cases")
    if st != "ok":
        # observed, not judged (see RULE)
        R.count("t3t_c01_hist_final_raised")
        R.seen("t3t_c01_hist_final_exceptions", "%s/%s" % (hkind, exc_sig(e)))
        R.case(key, nontrivial=False)
        return
    R.case(key)
    c01_wire_counters(model, c0, R)
    R.count("t3t_c01_hist_kind_" + hkind)
    R.count("t3t_c01_hist_final_" + {"same": "same_as_failed", "variation": "variation_of_failed"}.get(case["final"], "other"))
    if lay.get("auth"):
        R.count("t3t_c01_hist_auth")
    if steps and steps[-1][0] == "f":
        R.count("t3t_c01_hist_retry_tag_%s_by_failed_attempt" % ("changed" if changed_by_history else "unchanged"))
        R.count("t3t_c01_hist_retry_" + steps[-1][4])
    if steps and steps[0][0] == "fmt" and a0["nmaxb"] > lay["nmaxb"]:
        R.count("t3t_c01_hist_format_nmaxb_grown")
    where = "octets = <%d bytes> returned normally" % len(final)
    stt, ref, attr = t3_attr.ref_read(model.get_block)
    ok = True
    if stt != "ok" or ref != final:
        ok = False
        viol("reference-reader", "%s, but the reference reader on raw memory sees %s" % (
            where, stt if stt != "ok" else "%d bytes, first difference at %d" % (len(ref), _first_diff(ref, final))))
    if attr and any(attr[f] != a0[f] for f in ("ver", "nbr", "nbw", "nmaxb", "rwflag", "rfu")):
        ok = False
        viol("attribute-changed", "%s and changed Ver/Nbr/Nbw/Nmaxb/RWFlag: %r -> %r" % (
            where, {f: a0[f] for f in ("ver", "nbr", "nbw", "nmaxb", "rwflag")},
            {f: attr[f] for f in ("ver", "nbr", "nbw", "nmaxb", "rwflag")}))
    with fixed_challenge():
        st, got = attempt(lambda: (lambda t: None if t is None or t.ndef is None else t.ndef.octets)(tagdevice.activate(model)[2]))
    if st != "ok":
        ok = False
        viol("fresh-reader-raises/" + exc_sig(got), "%s, a fresh activation raised %s" % (where, exc_text(got)[-200:]))
    elif got != final:
        ok = False
        viol("fresh-reader", "%s, but a fresh activation reads %s" % (
            where, "no NDEF" if got is None else "%d bytes, first difference at %d" % (len(got), _first_diff(got, final))))
    if ok:
        R.count("t3t_c01_hist_roundtrips")
    # capacity + 1 on the same object
    n0, before = dev.n_commands, model.image()
    st, e = attempt(lambda: setattr(nd, "octets", mk_msg(case["final_salt"], nd.capacity + 1)))
    if st == "ok":
        viol("oversize-accepted", "capacity+1 = %d bytes accepted" % (nd.capacity + 1))
    elif not isinstance(e, ValueError):
        viol("oversize-raises/" + exc_sig(e), "capacity+1 raised %r instead of ValueError" % e)
    elif dev.n_commands != n0 or model.image() != before:
        viol("oversize-commands", "%d command(s) sent before rejecting capacity+1" % (dev.n_commands - n0))
    else:
        R.count("t3t_c01_hist_oversize_rejected")


def c01_case(case, R):
    lay, salt = case["layout"], case["salt"]
    model = build(lay)
    refcap = lay["nmaxb"] * 16
    prev = mk_msg(lay.get("old_salt", 1), lay.get("old_len", 0))
    pers = lay["kind"] + ("+auth" if lay.get("auth") else "")

    def viol(sig, what, **more):
        c = dict(case)
        c.update(more)
        R.violation("t3t/c01/" + sig, "%s (layout %r)" % (what, lkey(lay)), c)

    # ---- capacity and pre-existing content
    with fixed_challenge():
        st, v = attempt(lambda: open_tag(model, lay))
    if st != "ok" or v[2] is None:
        if st == "exc" and isinstance(v, RuntimeError) and str(v).startswith("setup:"):
            R.inconc("t3t C01: %s" % v)
            return
        viol("activation-fails" + ("/" + exc_sig(v) if st == "exc" else ""), "activation of a well-formed layout %s" % (
            "raised " + exc_text(v)[-300:] if st == "exc" else "gave no tag"))
        return
    clf, dev, tag = v
    try:
        with fixed_challenge():
            nd = tag.ndef
    except Exception as e:
        viol("ndef-raises/" + exc_sig(e), "tag.ndef raised on a well-formed layout: " + exc_text(e)[-300:])
        return
    if nd is None:
        viol("ndef-none", "tag.ndef is None on a well-formed layout")
        return
    R.count("t3t_capacity_checked")
    R.seen("t3t_tag_classes", type(tag).__name__)
    if nd.capacity > refcap:
        viol("capacity>layout", "capacity %d exceeds Nmaxb*16 = %d" % (nd.capacity, refcap))
    if nd.capacity == refcap:
        R.count("t3t_capacity_exact")
    if nd.octets != prev:
        viol("initial-read-mismatch", "existing message (%d bytes) read back differently" % len(prev))
    if lay.get("rwflag", 1) == 0:
        R.case(lkey(lay) + ["ro"])
        R.count("t3t_readonly_layouts")
        n0 = dev.n_commands
        if nd.is_writeable:
            viol("ro-writeable", "RWFlag=0 layout reported writeable")
        try:
            nd.octets = mk_msg(salt, min(3, refcap))
            viol("ro-write-accepted", "write on RWFlag=0 layout did not raise")
        except AttributeError:
            if dev.n_commands != n0:
                viol("ro-write-commands", "commands were sent for a write on a read-only layout")
        except Exception as e:
            viol("ro-write-raises/" + exc_sig(e), "write on a read-only layout raised %r instead of AttributeError" % e)
        return
    cap = nd.capacity

    # ---- chain of writes, each from a fresh activation, each verified by a fresh activation + reference reader
    chain = [(j, mk_msg(salt + j, L), None) for j, L in enumerate(case["lengths"]) if L <= cap]
    if "correlated" in case and cap >= 16:
        # correlated contents: the message written last once more, then with one / two blocks changed (same length)
        L = max(16, min(cap, 16 * (1 + case["correlated"] % max(1, cap // 16)) + case["correlated"] % 16))
        base = mk_msg(salt + 77, L)
        j0 = len(case["lengths"])
        chain += [(j0, base, None), (j0 + 1, base, "identical"), (j0 + 2, vary_msg(base, 1, case["correlated"]), "one_block_changed"),
                  (j0 + 3, vary_msg(base, 2, case["correlated"] + 1), "two_blocks_changed")]
    for j, msg, corr in chain:
        L = len(msg)
        with fixed_challenge():
            st, v = attempt(lambda: open_tag(model, lay))
            err = v if st != "ok" else None
            if st == "ok" and v[2] is not None:
                clf, dev, tag = v
                st, nd = attempt(lambda: tag.ndef)
                err = nd if st != "ok" else None
        if err is not None:
            viol("reactivation-raises/" + exc_sig(err), "activation / tag.ndef before write #%d raised %s" % (
                j, exc_text(err)[-200:]), step=j)
            return
        if v[2] is None or nd is None or not nd.is_writeable:
            viol("not-writeable", "ndef None / not writeable before write #%d" % j, step=j)
            return
        c0 = len(model.cmd_log)
        try:
            with fixed_challenge():
                nd.octets = msg
        except Exception as e:
            viol("write-raises/" + exc_sig(e), "octets = <%d bytes> raised: %s" % (L, exc_text(e)[-300:]), step=j)
            return
        key = lkey(lay) + [L, corr]
        try:
            clf2, dev2, tag2 = tagdevice.activate(model)
            nd2 = tag2.ndef if tag2 is not None else None
            got = None if nd2 is None else nd2.octets
        except Exception as e:
            viol("readback-raises/" + exc_sig(e), "fresh read raised: " + exc_text(e)[-300:], step=j)
            return
        st, ref, attr = t3_attr.ref_read(model.get_block)
        R.case(key)
        R.count("t3t_roundtrips")
        R.count("t3t_pers_" + pers)
        c01_wire_counters(model, c0, R)
        if corr:
            R.count("t3t_c01_correlated_" + corr)
        if L == 0:
            R.count("t3t_len_zero")
        if L in (254, 255):
            R.count("t3t_len_254_255")
        if L == cap:
            R.count("t3t_len_capacity")
        if lay["nmaxb"] > 255 and L > 255 * 16:
            R.count("t3t_3byte_blocknumbers")
        if got != msg:
            viol("roundtrip-mismatch", "wrote %d bytes, fresh activation read %s" % (
                L, "None" if got is None else "%d bytes (first diff at %d)" % (len(got), _first_diff(got, msg))), step=j)
        if st == "ok" and ref == msg:
            R.count("t3t_refreader_agree")
        else:
            viol("refreader-mismatch", "reference reader on raw memory: state %s, %s" % (
                st, "n/a" if ref is None else "%d bytes, first diff at %d" % (len(ref), _first_diff(ref, msg))), step=j)
        if attr and (attr["nmaxb"] != lay["nmaxb"] or attr["nbr"] != lay["nbr"] or attr["nbw"] != lay["nbw"]
                     or attr["rwflag"] != 1):
            viol("attribute-changed", "write changed Nbr/Nbw/Nmaxb/RWFlag: %r" % {
                k: attr[k] for k in ("nbr", "nbw", "nmaxb", "rwflag")}, step=j)
        prev = msg
    if case["lengths"]:
        R.sample({"layout": lkey(lay), "lengths": case["lengths"][:8]})

    # ---- oversize
    with fixed_challenge():
        st, v = attempt(lambda: open_tag(model, lay))
        if st == "ok" and v[2] is not None:
            clf, dev, tag = v
            st, nd = attempt(lambda: tag.ndef)
    if st != "ok" or v[2] is None or nd is None:
        viol("not-writeable", "activation / tag.ndef failed before the capacity+1 assignment")
        return
    before = model.image()
    n0 = dev.n_commands
    R.case(lkey(lay) + ["oversize"])
    try:
        nd.octets = mk_msg(salt, cap + 1)
        viol("oversize-accepted", "capacity+1 = %d bytes accepted" % (cap + 1))
    except ValueError:
        if dev.n_commands != n0 or model.image() != before:
            viol("oversize-commands", "%d command(s) sent before rejecting capacity+1" % (dev.n_commands - n0))
        else:
            R.count("t3t_oversize_rejected")
    except Exception as e:
        viol("oversize-raises/" + exc_sig(e), "capacity+1 raised %r instead of ValueError" % e)


def _first_diff(a, b):
    for i, (x, y) in enumerate(zip(a, b)):
        if x != y:
            return i
    return min(len(a), len(b))


# =====================================================================================================
# C02 - interrupted write
# =====================================================================================================
RULE_C02 = ("writes: generic/Standard layouts (Nbw 1..13, Nmaxb up to 300) and FeliCa Lite / Lite-S (plain and "
            "authenticated) with old/new lengths around 0, 254/255/256, Nbw*16 (one command / many commands) and "
            "capacity; for each write the uninterrupted run gives n state changing commands and EVERY k in 0..n is "
            "executed (field lost right after the k-th programming command), then judged by a fresh nfcpy reader and "
            "by the reference reader. distinct by (layout, old, new, k).  Correlated contents (a fifth of the writes): new "
            "message identical to the old one / same length with one or two 16-byte blocks changed.  History classes (part "
            "hist): the write that is cut at EVERY k follows, on the same tag / NDEF object, {a completed assignment; 1 or 2 "
            "failed assignments (exchanges lost from command j on); format() with re-probed Nbr/Nbw/Nmaxb; a start image "
            "that is itself an interrupted write (WriteF = 0Fh, part of a third message programmed), with and without a "
            "failed attempt}; accepted outcomes: no NDEF, not readable, empty, the complete new message, the message "
            "that was readable before the cut write (reference reader on the memory after the history)")
REQUIRED_C02 = ["t3t_cut_runs", "t3t_cut_outcome_old", "t3t_cut_outcome_new", "t3t_cut_outcome_not_readable",
                "t3t_cut_writes", "t3t_cut_across_255", "t3t_cut_multi_command_writes", "t3t_cut_3byte_block_numbers",
                "t3t_cut_pers_generic", "t3t_cut_pers_standard", "t3t_cut_pers_lite", "t3t_cut_pers_lites",
                "t3t_cut_pers_lite+auth", "t3t_cut_pers_lites+auth", "t3t_cut_correlated_identical",
                "t3t_cut_correlated_one_block_changed", "t3t_cut_correlated_two_blocks_changed",
                "t3t_cut_hist_writes", "t3t_cut_hist_runs", "t3t_cut_hist_outcome_new", "t3t_cut_hist_outcome_not_readable",
                "t3t_cut_hist_outcome_old", "t3t_cut_hist_state_before_not_readable", "t3t_cut_hist_state_before_readable",
                "t3t_cut_hist_auth", "t3t_cut_hist_final_same", "t3t_cut_hist_final_variation", "t3t_cut_hist_final_other"] + [
                    "t3t_cut_hist_kind_" + _k for _k in (
                    "second", "retry", "retry2", "format", "cutstate", "cutstate-retry")]


def plan_c02(tier):
    if tier == "quick":
        return [{"part": "generic", "n": 1500}, {"part": "generic2", "n": 700}, {"part": "sony", "n": 180},
                {"part": "hist", "n": 300}]
    out = [{"part": "generic", "n": 8000, "sub": i, "timeout": 1500} for i in range(4)]
    out += [{"part": "hist", "n": 2500, "sub": i, "timeout": 1500} for i in range(3)]
    out += [{"part": "generic2", "n": 3500, "sub": i, "timeout": 1500} for i in range(5)]
    out += [{"part": "sony", "n": 800, "sub": i, "timeout": 1500} for i in range(6)]
    return out


def c02_gen(part, i, rng):
    if part in ("generic", "generic2"):
        nbw = rng.choice([1, 1, 2, 3, 4, 5, 8, 12, 13]) if part == "generic" else rng.randrange(1, 14)
        nmaxb = rng.choice([1, 2, nbw, nbw + 1, 2 * nbw + 1, 17, 20, 33]) if part == "generic" else rng.choice(
            [rng.randrange(1, 50), 64, 100, 300])
        if nmaxb > 255 and nbw == 13:
            nbw = 12
        lay = {"kind": rng.choice(["generic", "generic", "standard"]), "nbr": rng.randrange(1, 16), "nbw": nbw,
               "nmaxb": nmaxb, "extra": 1}
        if lay["kind"] == "standard":
            lay["ic"] = rng.choice([0x01, 0x0D, 0x20])
    else:
        lay = {"kind": rng.choice(["lite", "lites"]), "nbr": rng.randrange(1, 5), "nbw": 1, "nmaxb": rng.randrange(1, 14)}
        if rng.random() < 0.3:
            lay["auth"] = True
            lay["password"] = PASSWORD
    cap = lay["nmaxb"] * 16
    pick = [0, 1, 15, 16, 17, 254, 255, 256, 300, lay["nbw"] * 16 - 1, lay["nbw"] * 16, lay["nbw"] * 16 + 1, cap - 1, cap,
            rng.randrange(cap + 1)]
    pick = [x for x in pick if 0 <= x <= cap]
    lay["old_len"] = rng.choice(pick)
    lay["old_salt"] = rng.randrange(1, 120)
    lay["sensf_rd"] = rng.random() < 0.8
    new_len = rng.choice(pick)
    case = {"family": FAM, "layout": lay, "new_len": new_len, "new_salt": 120 + rng.randrange(1, 120)}
    if i % 5 == 4 and lay["old_len"] >= 16:
        # correlated contents: 0 = identical, 1 / 2 = that many blocks differ (same length)
        case["correlated"] = [rng.choice([0, 1, 2]), rng.randrange(0, 40)]
        case["new_len"] = lay["old_len"]
    return case


def c02_new(case, old):
    if "correlated" in case:
        return old if case["correlated"][0] == 0 else vary_msg(old, case["correlated"][0], case["correlated"][1])
    return mk_msg(case["new_salt"], case["new_len"])


def run_c02(desc, R, rng):
    guard(R)
    if desc["part"] == "hist":
        for i in range(desc["n"]):
            hkind = HIST_KINDS[i % len(HIST_KINDS)]
            lay, steps = hist_gen(hkind, rng, small=True, auth_share=0.15 if desc.get("tier") == "quick" else 0.3)
            cap = lay["nmaxb"] * 16
            case = {"family": FAM, "hist": hkind, "layout": lay, "steps": steps, "new_salt": 60 + rng.randrange(40),
                    "new_len": max(0, min(cap, rng.choice([0, 1, 17, lay["nbw"] * 16, lay["nbw"] * 16 + 1, cap - 1, cap, cap,
                                                           rng.randrange(cap + 1)])))}
            if steps and steps[-1][0] in ("f", "w"):
                # the cut write repeats the last (failed / completed) assignment, or a variation of it (1-2 blocks differ)
                case["final"] = rng.choice(["same", "variation", "other"])
                case["vary"] = [rng.choice([1, 2]), rng.randrange(0, 20)]
            c02_hist_case(case, R)
        return
    for i in range(desc["n"]):
        case = c02_gen(desc["part"], i, rng)
        c02_case(case, R)


def replay_c02(case, R):
    if "hist" in case:
        c02_hist_case(case, R, only_k=case.get("k"))
    else:
        c02_case(case, R, only_k=case.get("k"))


def c02_hist_case(case, R, only_k=None):
    lay, steps, hkind = case["layout"], case["steps"], case["hist"]
    new = mk_msg(case["new_salt"], case["new_len"])
    if case.get("final") in ("same", "variation"):
        new = mk_msg(steps[-1][1], steps[-1][2])
        if case["final"] == "variation":
            new = vary_msg(new, case["vary"][0], case["vary"][1])
    model = build(lay)
    img0 = model.image()
    key0 = [lkey(lay), lay.get("writef"), lay.get("cut_blocks"), steps, case["new_salt"], case["new_len"], case.get("final")]
    # ---- uninterrupted run: state before the judged write, number of programming commands of the judged write
    h = hist_play(model, lay, steps, R, "t3t_cut_hist")
    if h is None:
        R.case(key0, nontrivial=False)
        return
    st0, before, attr0 = t3_attr.ref_read(model.get_block)
    if attr0 is not None and len(new) > attr0["nmaxb"] * 16:
        new = new[:attr0["nmaxb"] * 16]
    s0 = h["dev"].state_changes
    with fixed_challenge():
        st, e = attempt(lambda: setattr(h["nd"], "octets", new))
    if st != "ok":
        R.count("t3t_cut_hist_final_raised")             # observed, judged by C01 / C16
        R.seen("t3t_cut_hist_final_exceptions", "%s/%s" % (hkind, exc_sig(e)))
        R.case(key0, nontrivial=False)
        return
    n = h["dev"].state_changes - s0
    R.count("t3t_cut_hist_writes")
    R.count("t3t_cut_hist_final_" + case.get("final", "other"))
    R.count("t3t_cut_hist_kind_" + hkind)
    R.count("t3t_cut_hist_state_before_" + ("readable" if st0 == "ok" else "not_readable"))
    if lay.get("auth"):
        R.count("t3t_cut_hist_auth")
    R.max("t3t_cut_hist_points_per_write", n)
    for k in range(0, n + 1):
        if only_k is not None and k != only_k:
            continue
        model.restore(img0)
        h = hist_play(model, lay, steps, R, "t3t_cut_hist_replay")
        if h is None:
            R.inconc("t3t C02: the history of a case could not be played a second time (harness determinism)")
            return
        h["dev"].arm_cut(k)
        with fixed_challenge():
            attempt(lambda: setattr(h["nd"], "octets", new))
        R.count("t3t_cut_hist_runs")
        R.case(key0 + [k])
        wcase = dict(case)
        wcase["k"] = k
        st, v = attempt(lambda: tagdevice.activate(model))
        if st == "ok":
            st, v = attempt(lambda: (lambda nd2: "none" if nd2 is None else "not_readable" if not nd2.is_readable else
                                     bytes(nd2.octets))(v[2].ndef if v[2] is not None else None))
        if st != "ok":
            R.count("t3t_cut_reader_exception")
            R.inconc("t3t C02: fresh reader raised %s after cut %d" % (exc_sig(v), k))
            continue
        out = v if isinstance(v, str) else "new" if v == new else "old" if st0 == "ok" and v == before else \
            "empty" if v == b"" else "MIXED"
        R.count("t3t_cut_hist_outcome_" + out.lower())
        if out == "MIXED":
            R.violation("t3t/cut/hist/%s/readable-mixture" % hkind,
                        "history %r, then a write of %d bytes cut after %d of %d programming commands: a fresh reader sees %d "
                        "readable bytes that are neither the message readable before (%s) nor the new one; layout %r" % (
                            steps, len(new), k, n, len(v), "%d bytes" % len(before) if st0 == "ok" else "none, " + st0,
                            lkey(lay)), wcase)
        stt, ref, attr = t3_attr.ref_read(model.get_block)
        rout = stt if stt != "ok" else "new" if ref == new else "old" if st0 == "ok" and ref == before else \
            "empty" if ref == b"" else "MIXED"
        if rout == "MIXED":
            R.violation("t3t/cut/hist/%s/ref-readable-mixture" % hkind,
                        "history %r, then a write of %d bytes cut after %d of %d programming commands: memory holds a committed "
                        "message (Ln=%d, WriteF=0) that is neither the one readable before nor the new one; layout %r" % (
                            steps, len(new), k, n, attr["ln"], lkey(lay)), wcase)
        if k == n and rout != "new":
            R.violation("t3t/cut/hist/%s/complete-not-new" % hkind,
                        "all %d programming commands applied but memory state is %s" % (n, rout), wcase)


def c02_case(case, R, only_k=None):
    lay = case["layout"]
    old = mk_msg(lay.get("old_salt", 1), lay.get("old_len", 0))
    new = c02_new(case, old)
    model = build(lay)
    img = model.image()
    box = {}

    def reference():
        clf, dev, tag = open_tag(model, lay)
        nd = tag.ndef
        box["s0"], box["dev"] = dev.state_changes, dev
        nd.octets = new
    with fixed_challenge():
        st, e = attempt(reference)
    if st != "ok":
        if isinstance(e, RuntimeError) and str(e).startswith("setup:"):
            R.inconc("t3t C02: %s" % e)
        else:
            # the uninterrupted write of a well-formed layout fails: that is C01's verdict, here it is a signed escape
            R.violation("t3t/cut/uninterrupted-write-raises/" + exc_sig(e),
                        "the uninterrupted reference write of %d bytes raised %s; layout %r" % (
                            len(new), exc_text(e)[-200:], lkey(lay)), dict(case, k=None))
        R.case(lkey(lay) + [case["new_salt"], case["new_len"], "reference"], nontrivial=False)
        return
    n = box["dev"].state_changes - box["s0"]
    R.count("t3t_cut_writes")
    R.count("t3t_cut_pers_" + lay["kind"] + ("+auth" if lay.get("auth") else ""))
    if "correlated" in case:
        R.count("t3t_cut_correlated_" + ("identical", "one_block_changed", "two_blocks_changed")[case["correlated"][0]])
    if lay["nmaxb"] > 255 and len(new) > 255 * 16:
        R.count("t3t_cut_3byte_block_numbers")
    R.max("t3t_cut_points_per_write", n)
    if len(new) >= 255 > len(old) or len(old) >= 255 > len(new):
        R.count("t3t_cut_across_255")
    if len(new) > lay["nbw"] * 16:
        R.count("t3t_cut_multi_command_writes")
    for k in range(0, n + 1):
        if only_k is not None and k != only_k:
            continue
        model.restore(img)
        with fixed_challenge():
            st, v = attempt(lambda: (lambda t: (t[1], t[2].ndef))(open_tag(model, lay)))
            if st != "ok" or v[1] is None:
                R.inconc("t3t C02: the set-up of a cut run failed although the reference run worked (harness determinism)")
                return
            dev, nd = v
            dev.arm_cut(k)
            completed = True
            try:
                nd.octets = new
            except Exception:
                completed = False
        R.count("t3t_cut_runs")
        R.case(lkey(lay) + [lay.get("old_salt"), case["new_salt"], case["new_len"], case.get("correlated"), k])
        wcase = dict(case)
        wcase["k"] = k
        # fresh nfcpy reader
        clf2, dev2, tag2 = tagdevice.activate(model)
        try:
            nd2 = tag2.ndef
            if nd2 is None:
                out = "none"
            elif not nd2.is_readable:
                out = "not_readable"
            else:
                out = classify(nd2.octets, old, new)
        except Exception as e:
            R.count("t3t_cut_reader_exception")
            R.inconc("t3t C02: fresh reader raised %s after cut %d" % (exc_sig(e), k))
            continue
        R.count("t3t_cut_outcome_" + out.lower())
        if out == "MIXED":
            R.violation("t3t/cut/readable-mixture",
                        "cut after %d of %d programming commands: fresh reader sees %d readable bytes that are neither "
                        "the old (%d) nor the new (%d) message; layout %r" % (
                            k, n, len(nd2.octets), len(old), len(new), lkey(lay)), wcase)
        # reference reader on raw memory
        st, ref, attr = t3_attr.ref_read(model.get_block)
        rout = st if st != "ok" else classify(ref, old, new)
        R.count("t3t_cut_ref_" + rout.lower())
        if rout == "MIXED":
            R.violation("t3t/cut/ref-readable-mixture",
                        "cut after %d of %d programming commands: memory holds a committed message (Ln=%d, WriteF=0) "
                        "that is neither old nor new; layout %r" % (k, n, attr["ln"], lkey(lay)), wcase)
        if k == n and rout != "new":
            R.violation("t3t/cut/complete-not-new", "all %d programming commands applied but memory state is %s" % (n, rout),
                        wcase)
        if k == 0 and (rout != "old" and not (rout == "new" and old == new) and not (rout == "empty" and old == b"")):
            R.violation("t3t/cut/untouched-not-old", "no programming command applied but memory state is %s" % rout, wcase)
        if completed and k < n:
            R.count("t3t_cut_write_reported_success_despite_cut")


# =====================================================================================================
# C03 - nothing outside the NDEF area
# =====================================================================================================
RULE_C03 = ("operations: ndef.octets= (all boundary lengths incl. capacity) on generic/Standard layouts that have "
            "1..3 further blocks behind block Nmaxb (same services, sentinel content), 2 and 3 byte block numbers, and on "
            "FeliCa Lite / Lite-S (plain, authenticated); format(version=10h, wipe None/00h/A5h) on generic, Standard, "
            "Lite, Lite-S with MC variants (all RW, trailing blocks RO, REG RO, NDEF flag off, system blocks locked). "
            "oracle: blocks changed and blocks addressed by every Write Without Encryption command are a subset of the "
            "attribute block + data blocks 1..Nmaxb (+ MC 88h byte 3 for Lite format, + WCNT/MAC_A for Lite-S MAC "
            "writes). distinct by (layout, operation).  ndef.octets= additionally: Ver, Nbr, Nbw, Nmaxb, RFU and RWFlag of the "
            "attribute block are the same before and after, and in the data of EVERY Write command that addresses block "
            "0 (only Ln, WriteF and the checksum belong to the message).  Generic / Standard layouts carry a second "
            "key-less service (own memory, service number 1..3) in the NDEF system and, Standard, a service with memory in "
            "a second system: their blocks are never in the allowed set, so a Write aimed at another service / system is "
            "flagged also for format(), whose allowed set is every block of the NDEF services.  Correlated contents (same "
            "message again, 1 / 2 blocks changed).  History classes (part hist): the judged operation (assignment, or "
            "format) follows, on the same tag object, {a completed assignment; 1-2 failed assignments; format() with "
            "re-probed Nmaxb; a start image that is an interrupted write}; the allowed set is computed from the attribute "
            "block as it is in memory right before the judged operation")
REQUIRED_C03 = ["t3t_c03_ops", "t3t_c03_write_cmds_inspected", "t3t_c03_blocks_diffed", "t3t_c03_op_write",
                "t3t_c03_op_format", "t3t_c03_writes_at_capacity", "t3t_c03_format_wipes",
                "t3t_c03_attr_fields_compared", "t3t_c03_attr_write_cmds_decoded", "t3t_c03_aux_service_layouts",
                "t3t_c03_aux_system_layouts", "t3t_c03_aux_blocks_diffed", "t3t_c03_3byte_block_numbers",
                "t3t_c03_pers_generic", "t3t_c03_pers_standard", "t3t_c03_pers_lite", "t3t_c03_pers_lites",
                "t3t_c03_pers_lite+auth", "t3t_c03_pers_lites+auth", "t3t_c03_correlated_identical",
                "t3t_c03_correlated_one_block_changed", "t3t_c03_correlated_two_blocks_changed",
                "t3t_c03_hist_ops", "t3t_c03_hist_final_write", "t3t_c03_hist_final_format",
                "t3t_c03_hist_format_nmaxb_grown"] + ["t3t_c03_hist_kind_" + _k for _k in (
                    "second", "retry", "retry2", "format", "cutstate", "cutstate-retry")]


def plan_c03(tier):
    if tier == "quick":
        return [{"part": "write", "n": 3500}, {"part": "write_big", "n": 700}, {"part": "format", "n": 3000},
                {"part": "hist", "n": 900}]
    out = [{"part": "write", "n": 30000, "sub": i, "timeout": 1500} for i in range(6)]
    out += [{"part": "hist", "n": 9000, "sub": i, "timeout": 1500} for i in range(3)]
    out += [{"part": "write_big", "n": 7000, "sub": i, "timeout": 1500} for i in range(5)]
    out += [{"part": "format", "n": 30000, "sub": i, "timeout": 1500} for i in range(5)]
    return out


MC_VARIANTS = [
    "ffffff0107", "ffffff0007", "ff7fff0107", "ff3fff0107", "ff1fff0107", "ff03ff0107", "0300ff0107", "0100ff0107",
    "feffff0107", "ffff000107", "ffff000007", "ffdfff0107", "03c0ff0107",
]


def c03_gen(part, i, rng):
    if part in ("write", "write_big"):
        r = rng.random()
        if part == "write_big":
            nmaxb = rng.choice([255, 256, 257, 300, 600, rng.randrange(200, 601)])
            nbw = rng.randrange(1, 13)
            lay = {"kind": "generic", "nbr": rng.randrange(1, 16), "nbw": nbw, "nmaxb": nmaxb, "extra": rng.choice([1, 2, 3])}
        elif r < 0.7:
            nbw = rng.randrange(1, 14)
            lay = {"kind": rng.choice(["generic", "generic", "standard"]), "nbr": rng.randrange(1, 16), "nbw": nbw,
                   "nmaxb": rng.choice([1, 2, nbw - 1 or 1, nbw, nbw + 1, 2 * nbw, 2 * nbw + 1, rng.randrange(1, 60)]),
                   "extra": rng.choice([1, 2, 3])}
        else:
            lay = {"kind": rng.choice(["lite", "lites"]), "nbr": rng.randrange(1, 5), "nbw": 1, "nmaxb": rng.randrange(1, 14)}
            if rng.random() < 0.15:
                lay["auth"] = True
                lay["password"] = PASSWORD
        cap = lay["nmaxb"] * 16
        pick = [0, 1, 16, 17, 255, 256, lay["nbw"] * 16, lay["nbw"] * 16 + 1, cap - 17, cap - 16, cap - 15, cap - 1, cap, cap,
                rng.randrange(cap + 1)]
        pick = [x for x in pick if 0 <= x <= cap]
        lay["old_len"] = rng.choice(pick)
        lay["old_salt"] = rng.randrange(1, 100)
        op = {"op": "write", "len": rng.choice(pick), "salt": 100 + rng.randrange(100)}
    else:
        r = rng.random()
        if r < 0.35:
            lay = {"kind": rng.choice(["generic", "standard"]), "nbr": rng.randrange(1, 16), "nbw": rng.randrange(1, 14),
                   "nmaxb": rng.choice([1, 2, 5, 13, 14, rng.randrange(1, 40)]), "extra": rng.choice([0, 1, 3])}
            if rng.random() < 0.15:
                lay["nmaxb"] = rng.choice([255, 256, 300])
                lay["nbw"] = min(lay["nbw"], 12)
        else:
            lay = {"kind": rng.choice(["lite", "lites"]), "nbr": 4, "nbw": 1, "nmaxb": rng.randrange(0, 14),
                   "formatted": rng.random() < 0.7}
            mc = bytearray(bytes.fromhex(rng.choice(MC_VARIANTS)) + bytes(11))
            lay["mc"] = bytes(mc)
            if not lay["formatted"]:
                lay["nmaxb"] = 13
        cap = lay["nmaxb"] * 16
        lay["old_len"] = rng.randrange(cap + 1) if lay.get("formatted", True) else 0
        lay["old_salt"] = rng.randrange(1, 100)
        op = {"op": "format", "wipe": rng.choice([None, None, 0x00, 0xA5, 0xFF]), "version": rng.choice([0x10, 0x10, 0x11, 0x1F])}
    lay["sensf_rd"] = True
    c03_add_aux(lay, rng)
    if op["op"] == "write" and i % 5 == 4 and lay["old_len"] >= 16:
        op["correlated"] = [rng.choice([0, 1, 2]), rng.randrange(0, 40)]
        op["len"] = lay["old_len"]
    return {"family": FAM, "layout": lay, "oper": op}


def c03_add_aux(lay, rng):
    """a second key-less service with memory in the NDEF system; Standard: also a service with memory in another system"""
    if lay["kind"] in ("generic", "standard") and rng.random() < 0.6:
        lay["aux"] = [[0x12FC, rng.choice([1, 2, 3]), rng.choice([1, 2, 4])]]
        if lay["kind"] == "standard" and rng.random() < 0.5:
            lay["other_systems"] = [0x0003]
            lay["ndef_first"] = rng.random() < 0.5
            lay["aux"].append([0x0003, rng.choice([0, 1]), rng.choice([1, 3])])


def c03_message(op, lay):
    if "correlated" in op:
        old = mk_msg(lay.get("old_salt", 1), lay.get("old_len", 0))
        return old if op["correlated"][0] == 0 else vary_msg(old, op["correlated"][0], op["correlated"][1])
    return mk_msg(op["salt"], op["len"])


def run_c03(desc, R, rng):
    guard(R)
    if desc["part"] == "hist":
        for i in range(desc["n"]):
            hkind = HIST_KINDS[i % len(HIST_KINDS)]
            lay, steps = hist_gen(hkind, rng, auth_share=0.15)
            c03_add_aux(lay, rng)
            cap = lay["nmaxb"] * 16
            if hkind != "format" and rng.random() < 0.25:
                op = {"op": "format", "wipe": rng.choice([None, 0x00, 0xA5]), "version": 0x10}
            else:
                op = {"op": "write", "salt": 60 + rng.randrange(40), "len": max(0, min(cap, rng.choice(
                    [0, 1, 17, cap - 16, cap - 1, cap, cap, cap, rng.randrange(cap + 1)])))}
                if hkind == "format":
                    op["len_is_capacity"] = rng.random() < 0.6        # the capacity after the format (Nmaxb re-probed)
            c03_case({"family": FAM, "hist": hkind, "layout": lay, "steps": steps, "oper": op}, R)
        return
    for i in range(desc["n"]):
        c03_case(c03_gen(desc["part"], i, rng), R)


def replay_c03(case, R):
    c03_case(case, R)


def _lite_format_nmaxb(mc):
    """number of data blocks behind the attribute block that the MC block leaves writable (consecutive from block 1)"""
    sp = mc[0] | mc[1] << 8
    n = 0
    while n < 13 and sp >> (n + 1) & 1:
        n += 1
    return n


def c03_case(case, R):
    lay, op = case["layout"], case["oper"]
    model = build(lay)
    sony = lay["kind"] in ("lite", "lites")
    hkind = case.get("hist")
    nd = None
    if hkind:
        h = hist_play(model, lay, case["steps"], R, "t3t_c03_hist")
        if h is None:
            R.case([lkey(lay), case["steps"], op], nontrivial=False)
            return
        tag, nd = h["tag"], h["nd"]
    else:
        with fixed_challenge():
            st, v = attempt(lambda: open_tag(model, lay))
        if st != "ok" or v[2] is None:
            if st == "exc" and isinstance(v, RuntimeError) and str(v).startswith("setup:"):
                R.inconc("t3t C03: %s" % v)
            else:
                R.count("t3t_c03_activation_failed")           # C01 / C08 judge that; nothing to diff here
            R.case(lkey(lay) + ["noactivation"], nontrivial=False)
            return
        tag = v[2]
    before = model.image()
    a0 = t3_attr.decode(before[0]) if 0 in before else None
    nmaxb0 = a0["nmaxb"] if hkind and a0 is not None and a0["checksum_ok"] else lay["nmaxb"]
    w0 = len(model.write_log)
    outcome = None
    msg = b""
    try:
        with fixed_challenge():
            if op["op"] == "write":
                if nd is None:
                    nd = tag.ndef
                if nd is None:
                    R.case(lkey(lay) + ["nondef"], nontrivial=False)
                    return
                msg = c03_message(op, lay)
                if op.get("len_is_capacity"):
                    msg = mk_msg(op["salt"], nd.capacity)
                elif hkind and len(msg) > nd.capacity:
                    msg = msg[:nd.capacity]
                nd.octets = msg
                outcome = "done"
            else:
                with quiet():
                    outcome = tag.format(version=op["version"], wipe=op["wipe"])
    except nfc.tag.TagCommandError as e:
        outcome = "TagCommandError(0x%x)" % (e.errno & 0xFFFF)
    except Exception as e:
        # not this property's business (C16/C08 judge escapes) but the memory effects are still judged
        outcome = "exc:" + exc_sig(e)
        R.count("t3t_c03_op_raised")
    after = model.image()
    if op["op"] == "write":
        allowed = set(range(0, nmaxb0 + 1))
        if lay.get("auth") and lay["kind"] == "lites":
            allowed |= {0x90, 0x91}
    elif sony:
        allowed = set(range(0, _lite_format_nmaxb(before[0x88]) + 1)) | {0x88}
    else:
        allowed = set(n for n in before if n < 0x8000)          # every block of the NDEF services (format probes the size)
    changed = set(n for n in set(before) | set(after) if before.get(n) != after.get(n))
    addressed = set()
    ncmd = 0
    for numbers, applied in model.write_log[w0:]:
        ncmd += 1
        for n in (numbers or []):
            addressed.add(n)
    R.case(lkey(lay) + [op, lay.get("aux"), hkind, case.get("steps"), lay.get("writef"), lay.get("cut_blocks")])
    R.count("t3t_c03_ops")
    R.count("t3t_c03_op_" + op["op"])
    R.count("t3t_c03_write_cmds_inspected", ncmd)
    R.count("t3t_c03_blocks_diffed", len(before))
    R.count("t3t_c03_pers_" + lay["kind"] + ("+auth" if lay.get("auth") else ""))
    R.seen("t3t_c03_outcomes", str(outcome))
    for scs in set(x[0] for x in model.write_data_log[w0:]):
        R.seen("t3t_c03_write_service_lists", " ".join("%04X" % x for x in scs))
    if lay.get("aux"):
        R.count("t3t_c03_aux_service_layouts")
        R.count("t3t_c03_aux_blocks_diffed", sum(1 for n in before if n >= 0x10000))
        if len(lay["aux"]) > 1:
            R.count("t3t_c03_aux_system_layouts")
    if hkind:
        R.count("t3t_c03_hist_ops")
        R.count("t3t_c03_hist_kind_" + hkind)
        R.count("t3t_c03_hist_final_" + op["op"])
        if hkind == "format" and nmaxb0 > lay["nmaxb"]:
            R.count("t3t_c03_hist_format_nmaxb_grown")
    if "correlated" in op:
        R.count("t3t_c03_correlated_" + ("identical", "one_block_changed", "two_blocks_changed")[op["correlated"][0]])
    if op["op"] == "write" and outcome == "done" and len(msg) == nmaxb0 * 16:
        R.count("t3t_c03_writes_at_capacity")
    if op["op"] == "write" and nmaxb0 > 255 and any(n > 255 for n in addressed):
        R.count("t3t_c03_3byte_block_numbers")
    if op["op"] == "write" and a0 is not None and a0["checksum_ok"]:
        # the attribute block belongs to the NDEF area only with Ln, WriteF and the checksum
        fields = ("ver", "nbr", "nbw", "nmaxb", "rfu", "rwflag")
        show = lambda a: "Ver=%02X Nbr=%d Nbw=%d Nmaxb=%d RFU=%s RWFlag=%02X" % (     # noqa: E731
            a["ver"], a["nbr"], a["nbw"], a["nmaxb"], a["rfu"].hex(), a["rwflag"])
        a1 = t3_attr.decode(after[0]) if 0 in after else None
        R.count("t3t_c03_attr_fields_compared")
        if a1 is None or any(a1[f] != a0[f] for f in fields):
            R.violation("t3t/c03/write%s/attribute-fields-changed" % ("/lite" if sony else ""),
                        "ndef.octets= changed attribute fields other than Ln / WriteF / checksum: %s -> %s (layout %r, "
                        "outcome %s)" % (show(a0), "block 0 gone" if a1 is None else show(a1), lkey(lay), outcome), case)
        else:
            for scs, numbers, datas, applied in model.write_data_log[w0:]:
                if datas is None or 0 not in numbers:
                    continue
                R.count("t3t_c03_attr_write_cmds_decoded")
                aw = t3_attr.decode(datas[numbers.index(0)])
                if any(aw[f] != a0[f] for f in fields):
                    R.violation("t3t/c03/write%s/attribute-fields-in-write-command" % ("/lite" if sony else ""),
                                "ndef.octets= sent a Write for block 0 with attribute fields other than Ln / WriteF / "
                                "checksum changed: %s -> %s (layout %r, outcome %s)" % (show(a0), show(aw), lkey(lay), outcome),
                                case)
                    break
    if op["op"] == "format" and op["wipe"] is not None and outcome is True:
        R.count("t3t_c03_format_wipes")
    tagk = op["op"] + ("/lite" if sony else "")
    bad = sorted(changed - allowed)
    if bad:
        R.violation("t3t/c03/%s/changed-outside" % tagk,
                    "%s changed block(s) %s outside the NDEF area 0..%d (layout %r, outcome %s)" % (
                        op["op"], ["%02Xh" % b for b in bad[:6]], max(x for x in allowed if x < 0x80), lkey(lay), outcome), case)
    bad = sorted(addressed - allowed)
    if bad:
        R.violation("t3t/c03/%s/addressed-outside" % tagk,
                    "%s sent a write command for block(s) %s outside the NDEF area 0..%d (layout %r, outcome %s)" % (
                        op["op"], ["%02Xh" % b for b in bad[:6]], max(x for x in allowed if x < 0x80), lkey(lay), outcome), case)
    if sony and op["op"] == "format" and 0x88 in changed:
        b, a = before[0x88], after[0x88]
        if b[0:3] != a[0:3] or b[4:] != a[4:] or a[3] != b[3] | 1:
            R.violation("t3t/c03/format/lite/mc-other-bytes",
                        "format changed MC bytes other than the NDEF flag: %s -> %s" % (b.hex(), a.hex()), case)
    if op["op"] == "format" and outcome is True:
        # documented result: empty NDEF mapping, wipe value in all data blocks of the new mapping, nothing else changed
        st, ref, attr = t3_attr.ref_read(model.get_block)
        if st != "ok" or ref != b"":
            R.violation("t3t/c03/format/not-empty", "format returned True but the reference reader sees %s" % st, case)
        elif op["wipe"] is not None:
            for n in range(1, attr["nmaxb"] + 1):
                if after.get(n) != bytes([op["wipe"] & 0xFF]) * 16:
                    R.violation("t3t/c03/format/wipe-incomplete", "block %d not wiped" % n, case)
                    break
        elif any(before.get(n) != after.get(n) for n in changed if n not in (0, 0x88)):
            R.violation("t3t/c03/format/data-changed-without-wipe", "format without wipe changed data blocks %s" % sorted(changed), case)


# =====================================================================================================
# C08 - arbitrary tags / responses
# =====================================================================================================
RULE_C08 = ("(img) memory images: attribute block classes {valid, bad checksum, major version 0/2/15, Ln > Nmaxb*16 "
            "with and without memory behind the data area, Nbr 0, Nbr beyond the tag limit, Nmaxb beyond memory, WriteF "
            "0Fh, random with fixed-up checksum, random, missing block 0} x personality {generic, Standard, Lite, "
            "Lite-S} x SENSF_RES {17 bytes, RD 12FCh, RD other system} x all 256 IC codes; (stop) the tag stops "
            "answering after command j for every j of the reference run; (adv) at every command position of the "
            "reference run one well-framed adversarial response {empty, LEN-only, truncated at 10/11/12/13 bytes, "
            "wrong LEN, wrong response code, wrong IDm, status flags set, fewer/more blocks, block count 0, random "
            "bytes, flipped data bit (MAC protected reads on authenticated Lite/Lite-S)}; (dlg) the activation / NDEF "
            "detection dialogue: discovery cells SENSF_RES {17 bytes, RD 12FCh, RD FFFFh, RD other system, RD = "
            "communication performance} x NFCID2 prefix {02FE, 03FE, 01FE} x reader class {Type3Tag, FelicaStandard, "
            "FelicaMobile, FelicaLite, FelicaLiteS, FelicaPlug by IC code} x layout {empty, one data read, several data "
            "reads, NDEF system second}; the fault-free dialogue of each cell is logged (commands actually sent: Polling "
            "for 12FCh when the SENSF_RES named no/another system, Read Without Encryption) and for each command kind "
            "every standard-conformant / non-conformant but well-framed response variant is delivered once at a "
            "position and by a tag that always answers so: Polling {payload length -2..+4 (+2 = unrequested request "
            "data 12FCh / FFFFh / 0083h), IDm only, no payload, LEN FFh, other response code, other IDm, NFC-DEP IDm, "
            "other PMm / IC code, mute}, Read {data length -2..+4, block count +-1 / 0 with unchanged data, one block "
            "fewer / more, status flags only (success and error), error flags with data, SF2 only, no status flags, "
            "LEN FFh, other response code, other IDm, mute}. evaluated: activate, tag.ndef, length, capacity, octets, "
            "has_changed, tag.ndef again. distinct by full case descriptor. SENSF_RES of 18/20/21 bytes are outside the "
            "property's quantifier and only observed (t3t_c08_obs_*).  (trunc) for five layouts (generic with / without "
            "Polling, Standard with the NDEF system second, Lite, authenticated Lite-S with MAC reads; thorough: Nbr 1..15) "
            "EVERY response of the fault-free dialogue (Polling, attribute read, data reads, the reads of has_changed) is "
            "cut to EVERY length 0..full with a matching LEN octet, the genuine response code and IDm, once with the "
            "genuine status flags and - from 11 octets on - once with status flag 1 = 01h (flag 2 = A8h).  A third of the "
            "(stop) and (adv) layouts carry a mutated attribute block of the (img) classes and any IC code.  Clauses: no "
            "exception, <= 5000 commands and <= 10^6 executed source lines of nfc/tag/tt3*.py per evaluation (harness "
            "exceptions derived from BaseException), length <= capacity, capacity <= Nmaxb * 16 of the attribute block in "
            "memory, octets = first Ln bytes of blocks 1..Nmaxb (all modes whose delivered data bytes are genuine)")
REQUIRED_C08 = ["t3t_c08_evals", "t3t_c08_ndef_none", "t3t_c08_ndef_object", "t3t_c08_stop_positions",
                "t3t_c08_adv_cases", "t3t_c08_octets_checked", "t3t_c08_capacity_checked",
                "t3t_c08_capacity_equals_data_area", "t3t_c08_step_budget_armed",
                "t3t_c08_stop_positions_mutated_attr", "t3t_c08_adv_cases_mutated_attr",
                "t3t_c08_trunc_cases", "t3t_c08_trunc_poll_cases", "t3t_c08_trunc_read_cases",
                "t3t_c08_trunc_in_has_changed", "t3t_c08_trunc_mac_read", "t3t_c08_trunc_read_full_sf0",
                "t3t_c08_trunc_read_full_sf1", "t3t_c08_trunc_read_len11_sf1", "t3t_c08_trunc_read_len12_sf1"] + [
    "t3t_c08_trunc_read_len%d_sf0" % _n for _n in (0, 1, 2, 9, 10, 11, 12, 13)] + [
    "t3t_c08_trunc_poll_len%d_sf0" % _n for _n in (0, 1, 2, 9, 10, 11, 12, 13)] + [
                "t3t_c08_dlg_cells", "t3t_c08_dlg_poll_cases", "t3t_c08_dlg_read_cases", "t3t_c08_dlg_poll_sent",
                "t3t_c08_dlg_ndef_after_poll", "t3t_c08_dlg_poll_unrequested_rd", "t3t_c08_dlg_poll_other_length",
                "t3t_c08_dlg_read_other_length", "t3t_c08_dlg_disc_none", "t3t_c08_dlg_disc_12fc",
                "t3t_c08_dlg_disc_ffff", "t3t_c08_dlg_disc_other", "t3t_c08_dlg_class_Type3Tag",
                "t3t_c08_dlg_class_FelicaStandard", "t3t_c08_dlg_class_FelicaMobile", "t3t_c08_dlg_class_FelicaLite",
                "t3t_c08_dlg_class_FelicaLiteS", "t3t_c08_dlg_class_FelicaPlug"]

ATTR_CLASSES = ["valid", "valid", "bad_checksum", "version", "ln_over_mem", "ln_over_nomem", "nbr0", "nbr_big",
                "nmaxb_beyond", "writef", "random_fixed", "random", "no_block0", "nbw0", "ln_huge"]

ADV_VARIANTS = ["empty", "len1", "trunc2", "trunc10", "trunc11", "trunc11_sf", "trunc12", "trunc13", "badlen+",
                "badlen-", "badcode", "badidm", "sf1", "sf_ff", "fewer", "fewer_keepcount", "more", "count0", "random",
                "flipdata", "mute"]


ADV_AUTH_VARIANTS = ["flipdata", "fewer", "more", "count0", "empty", "trunc11_sf", "sf1", "random", "badidm"]


def plan_c08(tier):
    if tier == "quick":
        return [{"part": "img", "n": 18000}, {"part": "stop", "n": 1200}, {"part": "adv", "n": 70},
                {"part": "adv_auth", "n": 4}, {"part": "dlg", "full": False}, {"part": "trunc", "full": False}]
    out = [{"part": "img", "n": 150000, "sub": i, "timeout": 1500} for i in range(5)]
    out += [{"part": "dlg", "full": True, "sub": i, "timeout": 1500} for i in range(3)]
    out += [{"part": "stop", "n": 12000, "sub": i, "timeout": 1500} for i in range(3)]
    out += [{"part": "adv", "n": 500, "sub": i, "timeout": 1500} for i in range(5)]
    out += [{"part": "adv_auth", "n": 20, "sub": i, "timeout": 1500} for i in range(3)]
    out += [{"part": "trunc", "full": True, "sub": i, "timeout": 1500} for i in range(3)]
    return out


def c08_gen_img(i, rng):
    kind = rng.choice(["generic", "generic", "standard", "lite", "lites"])
    cls = ATTR_CLASSES[i % len(ATTR_CLASSES)]
    if kind in ("lite", "lites"):
        lay = {"kind": kind, "nbr": rng.randrange(1, 5), "nbw": 1, "nmaxb": rng.randrange(1, 14)}
    else:
        lay = {"kind": kind, "nbr": rng.randrange(1, 16), "nbw": rng.randrange(1, 14), "nmaxb": rng.randrange(1, 30),
               "extra": rng.choice([0, 0, 1, 2, 5])}
    cap = lay["nmaxb"] * 16
    lay["old_len"] = rng.choice([0, 1, cap, rng.randrange(cap + 1)])
    lay["old_salt"] = rng.randrange(1, 200)
    lay["sensf_rd"] = rng.random() < 0.7
    lay["ndef_first"] = rng.random() < 0.6
    if kind == "standard" and rng.random() < 0.5:
        lay["other_systems"] = [0x0003]
    # every IC code; the personality of the *tag model* stays what it is, the reader's class follows the IC code
    ic = rng.randrange(256)
    if kind in ("lite", "lites") and rng.random() < 0.7:
        ic = 0xF0 if kind == "lite" else rng.choice([0xF1, 0xF2])
    if kind == "standard" and rng.random() < 0.7:
        ic = rng.choice([0x00, 0x01, 0x02, 0x08, 0x09, 0x0B, 0x0C, 0x0D, 0x20, 0x32, 0x35, 0x06, 0x14, 0xE0, 0xE1])
    lay["ic"] = ic
    if rng.random() < 0.04:
        lay["idm"] = bytes.fromhex("01FE") + bytes(rng.randrange(256) for _ in range(6))     # NFC-DEP target, not a tag
    case = {"family": FAM, "mode": "img", "layout": lay, "attr_class": cls}
    a = {"ver": 0x10, "nbr": lay["nbr"], "nbw": lay["nbw"], "nmaxb": lay["nmaxb"], "writef": 0,
         "rwflag": rng.choice([0, 1, 1]), "ln": lay["old_len"]}
    if cls == "bad_checksum":
        case["attr"] = t3_attr.encode(bad_checksum=True, **a)
    elif cls == "version":
        a["ver"] = rng.choice([0x00, 0x0F, 0x20, 0x21, 0xF0, 0xFF, 0x11, 0x1F])
        case["attr"] = t3_attr.encode(**a)
    elif cls in ("ln_over_mem", "ln_over_nomem"):
        a["ln"] = cap + rng.choice([1, 15, 16, 17, 32])
        if kind not in ("lite", "lites"):
            lay["extra"] = rng.choice([2, 3, 5]) if cls == "ln_over_mem" else 0
        case["attr"] = t3_attr.encode(**a)
    elif cls == "ln_huge":
        a["ln"] = rng.choice([0xFFFFFF, 0x010000, 0x00FFFF, 70000])
        case["attr"] = t3_attr.encode(**a)
    elif cls == "nbr0":
        a["nbr"] = 0
        a["ln"] = rng.choice([0, a["ln"]])
        case["attr"] = t3_attr.encode(**a)
    elif cls == "nbw0":
        a["nbw"] = 0
        case["attr"] = t3_attr.encode(**a)
    elif cls == "nbr_big":
        a["nbr"] = rng.choice([lay["nbr"] + 1, 15, 16, 255]) if kind not in ("lite", "lites") else rng.choice([5, 15, 255])
        case["attr"] = t3_attr.encode(**a)
    elif cls == "nmaxb_beyond":
        a["nmaxb"] = rng.choice([lay["nmaxb"] + 6, 0x100, 0xFFFF])
        a["ln"] = rng.choice([a["ln"], cap + 16 * 6, 0x1000])
        case["attr"] = t3_attr.encode(**a)
    elif cls == "writef":
        a["writef"] = rng.choice([0x0F, 0x01, 0xFF])
        case["attr"] = t3_attr.encode(**a)
    elif cls == "random_fixed":
        raw = bytearray(rng.randrange(256) for _ in range(16))
        if rng.random() < 0.7:
            raw[0] = 0x10
        if rng.random() < 0.5:
            raw[11] = 0
            raw[12] = rng.choice([0, 0, 1])
        cs = t3_attr.checksum(raw)
        raw[14], raw[15] = cs >> 8, cs & 0xFF
        case["attr"] = bytes(raw)
    elif cls == "random":
        case["attr"] = bytes(rng.randrange(256) for _ in range(16))
    elif cls == "no_block0":
        case["attr"] = None
    return case


def c08_model(case):
    lay = case["layout"]
    model = build(lay)
    if "attr_class" in case:
        if case["attr_class"] == "no_block0":
            del model.blocks[0]
        elif "attr" in case and case["attr"] is not None:
            model.set_block(0, case["attr"])
        model.pmm = bytes([model.pmm[0], lay["ic"]]) + model.pmm[2:]
        if 0x83 in model.blocks:
            model.blocks[0x83][8:16] = model.pmm
    if case.get("mode") == "dlg" and "ic" in lay:
        # the reader's class follows the IC code of the PMm, the tag model keeps its personality
        model.pmm = bytes([model.pmm[0], lay["ic"]]) + model.pmm[2:]
        if 0x83 in model.blocks:
            model.blocks[0x83][8:16] = model.pmm
    return model


def run_c08(desc, R, rng):
    guard(R)
    part = desc["part"]
    if part == "img":
        for i in range(desc["n"]):
            case = c08_gen_img(i + desc.get("sub", 0) * 104729, rng)
            c08_eval(case, R)
            if R.counters.get("t3t_c08_nonterm", 0) >= 20:
                return
        return
    if part == "dlg":
        c08_run_dlg(desc, R, rng)
        return
    if part == "trunc":
        c08_run_trunc(desc, R, rng)
        return
    for i in range(desc["n"]):
        if R.counters.get("t3t_c08_nonterm", 0) >= 20:
            return
        # a valid layout with a message; the reference run gives the command positions
        mutated = None
        if part in ("stop", "adv") and i % 3 == 2:
            # crossed with the image classes: a mutated attribute block (and any IC code) under the same stop / adversarial
            # positions
            mutated = c08_gen_img(i // 3 + desc.get("sub", 0) * 7919, rng)
            lay = mutated["layout"]
        elif part == "adv_auth":
            lay = {"kind": ("lite", "lites")[i % 2], "nbr": rng.randrange(1, 5), "nbw": 1, "nmaxb": rng.randrange(2, 7),
                   "auth": True, "password": PASSWORD}
        else:
            kind = rng.choice(["generic", "generic", "standard", "lite", "lites"])
            if kind in ("lite", "lites"):
                lay = {"kind": kind, "nbr": rng.randrange(1, 5), "nbw": 1, "nmaxb": rng.randrange(1, 14)}
            else:
                lay = {"kind": kind, "nbr": rng.randrange(1, 16), "nbw": rng.randrange(1, 14), "nmaxb": rng.randrange(1, 40),
                       "extra": 1}
                if kind == "standard":
                    lay["ic"] = rng.choice([0x01, 0x0D])
                    if rng.random() < 0.5:
                        lay["other_systems"] = [0x0003]
                        lay["ndef_first"] = False
        extra = {}
        if mutated is None:
            cap = lay["nmaxb"] * 16
            lay["old_len"] = rng.choice([cap, rng.randrange(1, cap + 1), rng.randrange(1, cap + 1)])
            lay["old_salt"] = rng.randrange(1, 200)
            lay["sensf_rd"] = rng.random() < 0.6
        else:
            extra = {"attr_class": mutated["attr_class"], "attr": mutated.get("attr")}
        ref = dict({"family": FAM, "mode": "ref", "layout": lay}, **extra)
        ncmd = c08_eval(ref, R, count_only=True)
        if part == "stop":
            for j in range(0, ncmd + 1):
                c08_eval(dict({"family": FAM, "mode": "stop", "layout": lay, "j": j}, **extra), R)
                R.count("t3t_c08_stop_positions")
                if mutated is not None:
                    R.count("t3t_c08_stop_positions_mutated_attr")
        else:
            for p in range(ncmd):
                for v in (ADV_AUTH_VARIANTS if part == "adv_auth" else ADV_VARIANTS):
                    case = dict({"family": FAM, "mode": "adv", "layout": lay, "pos": p, "variant": v}, **extra)
                    if mutated is not None:
                        R.count("t3t_c08_adv_cases_mutated_attr")
                    if v == "random":
                        n = rng.choice([1, 2, 3, 11, 12, 13, 29, rng.randrange(1, 60)])
                        body = bytes(rng.randrange(256) for _ in range(n - 1))
                        if rng.random() < 0.5 and n >= 2:
                            body = bytes([rng.choice([0x01, 0x07, 0x09])]) + body[1:]
                        case["bytes"] = bytes([n]) + body
                    if v == "flipdata":
                        case["bit"] = rng.randrange(8 * 40)
                    c08_eval(case, R)
                    R.count("t3t_c08_adv_cases")
                    R.seen("t3t_c08_adv_variants", v)


# ---- (dlg) the activation / NDEF detection dialogue: discovery variants x reader class x response variants ---------
DLG_RD = ["none", "12fc", "ffff", "other", "perf"]
DLG_RD_BYTES = {"none": b"", "12fc": b"\x12\xFC", "ffff": b"\xFF\xFF", "perf": b"\x00\x83"}
DLG_PREFIX = ["02FE", "03FE", "01FE"]
# reader class nfc.tag.tt3_sony.activate selects from the IC code (PMm byte 1) -> tag model personality, IC codes
DLG_CLASSES = [
    ("Type3Tag", "generic", [0xAA, 0xFF, 0x03, 0x30, 0xE2, 0xF3]),
    ("FelicaStandard", "standard", [0x00, 0x01, 0x02, 0x08, 0x09, 0x0B, 0x0C, 0x0D, 0x20, 0x32, 0x35]),
    ("FelicaMobile", "standard", [0x06, 0x07, 0x10, 0x14, 0x1F]),
    ("FelicaLite", "lite", [0xF0]),
    ("FelicaLiteS", "lites", [0xF1, 0xF2]),
    ("FelicaPlug", "generic", [0xE0, 0xE1]),
]
DLG_LAYOUTS = ["several", "one", "empty", "second"]
DLG_POLL_VARIANTS = ["len-2", "len-1", "len+1", "len+2", "len+3", "len+4", "rd_perf", "rd_ffff", "idm_only", "no_payload",
                     "max", "code03", "code07", "idm_other", "idm_dep", "pmm_ic_f0", "pmm_ic_01", "pmm_ic_aa", "pmm_ff",
                     "mute"]
DLG_READ_VARIANTS = ["len-2", "len-1", "len+1", "len+2", "len+3", "len+4", "nb+1", "nb-1", "nb0", "blocks-1", "blocks+1",
                     "sf_ok_nodata", "sf_err_nodata", "sf_err_data", "sf2_only", "hdr10", "hdr11", "max", "code09", "code01",
                     "idm_other", "mute"]
DLG_VARIANTS = {0x00: DLG_POLL_VARIANTS, 0x06: DLG_READ_VARIANTS}
# SENSF_RES that is neither "with" nor "without" system code: outside the quantifier of C08, observed only
DLG_ODD_RD = [b"\x12", b"\x12\xFC\x00", b"\x12\xFC\x00\x83"]
C08_ODD_SENSF_RES_IS_VIOLATION = True


def dlg_layout(cls, kind, ic, shape, prefix, rng):
    if kind in ("lite", "lites"):
        lay = {"kind": kind, "nbw": 1}
        lay.update({"several": {"nbr": 2, "nmaxb": 5, "old_len": 70}, "one": {"nbr": 4, "nmaxb": 4, "old_len": 33},
                    "empty": {"nbr": 4, "nmaxb": 13, "old_len": 0}, "second": {"nbr": 1, "nmaxb": 2, "old_len": 32}}[shape])
    else:
        lay = {"kind": kind, "extra": 1}
        lay.update({"several": {"nbr": 2, "nbw": 1, "nmaxb": 5, "old_len": 70},
                    "one": {"nbr": 12, "nbw": 8, "nmaxb": 9, "old_len": 129},
                    "empty": {"nbr": 1, "nbw": 1, "nmaxb": 3, "old_len": 0},
                    "second": {"nbr": 3, "nbw": 2, "nmaxb": 4, "old_len": 49}}[shape])
        if kind == "standard" and shape == "second":
            lay["other_systems"] = [0x0003]
    lay["ndef_first"] = shape != "second"
    lay["ic"] = ic
    lay["old_salt"] = rng.randrange(1, 200)
    lay["brty"] = rng.choice(["212F", "424F"])
    lay["idm"] = bytes.fromhex(prefix) + bytes(rng.randrange(256) for _ in range(6))
    if kind == "standard":
        lay["idm"] = bytes([lay["idm"][0] & 0x0F]) + lay["idm"][1:]      # upper nibble = system index
    return lay


def c08_run_dlg(desc, R, rng):
    full = desc.get("full", False)
    cells = [(rd, prefix, c) for rd in DLG_RD for prefix in DLG_PREFIX for c in DLG_CLASSES]
    for ci, (rd, prefix, (cls, kind, ics)) in enumerate(cells):
        if R.counters.get("t3t_c08_nonterm", 0) >= 20:
            return
        if full and (ci + ci // len(DLG_CLASSES)) % 3 != desc.get("sub", 0) % 3:
            continue                                  # the thorough tier deals the cells out to its three shards
        for ic in (ics if full else [ics[(ci + desc.get("seed", 0)) % len(ics)]]):
            shapes = DLG_LAYOUTS if full else [DLG_LAYOUTS[(ci // 3 + ci + desc.get("seed", 0)) % 3], "second"][:1 + (ci % 4 == 0)]
            for shape in shapes:
                lay = dlg_layout(cls, kind, ic, shape, prefix, rng)
                disc = {"rd": rd}
                if rd == "other":
                    disc["rdbytes"] = rng.choice([b"\x88\xB4", b"\x00\x03", b"\xFE\x00", b"\x12\xFD", b"\x12\xFF",
                                                  b"\xFF\xFC", bytes([rng.randrange(256), rng.randrange(256)])])
                    if disc["rdbytes"] == b"\x12\xFC":
                        disc["rdbytes"] = b"\x40\x00"
                c08_dlg_cell(lay, disc, cls, R, rng, full)
    # observation only: SENSF_RES with 1, 3 or 4 bytes behind the PMm
    for i, rdbytes in enumerate(DLG_ODD_RD):
        cls, kind, ics = DLG_CLASSES[i % len(DLG_CLASSES)]
        lay = dlg_layout(cls, kind, ics[0], "one", "02FE", rng)
        c08_eval({"family": FAM, "mode": "dlg", "layout": lay, "disc": {"rd": "odd", "rdbytes": rdbytes},
                  "observe_only": True}, R)


def c08_dlg_cell(lay, disc, cls, R, rng, full):
    info = {}
    ref = {"family": FAM, "mode": "dlg", "layout": lay, "disc": disc}
    c08_eval(ref, R, info=info)
    R.count("t3t_c08_dlg_cells")
    R.count("t3t_c08_dlg_disc_" + disc["rd"])
    if info.get("cls") is None:
        R.count("t3t_c08_dlg_not_a_tag")         # NFC-DEP prefix 01FE: nfc.tag.activate yields None
        return
    R.count("t3t_c08_dlg_class_" + info["cls"])
    if info["cls"] != cls:
        R.inconc("t3t C08 dlg: IC code %02Xh gave reader class %s, the cell expects %s" % (lay["ic"], info["cls"], cls))
    codes = info.get("codes", [])
    for c in codes:
        R.seen("t3t_c08_dlg_command_codes", "%02X" % c)
    if 0x00 in codes and info.get("ndef"):
        R.count("t3t_c08_dlg_ndef_after_poll")
    for code, variants in sorted(DLG_VARIANTS.items()):
        positions = [p for p, c in enumerate(codes) if c == code]
        if not positions:
            continue
        once = positions
        if code == 0x06 and not full and len(positions) > 3:
            once = [positions[0]] + sorted(rng.sample(positions[1:], 2))
        for v in variants:
            for scope, pos in [("always", None)] + [("once", p) for p in once]:
                case = {"family": FAM, "mode": "dlg", "layout": lay, "disc": disc, "cmd": code, "scope": scope,
                        "variant": v}
                if pos is not None:
                    case["pos"] = pos
                c08_eval(case, R)
                R.count("t3t_c08_dlg_cases")
                R.count("t3t_c08_dlg_poll_cases" if code == 0x00 else "t3t_c08_dlg_read_cases")
                R.seen("t3t_c08_dlg_variants", "%02X/%s" % (code, v))


def dlg_sense(case):
    disc = case["disc"]
    rd = bytes(disc["rdbytes"]) if "rdbytes" in disc else DLG_RD_BYTES[disc["rd"]]

    def fn(target, found):
        if found is None:
            return None
        return nfc.clf.RemoteTarget(found.brty, sensf_res=bytearray(bytes(found.sensf_res[:17]) + rd))
    return fn


def dlg_tamper(case):
    v, scope, pos, code = case.get("variant"), case.get("scope"), case.get("pos"), case.get("cmd")

    def fix(b):
        b = bytearray(b)
        b[0] = len(b) & 0xFF
        return bytes(b)

    def vary(g):
        if v == "mute" or g is None:
            return None
        g = bytes(g)
        if v.startswith("len"):
            d = int(v[3:])
            return fix(g[:d]) if d < 0 else fix(g + b"\x12\xFC\x00\x83"[:d])
        if v in ("rd_perf", "rd_ffff"):
            return fix(g[:18] + (b"\x00\x83" if v == "rd_perf" else b"\xFF\xFF"))
        if v in ("idm_only", "hdr10"):
            return fix(g[:10])
        if v == "hdr11":
            return fix(g[:11])
        if v == "no_payload":
            return fix(g[:2])
        if v == "max":
            return fix((g + bytes(255))[:255])
        if v.startswith("code"):
            return g[0:1] + bytes([int(v[4:], 16)]) + g[2:]
        if v == "idm_other":
            return g[0:5] + bytes([g[5] ^ 0x10]) + g[6:]
        if v == "idm_dep":
            return g[0:2] + b"\x01\xFE" + g[4:]
        if v.startswith("pmm_ic_"):
            return g[0:11] + bytes([int(v[7:], 16)]) + g[12:]
        if v == "pmm_ff":
            return g[0:10] + b"\xFF" * 8 + g[18:]
        # ---- Read Without Encryption: LEN 07 IDm SF1 SF2 NB data
        if v in ("nb+1", "nb-1", "nb0"):
            if len(g) <= 12:
                return g
            return g[:12] + bytes([{"nb+1": g[12] + 1, "nb-1": g[12] - 1, "nb0": 0}[v] & 0xFF]) + g[13:]
        if v == "blocks-1":
            return fix(g[:12] + bytes([g[12] - 1]) + g[13:-16]) if len(g) >= 13 + 16 else fix(g[:12])
        if v == "blocks+1":
            if len(g) > 12 and len(g) + 16 <= 255:
                return fix(g[:12] + bytes([(g[12] + 1) & 0xFF]) + g[13:] + bytes(16))
            return g
        if v == "sf_ok_nodata":
            return fix(g[:10] + b"\x00\x00")
        if v == "sf_err_nodata":
            return fix(g[:10] + b"\x01\xA8")
        if v == "sf_err_data":
            return g[:10] + b"\x01\xA8" + g[12:]
        if v == "sf2_only":
            return g[:10] + b"\x00\xA8" + g[12:]
        raise AssertionError(v)

    def fn(n, cmd, g):
        if v is None or len(cmd) < 2 or cmd[1] != code:
            return g
        if scope == "once" and n != pos:
            return g
        return vary(g)
    return fn


def c08_dlg_observe(case, dev, base, R):
    """what actually went over the wire in a dialogue case (delivered responses only)"""
    for _n, cmd, rsp in dev.log[base:]:
        if not cmd or len(cmd) < 2:
            continue
        if cmd[1] == 0x00:
            R.count("t3t_c08_dlg_poll_sent")
            if isinstance(rsp, bytes) and len(rsp) >= 2 and rsp[0] == len(rsp) and rsp[1] == 0x01:
                if len(cmd) == 6 and cmd[4] == 0 and len(rsp) == 20:
                    R.count("t3t_c08_dlg_poll_unrequested_rd")
                elif len(rsp) != 18:
                    R.count("t3t_c08_dlg_poll_other_length")
                    R.seen("t3t_c08_dlg_poll_rsp_lengths", len(rsp))
        elif cmd[1] == 0x06 and isinstance(rsp, bytes) and len(rsp) >= 13 and rsp[0] == len(rsp) and rsp[1] == 0x07:
            nb_at = 11 + 2 * cmd[10] if len(cmd) > 10 else len(cmd)
            if rsp[10] == 0 and nb_at < len(cmd) and len(rsp) != 13 + 16 * cmd[nb_at]:
                R.count("t3t_c08_dlg_read_other_length")


def replay_c08(case, R):
    c08_eval(case, R)


def c08_tamper(case):
    v, pos = case["variant"], case["pos"]

    def fix(b):
        b = bytearray(b)
        if b:
            b[0] = len(b) & 0xFF
        return bytes(b)

    def fn(n, cmd, g):
        if n != pos:
            return g
        if v == "mute":
            return None
        if v == "empty":
            return b""
        if v == "len1":
            return b"\x01"
        if v == "random":
            return bytes(case["bytes"])
        if g is None:
            return None
        g = bytes(g)
        if v.startswith("trunc"):
            k = int(v[5:7])
            out = bytearray(fix(g[:k]))
            if v == "trunc11_sf" and len(out) == 11:
                out[10] = 0x01
            return bytes(out)
        if v == "badlen+":
            return bytes([(g[0] + 1) & 0xFF]) + g[1:]
        if v == "badlen-":
            return bytes([(g[0] - 1) & 0xFF]) + g[1:]
        if v == "badcode":
            return g[0:1] + bytes([g[1] ^ 0x02]) + g[2:]
        if v == "badidm":
            return g[0:5] + bytes([g[5] ^ 0x10]) + g[6:]
        if v == "sf1":
            return fix(g[:10] + b"\x01\xA8")
        if v == "sf_ff":
            return fix(g[:10] + b"\xFF\xA2")
        if v == "fewer":
            if len(g) >= 13 + 16:
                return fix(g[:12] + bytes([g[12] - 1]) + g[13:-16])
            return fix(g[:-1])
        if v == "fewer_keepcount":
            return fix(g[:-16]) if len(g) >= 13 + 16 else fix(g[:-2])
        if v == "more":
            if len(g) + 16 <= 255:
                return fix(g[:12] + bytes([(g[12] + 1) & 0xFF if len(g) > 12 else 1]) + g[13:] + bytes(16))
            return g
        if v == "count0":
            return (g[:12] + b"\x00" + g[13:]) if len(g) > 12 else g
        if v == "flipdata":
            if len(g) > 13:
                bit = case["bit"] % (8 * (len(g) - 13))
                out = bytearray(g)
                out[13 + bit // 8] ^= 1 << (bit % 8)
                return bytes(out)
            return g
        raise AssertionError(v)
    return fn


# ---- (trunc) every response of the read dialogue cut to every length -------------------------------------------------
TRUNC_LAYOUTS_QUICK = [
    {"kind": "generic", "nbr": 2, "nbw": 1, "nmaxb": 3, "extra": 1, "old_len": 40, "sensf_rd": False},
    {"kind": "generic", "nbr": 1, "nbw": 1, "nmaxb": 2, "extra": 0, "old_len": 17, "sensf_rd": True},
    {"kind": "standard", "nbr": 3, "nbw": 2, "nmaxb": 4, "extra": 1, "old_len": 64, "ic": 0x01, "other_systems": [0x0003],
     "ndef_first": False, "sensf_rd": True},
    {"kind": "lite", "nbr": 4, "nbw": 1, "nmaxb": 5, "old_len": 70, "sensf_rd": True},
    {"kind": "lites", "nbr": 2, "nbw": 1, "nmaxb": 3, "old_len": 33, "auth": True, "password": PASSWORD, "sensf_rd": True},
]


def trunc_tamper(case):
    pos, L, sf = case["pos"], case["len"], case["sf"]

    def fn(n, cmd, g):
        if n != pos or g is None:
            return g
        out = bytearray(bytes(g)[:L])
        if out:
            out[0] = len(out)          # well-framed: the LEN octet matches; response code and IDm are the genuine ones
        if sf and len(out) > 10:
            out[10] = 0x01             # status flag 1 says error (flag 2: block list error) in front of the genuine data
            if len(out) > 11:
                out[11] = 0xA8
        return bytes(out)
    return fn


def c08_run_trunc(desc, R, rng):
    full = desc.get("full", False)
    lays = [dict(x) for x in TRUNC_LAYOUTS_QUICK]
    if full:
        sub = desc.get("sub", 0)
        for nbr in range(1 + sub, 16, 3):
            lays.append({"kind": "generic", "nbr": nbr, "nbw": 1, "nmaxb": nbr + 1, "extra": 1, "old_len": 16 * nbr + 5,
                         "sensf_rd": nbr % 2 == 0})
            lays.append({"kind": "standard", "nbr": nbr, "nbw": 1, "nmaxb": nbr, "extra": 0, "old_len": 16 * nbr,
                         "ic": rng.choice([0x01, 0x0D, 0x06]), "sensf_rd": True})
        for nbr in (1, 2, 3, 4):
            for kind in ("lite", "lites"):
                lays.append({"kind": kind, "nbr": nbr, "nbw": 1, "nmaxb": 5, "old_len": 65, "sensf_rd": bool(sub % 2),
                             "auth": (nbr + sub) % 2 == 0, "password": PASSWORD})
    for lay in lays:
        lay["old_salt"] = rng.randrange(1, 200)
        info = {}
        ncmd = c08_eval({"family": FAM, "mode": "ref", "layout": lay}, R, info=info)
        wire = info.get("wire", [])
        first_pass = info.get("ncmd_first", ncmd)
        R.count("t3t_c08_trunc_layouts")
        for p, (cmd, rsp) in enumerate(wire):
            if not isinstance(rsp, bytes) or len(cmd) < 2:
                continue
            code = cmd[1]
            lens = range(0, len(rsp) + 1)
            if lay.get("auth") and not full:
                # MAC protected reads cost ~50 ms each (pure Python DES on both sides): the quick tier cuts at the frame
                # header lengths, around the block boundaries and around the MAC block at three positions (attribute
                # read, first data read, first read of has_changed); every length at every position: thorough tier
                if p not in (0, 1, first_pass):
                    continue
                lens = sorted(x for x in set(list(range(0, 14)) + [28, 29, 30, len(rsp) - 17, len(rsp) - 16, len(rsp) - 15,
                                                                  len(rsp) - 1, len(rsp)]) if 0 <= x <= len(rsp))
            for L in lens:
                for sf in ((0, 1) if code != 0x00 and L >= 11 else (0,)):
                    if R.counters.get("t3t_c08_nonterm", 0) >= 20:
                        return
                    c08_eval({"family": FAM, "mode": "trunc", "layout": lay, "pos": p, "len": L, "sf": sf}, R)
                    R.count("t3t_c08_trunc_cases")
                    what = "poll" if code == 0x00 else "read" if code == 0x06 else "other"
                    R.count("t3t_c08_trunc_%s_cases" % what)
                    if L in (0, 1, 2, 9, 10, 11, 12, 13):
                        R.count("t3t_c08_trunc_%s_len%d_sf%d" % (what, L, sf))
                    if L == len(rsp):
                        R.count("t3t_c08_trunc_%s_full_sf%d" % (what, sf))
                    if p >= first_pass:
                        R.count("t3t_c08_trunc_in_has_changed")
                    if code == 0x06 and lay.get("auth") and len(rsp) >= 13 + 32:
                        R.count("t3t_c08_trunc_mac_read")


def c08_eval(case, R, count_only=False, info=None):
    lay, mode = case["layout"], case["mode"]
    model = c08_model(case)
    front = model
    if mode == "adv":
        front = Tamper(model, c08_tamper(case), enabled=False)
    elif mode == "dlg":
        front = Tamper(model, dlg_tamper(case), enabled=False, sense_fn=dlg_sense(case))
    elif mode == "trunc":
        front = Tamper(model, trunc_tamper(case), enabled=False)
    key = [mode, lkey(lay), case.get("attr_class"), case.get("attr"), case.get("j"), case.get("pos"),
           case.get("variant"), case.get("bytes"), case.get("bit"), case.get("len"), case.get("sf")]
    if mode == "dlg":
        key += [lay.get("idm"), case["disc"].get("rd"), case["disc"].get("rdbytes"), case.get("cmd"), case.get("scope")]
    stage = "activate"
    nd = None
    res = {}
    box = {"base": None, "j": None}

    def viol(sig, what):
        R.violation("t3t/" + sig, what + " [mode %s, layout %r, %s]" % (mode, lkey(lay), {
            k: case.get(k) for k in ("attr_class", "j", "pos", "variant", "disc", "cmd", "scope", "len", "sf") if k in case}),
            case)

    def script(n, data):
        # n = index of the command since the device was created
        if n >= COMMAND_BOUND:
            raise T3Bound()
        if box["j"] is not None and n - box["base"] >= box["j"]:
            return ("cmd_lost", nfc.clf.TimeoutError)
        return None

    steps = StepBudget.get()
    steps.count = 0
    try:
        with fixed_challenge():
            clf, dev, tag = tagdevice.activate(front, command_bound=COMMAND_BOUND + 50, script=script)
            if tag is None:
                R.count("t3t_c08_activate_none")
                R.case(key)
                R.count("t3t_c08_evals")
                return 0
            R.seen("t3t_c08_classes", type(tag).__name__)
            if lay.get("auth"):
                st, v = attempt(lambda: tag.authenticate(lay["password"]))
                if st != "ok" or v is not True:
                    # set-up of the case, not the judged evaluation (authentication is C20's subject)
                    R.inconc("t3t C08: set-up authentication against the fault-free model failed (%s)" % (
                        exc_sig(v) if st == "exc" else v,))
                    R.case(key, nontrivial=False)
                    return 0
        base = dev.n_commands
        box["base"] = base
        if mode in ("adv", "dlg", "trunc"):
            front.enabled = True
        if info is not None:
            info["cls"] = type(tag).__name__
        if mode == "stop":
            box["j"] = case["j"]
        r0 = len(model.read_log)
        stage = "ndef"
        nd = tag.ndef
        if info is not None:
            info["ncmd_first"] = dev.n_commands - base
        if nd is not None:
            stage = "length"
            res["length"] = nd.length
            stage = "capacity"
            res["capacity"] = nd.capacity
            stage = "octets"
            res["octets"] = nd.octets
            res["readable"] = nd.is_readable
            res["blocks"] = sorted(set(b for lst in model.read_log[r0:] for b in lst))
            if info is not None:
                info["ncmd_first"] = dev.n_commands - base
            stage = "has_changed"
            res["changed"] = nd.has_changed
            stage = "ndef2"
            nd2 = tag.ndef
            if nd2 is not None:
                stage = "octets2"
                res["octets2"] = nd2.octets
                res["length2"], res["capacity2"] = nd2.length, nd2.capacity
        ncmd = dev.n_commands - base
    except (T3Bound, tagdevice.SimTagDevice.Bound):
        R.case(key)
        R.count("t3t_c08_evals")
        R.count("t3t_c08_nonterm")
        viol("nonterm/" + stage, "more than %d commands during %s" % (COMMAND_BOUND, stage))
        return 0
    except StepBudgetExceeded:
        R.case(key)
        R.count("t3t_c08_evals")
        R.count("t3t_c08_nonterm")
        viol("nonterm/step-budget/" + stage, "more than %d source lines of nfc/tag/tt3*.py executed during %s without "
             "finishing" % (C08_STEPS, stage))
        return 0
    except Exception as e:
        R.case(key)
        R.count("t3t_c08_evals")
        if case.get("observe_only") and not C08_ODD_SENSF_RES_IS_VIOLATION:
            # input class outside the quantifier of the property: recorded, not judged
            R.count("t3t_c08_obs_odd_sensf_res_raised")
            R.seen("t3t_c08_obs_odd_sensf_res", "%d bytes: escape/%s/%s" % (17 + len(case["disc"]["rdbytes"]), stage, esc_sig(e)))
            return 0
        R.count("t3t_c08_raised")
        viol("escape/%s/%s" % (stage, esc_sig(e)), "%s raised %s: %s" % (stage, type(e).__name__, str(e)[:120]))
        return 0
    if steps.active:
        R.count("t3t_c08_step_budget_armed")
        R.max("t3t_c08_source_lines_per_eval", steps.count)
    if info is not None:
        info["wire"] = [(e[1], e[2]) for e in dev.log[base:]]
    if count_only:
        return ncmd
    if mode == "dlg":
        c08_dlg_observe(case, dev, base, R)
        if case.get("observe_only"):
            R.count("t3t_c08_obs_odd_sensf_res_ok")
        if info is not None:
            info["codes"] = [e[1][1] for e in dev.log[base:] if e[1] and len(e[1]) > 1]
            info["ndef"] = nd is not None
    R.case(key)
    R.count("t3t_c08_evals")
    R.max("t3t_c08_commands_per_eval", ncmd)
    R.seen("t3t_c08_attr_classes", str(case.get("attr_class")))
    if nd is None:
        R.count("t3t_c08_ndef_none")
        return ncmd
    R.count("t3t_c08_ndef_object")
    for suffix in ("", "2"):
        if "length" + suffix in res and res["length" + suffix] > res["capacity" + suffix]:
            viol("c08/length>capacity", "NDEF object with length %d > capacity %d" % (res["length" + suffix], res["capacity" + suffix]))
            break
    if mode in ("img", "stop", "ref", "dlg", "trunc"):
        # (dlg, trunc: the response variants never alter block data, they only cut it short or append to it, so every
        # delivered data byte is genuine and an NDEF object still has to show the content of the data area)
        # untampered bytes: the octets must come from the data area the attribute block declares (blocks 1..Nmaxb)
        b0 = model.get_block(0)
        a = t3_attr.decode(b0) if b0 else None
        R.count("t3t_c08_octets_checked")
        if a is None or not a["checksum_ok"] or a["ver"] >> 4 != t3_attr.SUPPORTED_MAJOR:
            # no (valid, supported) attribute block = the tag declares no NDEF data area the octets could lie in
            viol("c08/ndef-without-valid-attribute-block",
                 "NDEF object although the attribute block is %s" % (
                     "missing" if a is None else "checksum %s, version %02Xh" % (a["checksum_ok"], a["ver"])))
        elif a is not None:
            # the data area the tag declares: Nmaxb blocks of 16 bytes
            R.count("t3t_c08_capacity_checked")
            if a["nmaxb"] * 16 >= res["length"] and res["capacity"] == a["nmaxb"] * 16:
                R.count("t3t_c08_capacity_equals_data_area")
            for suffix in ("", "2"):
                if "capacity" + suffix in res and res["capacity" + suffix] > t3_attr.ref_capacity(a):
                    viol("c08/capacity>data-area", "NDEF object with capacity %d, the attribute block declares Nmaxb = %d "
                         "(%d bytes)" % (res["capacity" + suffix], a["nmaxb"], t3_attr.ref_capacity(a)))
                    break
            area = b"".join(model.get_block(n) or b"" for n in range(1, a["nmaxb"] + 1) if n in model.blocks)
            used = [b for b in res["blocks"] if b not in (0, 0x81, 0x88)]
            outside = [b for b in used if not 1 <= b <= a["nmaxb"]]
            if outside and res["length"] > 0:
                viol("c08/octets-outside-data-area",
                     "octets were read from block(s) %s beyond Nmaxb = %d" % (outside[:5], a["nmaxb"]))
            elif res["octets"] != area[:res["length"]] or len(res["octets"]) != res["length"]:
                viol("c08/octets-not-data-area-content", "octets (%d) differ from the first bytes of the data area" % res["length"])
    return ncmd


# =====================================================================================================
# C16 - retries and error reporting
# =====================================================================================================
RULE_C16 = ("cells = tag personality {generic, Standard, Lite, Lite-S (authenticated)} x operation {polling, "
            "read/write_without_encryption, read_from/write_to_ndef_service, ndef read, ndef.octets=, has_changed, "
            "is_present, format, protect, authenticate, dump, read_with_mac, write_with_mac, Standard commands} x "
            "every command position of the fault-free run x {TimeoutError, TransmissionError, ProtocolError} x burst "
            "1..4 x {command lost, response lost}. within budget (burst <= 2): result, final tag memory and the list of "
            "answered commands equal the fault-free run; beyond: Type3TagCommandError with errno of the kind, or "
            "the result of the fault-free run / documented None/False; any other exception is an escape; at every cell "
            "an operation that returns normally returns the fault-free result or its documented failure value (dump: "
            "stops at the failing block) and, with the fault-free result, leaves the fault-free memory (format, which "
            "probes the memory 'until an error': a fresh reader finds the same message and access flags).  Added: burst 99 "
            "(the error never goes away for the rest of the operation; no command may be attempted 50 times in a row); "
            "two bursts in one operation at two different command positions, each within the budget: judged as within "
            "budget (same result, memory, answered sequence); personalities FeliCa Mobile and FeliCa Plug (reader "
            "classes by IC code over the Standard / generic tag model; quick tier: NDEF, raw read / write, presence, "
            "format, dump with bursts 2 and 3); 'a command that was answered is not sent again' also for repetitions "
            "that are not adjacent: Write commands (retries of an unanswered attempt collapsed) whose every block "
            "carries the data of the last ANSWERED Write of that block, counted differentially against the fault-free "
            "run, on success and failure paths; sessions of three operations on ONE tag object, the first one failing "
            "beyond the budget at every command position, the next two on a healthy link: nothing but TagCommandError "
            "escapes, a step that starts from the fault-free memory and returns normally returns the fault-free result "
            "(or the documented failure value) and leaves the fault-free memory, no step re-sends answered Writes.  "
            "Mixed-kind bursts are not generated: neither the property nor the docstring of send_cmd_recv_rsp says "
            "which of several error kinds the errno has to name")
REQUIRED_C16 = ["t3t_c16_cells", "t3t_c16_within_ok", "t3t_c16_beyond_tagerror", "t3t_c16_sequences_compared", "t3t_c16_repeat_checked",
                "t3t_c16_ops_covered", "t3t_c16_normal_returns_judged", "t3t_c16_nonidempotent_macwrite",
                "t3t_c16_format_result_verified_by_fresh_reader", "t3t_c16_resend_checked",
                "t3t_c16_resend_checked_on_failure_path", "t3t_c16_persistent99_cells", "t3t_c16_persistent99_tagerror",
                "t3t_c16_double_burst_cells", "t3t_c16_double_burst_both_hit", "t3t_c16_double_burst_ok",
                "t3t_c16_session_cells", "t3t_c16_session_steps_judged", "t3t_c16_session_step_same_start_memory",
                "t3t_c16_session_step_other_start_memory", "t3t_c16_session_step_same_result_same_memory",
                "t3t_c16_session_op1_failed"] + [
    "t3t_c16_pers_" + _k for _k in ("generic", "standard", "lite", "lites", "mobile", "plug")] + [
    "t3t_c16_class_" + _k for _k in ("Type3Tag", "FelicaStandard", "FelicaMobile", "FelicaLite", "FelicaLiteS", "FelicaPlug")]

KINDS = {"timeout": (nfc.clf.TimeoutError, nfc.tag.TIMEOUT_ERROR),
         "transmission": (nfc.clf.TransmissionError, nfc.tag.RECEIVE_ERROR),
         "protocol": (nfc.clf.ProtocolError, nfc.tag.PROTOCOL_ERROR)}
BUDGET = 2      # three attempts per command


def norm(x):
    if isinstance(x, (bytes, bytearray)):
        return bytes(x).hex()
    if isinstance(x, (list, tuple)):
        return [norm(i) for i in x]
    if isinstance(x, dict):
        return {str(k): norm(v) for k, v in x.items()}
    return x


def _sc(attr):
    return nfc.tag.tt3.ServiceCode(0, attr)


def _bc(*n):
    return [nfc.tag.tt3.BlockCode(i) for i in n]


def _ndef_view(tag):
    nd = tag.ndef
    return None if nd is None else [nd.octets, nd.capacity, nd.is_readable, nd.is_writeable]


# name -> (kinds, setup(tag) -> ctx, run(tag, ctx) -> result, documented fallbacks beyond budget)
def _ops():
    D = mk_msg(91, 16)
    ops = {}

    def add(name, kinds, run, setup=None, fallbacks=(), free=False):
        ops[name] = {"kinds": kinds, "run": run, "setup": setup or (lambda tag: None), "fallbacks": list(fallbacks),
                     "free": free}
    ALL = ("generic", "standard", "lite", "lites")
    add("polling", ALL, lambda t, c: t.polling(0x12FC))
    add("polling_rc1", ALL, lambda t, c: t.polling(0xFFFF, 1))
    add("read_without_encryption", ALL, lambda t, c: t.read_without_encryption([_sc(0x0B)], _bc(0, 1)))
    add("write_without_encryption", ALL, lambda t, c: t.write_without_encryption([_sc(0x09)], _bc(2), D))
    add("read_from_ndef_service", ALL, lambda t, c: t.read_from_ndef_service(0, 1))
    add("write_to_ndef_service", ALL, lambda t, c: t.write_to_ndef_service(D, 2))
    add("ndef_read", ALL, lambda t, c: _ndef_view(t), fallbacks=[None])
    add("ndef_write", ALL, lambda t, c: setattr(c, "octets", mk_msg(92, 40)), setup=lambda t: t.ndef)
    add("ndef_write_empty", ALL, lambda t, c: setattr(c, "octets", b""), setup=lambda t: t.ndef)
    add("has_changed", ALL, lambda t, c: c.has_changed, setup=lambda t: t.ndef, fallbacks=[True])
    add("is_present", ALL, lambda t, c: t.is_present, fallbacks=[False])
    add("format", ALL, lambda t, c: t.format(version=0x10, wipe=0x5A), fallbacks=[False], free=True)
    add("format_nowipe", ("generic", "lite"), lambda t, c: t.format(version=0x11), fallbacks=[False], free=True)
    add("format_default", ALL, lambda t, c: t.format(), fallbacks=[False], free=True)
    add("dump", ALL, lambda t, c: t.dump(), free=True)
    add("protect_lite", ("lite",), lambda t, c: t.protect(PASSWORD))
    add("protect_str", ("lites",), lambda t, c: t.protect(PASSWORD.decode()))
    add("protect_bytes", ("lites",), lambda t, c: t.protect(PASSWORD))
    add("protect_readonly", ("lite", "lites"), lambda t, c: t.protect())
    add("protect_generic", ("generic", "standard"), lambda t, c: t.protect(PASSWORD))
    add("authenticate", ("lite", "lites"), lambda t, c: t.authenticate(PASSWORD))
    add("authenticate_wrong", ("lite", "lites"), lambda t, c: t.authenticate(b"another-password"))
    add("authenticate_generic", ("generic",), lambda t, c: t.authenticate(PASSWORD))
    add("read_with_mac", ("lite", "lites"), lambda t, c: t.read_with_mac(1, 2))
    add("write_with_mac", ("lites",), lambda t, c: t.write_with_mac(D, 3))
    add("request_service", ("standard",), lambda t, c: t.request_service([_sc(0x09), _sc(0x0B), nfc.tag.tt3.ServiceCode(5, 9)]))
    add("request_response", ("standard",), lambda t, c: t.request_response())
    add("search_service_code", ("standard",), lambda t, c: [t.search_service_code(0), t.search_service_code(1), t.search_service_code(9)])
    add("request_system_code", ("standard",), lambda t, c: t.request_system_code())
    return ops


OPS = _ops()

C16_LAYOUTS = {
    "generic": {"kind": "generic", "nbr": 3, "nbw": 2, "nmaxb": 5, "extra": 1, "old_len": 37, "old_salt": 5},
    "standard": {"kind": "standard", "nbr": 4, "nbw": 3, "nmaxb": 6, "extra": 1, "old_len": 50, "old_salt": 6, "ic": 0x0D,
                 "other_systems": [0x0003], "ndef_first": True},
    "lite": {"kind": "lite", "nbr": 4, "nbw": 1, "nmaxb": 13, "old_len": 40, "old_salt": 7, "password": PASSWORD},
    "lites": {"kind": "lites", "nbr": 4, "nbw": 1, "nmaxb": 13, "old_len": 40, "old_salt": 8, "password": PASSWORD,
              "auth": True},
}
C16_LAYOUTS["mobile"] = dict(C16_LAYOUTS["standard"], ic=0x14)          # reader class FelicaMobile
C16_LAYOUTS["plug"] = dict(C16_LAYOUTS["generic"], ic=0xE0)             # reader class FelicaPlug
KIND_BASE = {"mobile": "standard", "plug": "generic"}
PERS_OPS = ("ndef_read", "ndef_write", "is_present", "format_default", "dump", "read_without_encryption",
            "write_without_encryption", "polling", "request_response")
PERS_CLASS = {"generic": "Type3Tag", "standard": "FelicaStandard", "lite": "FelicaLite", "lites": "FelicaLiteS",
              "mobile": "FelicaMobile", "plug": "FelicaPlug"}
# protect / unauthenticated authenticate start from a factory key tag
C16_LAYOUT_OVERRIDE = {
    ("lites", "protect_str"): {"password": b"", "auth": False},
    ("lites", "protect_bytes"): {"password": b"", "auth": False},
    ("lites", "protect_readonly"): {"auth": False},
    ("lites", "authenticate"): {"auth": False},
    ("lites", "authenticate_wrong"): {"auth": False},
    ("lite", "protect_lite"): {"password": b""},
    ("lite", "read_with_mac"): {"auth": True},
}


# further layouts per personality (thorough tier; variant 1 also for the NDEF operations of the quick tier)
C16_VARIANTS = {
    1: {"generic": {"nbr": 1, "nbw": 1, "nmaxb": 9, "old_len": 100}, "standard": {"nbr": 1, "nbw": 1, "nmaxb": 7, "old_len": 112,
                                                                                 "ndef_first": False, "sensf_rd": False},
        "lite": {"nbr": 1, "nmaxb": 6, "old_len": 90, "sensf_rd": False, "ndef_first": False},
        "lites": {"nbr": 2, "nmaxb": 5, "old_len": 80, "ndef_first": False}},
    2: {"generic": {"nbr": 15, "nbw": 13, "nmaxb": 30, "old_len": 0, "extra": 0}, "standard": {"nbr": 12, "nbw": 8, "nmaxb": 20,
                                                                                              "old_len": 320, "other_systems": []},
        "lite": {"nbr": 4, "nmaxb": 3, "old_len": 0}, "lites": {"nbr": 3, "nmaxb": 13, "old_len": 208}},
}
NDEF_OPS = ("ndef_read", "ndef_write", "ndef_write_empty", "has_changed", "dump", "is_present")


def c16_cells(tier):
    cells = []
    for kind in ("mobile", "plug"):
        for name, op in sorted(OPS.items()):
            if KIND_BASE[kind] in op["kinds"] and (tier != "quick" or name in PERS_OPS):
                cells.append((kind, name, 0))
    for kind in ("lites", "lite", "standard", "generic"):        # costly (DES) personalities dealt out evenly
        for name, op in sorted(OPS.items()):
            if kind in op["kinds"]:
                cells.append((kind, name, 0))
                if tier != "quick":
                    cells.append((kind, name, 1))
                    cells.append((kind, name, 2))
                elif name in NDEF_OPS and kind in ("generic", "standard"):
                    cells.append((kind, name, 1))
                elif name == "format_default" and kind == "generic":
                    cells.append((kind, name, 1))       # tag that reads / writes one block per command (Nbr = Nbw = 1)
    return cells


def plan_c16(tier):
    cells = c16_cells(tier)
    sessions = [(k, name) for k in ("generic", "standard", "lite", "lites", "mobile", "plug") for name in sorted(SESSIONS)
                if k in SESSIONS[name]["kinds"]]
    if tier == "quick":
        nsh = 5
        return [{"cells": cells[i::nsh], "sessions": sessions[i::nsh], "full": False} for i in range(nsh)]
    nsh = 12
    return [{"cells": cells[i::nsh], "sessions": sessions[i::nsh], "full": True, "timeout": 1500} for i in range(nsh)]


def c16_layout(kind, opname, variant=0):
    lay = dict(C16_LAYOUTS[kind])
    if variant:
        lay.update(C16_VARIANTS[variant][KIND_BASE.get(kind, kind)])
    lay.update(C16_LAYOUT_OVERRIDE.get((kind, opname), {}))
    return lay


class SetupError(Exception):
    pass


def _parse_write(cmd):
    """Write Without Encryption command -> [(block number, 16 byte data)] | None"""
    cmd = bytes(cmd)
    if len(cmd) < 13 or cmd[1] != 0x08:
        return None
    ns = cmd[10]
    p = 11 + 2 * ns
    if p >= len(cmd):
        return None
    nb = cmd[p]
    p += 1
    numbers = []
    for _i in range(nb):
        if p >= len(cmd):
            return None
        if cmd[p] & 0x80:
            numbers.append((cmd[p] & 0x0F, cmd[p + 1] if p + 1 < len(cmd) else None))
            p += 2
        else:
            numbers.append((cmd[p] & 0x0F, cmd[p + 1] | cmd[p + 2] << 8 if p + 2 < len(cmd) else None))
            p += 3
    data = cmd[p:]
    if len(data) != 16 * nb:
        return None
    return [(numbers[i], data[16 * i:16 * i + 16]) for i in range(nb)]


def c16_resent(oplog):
    """number of Write commands that repeat answered Writes: retries of an unanswered attempt (the identical command
    directly behind it) are collapsed into one logical command; a logical Write counts when every block it carries has
    exactly the data of the last ANSWERED Write of that block.  Judged differentially against the fault-free run
    (format() re-writes block 0 with its own content by design)."""
    last = {}
    count = 0
    i = 0
    while i < len(oplog):
        cmd = oplog[i][1]
        j = i
        while j + 1 < len(oplog) and not isinstance(oplog[j][2], bytes) and oplog[j + 1][1] == cmd:
            j += 1
        w = _parse_write(cmd) if cmd and len(cmd) > 1 and cmd[1] == 0x08 else None
        if w:
            if all(last.get(k) == d for k, d in w):
                count += 1
            rsp = oplog[j][2]
            if isinstance(rsp, bytes) and len(rsp) >= 12 and rsp[10] == 0:
                for k, d in w:
                    last[k] = d
        i = j + 1
    return count


def _longest_unanswered_run(oplog):
    best = run = 0
    prev = None
    for _n, cmd, rsp in oplog:
        if isinstance(rsp, bytes):
            run, prev = 0, None
            continue
        run = run + 1 if cmd == prev else 1
        prev = cmd
        best = max(best, run)
    return best


def _c16_script(dev, logbase, fault, state):
    def script(n, data):
        # position = number of commands of the operation that were answered so far
        if fault is None:
            return None
        answered = sum(1 for e in dev.log[logbase:] if isinstance(e[2], bytes))
        if answered == fault[0] and state["left"] > 0:
            state["left"] -= 1
            return (fault[3], KINDS[fault[1]][0])
        if len(fault) > 4 and answered == fault[4] and state["left2"] > 0:
            state["left2"] -= 1
            return (fault[3], KINDS[fault[1]][0])
        return None
    return script


def c16_execute(kind, opname, fault, variant=0):
    """one execution of the operation; fault = None | (pos, kindname, burst, flavour[, pos2, burst2])
    -> dict(result | exc, image, answered, ncmd)"""
    lay = c16_layout(kind, opname, variant)
    op = OPS[opname]
    model = build(lay)
    with fixed_challenge(), quiet():
        try:
            clf, dev, tag = open_tag(model, lay)
            ctx = op["setup"](tag)
        except Exception as e:
            raise SetupError("%s/%s: %s" % (kind, opname, exc_sig(e)))
        base = dev.n_commands
        logbase = len(dev.log)
        state = {"done": 0, "left": fault[2] if fault else 0, "left2": fault[5] if fault and len(fault) > 4 else 0}
        dev.script = _c16_script(dev, logbase, fault, state)
        out = {}
        try:
            out["result"] = norm(op["run"](tag, ctx))
        except Exception as e:
            out["exc"] = e
        dev.script = None
    out["image"] = model.image()
    out["model"] = model
    out["layout"] = lay
    out["cls"] = type(tag).__name__
    out["answered"] = [e[1] for e in dev.log[logbase:] if isinstance(e[2], bytes)]
    # an answered write command (response delivered to the reader) directly followed by the identical command; reads
    # may legitimately be repeated back to back (protect() reads block 0 twice), they are covered by the comparison
    # of the answered-command list with the fault-free run
    oplog = dev.log[logbase:]
    out["repeated"] = [i for i in range(len(oplog) - 1)
                       if isinstance(oplog[i][2], bytes) and oplog[i + 1][1] == oplog[i][1] and oplog[i][1][1] == 0x08]
    out["resent"] = c16_resent(oplog)
    out["unanswered_run"] = _longest_unanswered_run(oplog)
    out["attempts"] = dev.n_commands - base
    inj = [(fault[2] - state["left"])] if fault else [0]
    if fault and len(fault) > 4:
        inj.append(fault[5] - state["left2"])
    out["injected"] = sum(inj)
    out["injected_by_burst"] = inj
    out["beyond"] = any(x > BUDGET for x in inj)
    # a command that the tag executed although its response was lost and that cannot be executed a second time
    out["lost_executed_nonidempotent"] = any(
        isinstance(e[2], str) and e[2].startswith("rsp_lost") and _is_mac_write(e[1]) for e in dev.log[logbase:])
    return out


def run_c16(desc, R, rng):
    guard(R)
    for kind, opname, variant in desc["cells"]:
        try:
            c16_op(kind, opname, R, rng, full=desc.get("full", False), variant=variant)
        except SetupError as e:
            R.inconc("t3t C16: setup of a cell failed (%s)" % e)
    for kind, name in desc.get("sessions", []):
        try:
            c16_sessions(kind, name, R, rng, full=desc.get("full", False))
        except SetupError as e:
            R.inconc("t3t C16: setup of a session failed (%s)" % e)


# ---- sessions: three operations on ONE tag object, the first one fails beyond the retry budget -------------------------
SESSIONS = {
    "rewrite": {"kinds": ("generic", "standard", "lite", "lites", "mobile", "plug"), "ops": ["ndef_write", "ndef_write", "ndef_read"]},
    "read-write": {"kinds": ("generic", "standard", "lite", "lites"), "ops": ["ndef_read", "ndef_write_empty", "ndef_read"]},
    "raw": {"kinds": ("generic", "standard", "lite", "plug"), "ops": ["write_to_ndef_service", "read_from_ndef_service", "is_present"]},
    "format-write": {"kinds": ("generic", "lite", "mobile"), "ops": ["format", "ndef_write", "has_changed"]},
    "mac": {"kinds": ("lites",), "ops": ["write_with_mac", "write_with_mac", "read_with_mac"]},
}


# After a failed `octets =` (WriteF = 0Fh on the tag) and a successful second assignment on the same NDEF object,
# ndef.is_readable stays False (Type3Tag.NDEF._write_ndef_data re-reads the attribute block, which sets _readable from
# the WriteF it finds, and never updates it after the final attribute write).  A real defect of nfcpy, but no clause of
# C16 (nor C01: a fresh activation is fine) speaks about the access flags of an object: observed, see
# findings-proposed/T3T-stale-is-readable.md
C16_SESSION_STALE_FLAGS_IS_VIOLATION = False


def c16_session_execute(kind, name, fault):
    """-> list of steps: dict(op, skipped | result | exc, before, after, resent, oplog); fault hits step 0 only"""
    ops = SESSIONS[name]["ops"]
    lay = c16_layout(kind, ops[0], 0)
    model = build(lay)
    steps = []
    with fixed_challenge(), quiet():
        try:
            clf, dev, tag = open_tag(model, lay)
        except Exception as e:
            raise SetupError("session %s/%s: %s" % (kind, name, exc_sig(e)))
        for i, opname in enumerate(ops):
            op = OPS[opname]
            step = {"op": opname, "before": model.image()}
            steps.append(step)
            st, ctx = attempt(lambda: op["setup"](tag))
            if st != "ok":
                step["exc"], step["after"], step["resent"], step["in_setup"] = ctx, model.image(), 0, True
                continue
            if ctx is None and opname in ("ndef_write", "ndef_write_empty", "has_changed"):
                step["skipped"], step["after"], step["resent"] = True, model.image(), 0      # tag.ndef is None: no object
                continue
            logbase = len(dev.log)
            state = {"left": fault[2] if fault and i == 0 else 0, "left2": 0}
            dev.script = _c16_script(dev, logbase, fault if i == 0 else None, state)
            try:
                step["result"] = norm(op["run"](tag, ctx))
            except Exception as e:      # noqa
                step["exc"] = e
            dev.script = None
            step["after"] = model.image()
            step["resent"] = c16_resent(dev.log[logbase:])
            step["answered"] = sum(1 for e in dev.log[logbase:] if isinstance(e[2], bytes))
            if i == 0:
                step["injected"] = (fault[2] - state["left"]) if fault else 0
    return steps


def c16_sessions(kind, name, R, rng, full):
    ref = c16_session_execute(kind, name, None)
    if any("exc" in st or st.get("skipped") for st in ref):
        R.inconc("t3t C16: the fault-free session %s/%s does not run through" % (kind, name))
        return
    n = ref[0]["answered"]
    R.seen("t3t_c16_sessions_seen", "%s/%s" % (kind, name))
    for pos in range(n):
        plan = [("timeout", 3, "cmd_lost"), ("transmission", 99, "rsp_lost"), ("protocol", 3, "rsp_lost")]
        if full:
            plan = [(k, b, f) for k in sorted(KINDS) for b in (3, 99) for f in ("cmd_lost", "rsp_lost")]
        for kname, burst, flavour in plan:
            c16_session_judge(kind, name, ref, (pos, kname, burst, flavour), R)


def c16_session_judge(kind, name, ref, fault, R):
    got = c16_session_execute(kind, name, fault)
    case = {"family": FAM, "session": name, "kind": kind, "fault": list(fault)}
    R.case([kind, "session", name, list(fault)], nontrivial=got[0].get("injected", 0) > 0)
    R.count("t3t_c16_session_cells")
    if "exc" in got[0]:
        R.count("t3t_c16_session_op1_failed")
    sigbase = "t3t/c16/session/%s/" % name
    for i in range(1, len(got)):
        g, r = got[i], ref[i]
        what = "session %s on %s, %s x%d (%s) at command %d of %s; then step %d %s on a healthy link: " % (
            name, kind, fault[1], fault[2], fault[3], fault[0], got[0]["op"], i, g["op"])
        if g.get("skipped"):
            R.count("t3t_c16_session_step_without_ndef_object")
            continue
        R.count("t3t_c16_session_steps_judged")
        exc = g.get("exc")
        if exc is not None and not isinstance(exc, nfc.tag.TagCommandError):
            R.violation(sigbase + "step%d-%s/escape/%s" % (i, g["op"], exc_sig(exc)),
                        what + "raised %s: %s" % (type(exc).__name__, str(exc)[:100]), case)
            continue
        if g["resent"] > r["resent"]:
            R.violation(sigbase + "step%d-%s/answered-command-resent" % (i, g["op"]),
                        what + "%d Write command(s) repeat the last answered Write of their blocks (fault-free session: %d)" % (
                            g["resent"], r["resent"]), case)
            continue
        if g["before"] != r["before"]:
            R.count("t3t_c16_session_step_other_start_memory")
            continue
        R.count("t3t_c16_session_step_same_start_memory")
        if exc is not None:
            R.count("t3t_c16_session_step_tagcommanderror_on_healthy_link")       # observed, not judged
            R.seen("t3t_c16_session_healthy_link_errors", "%s/%s/step%d-%s/errno%s" % (kind, name, i, g["op"], exc.errno))
            continue
        op = OPS[g["op"]]
        if g["result"] != r["result"]:
            if g["result"] in op["fallbacks"] or (g["op"] == "dump" and c16_dump_reports_error(g["result"], r["result"])):
                R.count("t3t_c16_session_step_reports_failure")
            elif (g["op"] == "ndef_read" and isinstance(g["result"], list) and isinstance(r["result"], list)
                  and g["result"][:2] == r["result"][:2] and not C16_SESSION_STALE_FLAGS_IS_VIOLATION):
                # same octets and capacity, other is_readable / is_writeable of the NDEF object that lived through the
                # failure: a stale flag of the object, not a communication result - outside the statement of C16, observed
                R.count("t3t_c16_session_obs_access_flags_differ")
                R.seen("t3t_c16_session_obs_access_flags", "%s/%s: readable,writeable = %r, fault-free %r" % (
                    kind, name, g["result"][2:], r["result"][2:]))
            else:
                R.violation(sigbase + "step%d-%s/silent-wrong-result" % (i, g["op"]),
                            what + "returned %r, the fault-free session %r (same tag memory at the start of the step)" % (
                                str(g["result"])[:60], str(r["result"])[:60]), case)
            continue
        if g["after"] != r["after"] and not op["free"]:
            R.violation(sigbase + "step%d-%s/silent-wrong-memory" % (i, g["op"]),
                        what + "returned the fault-free result but left another tag memory", case)
            continue
        R.count("t3t_c16_session_step_same_result_same_memory")


def replay_c16(case, R):
    if "session" in case:
        ref = c16_session_execute(case["kind"], case["session"], None)
        c16_session_judge(case["kind"], case["session"], ref, tuple(case["fault"]), R)
        return
    kind, opname, variant = case["kind"], case["op"], case.get("variant", 0)
    ref = c16_execute(kind, opname, None, variant)
    if case.get("fault") is None:
        c16_judge_ref(kind, opname, ref, R, variant)
    else:
        c16_judge(kind, opname, ref, tuple(case["fault"]), R, variant)


def c16_judge_ref(kind, opname, ref, R, variant=0):
    case = {"family": FAM, "kind": kind, "op": opname, "fault": None, "variant": variant}
    R.count("t3t_c16_repeat_checked")
    if ref["repeated"]:
        R.violation("t3t/c16/%s/answered-command-repeated" % opname,
                    "%s on %s without any fault: command #%d was answered and then sent again" % (
                        opname, kind, ref["repeated"][0]), case)
    if "exc" in ref:
        e = ref["exc"]
        if not isinstance(e, nfc.tag.TagCommandError):
            R.violation("t3t/c16/%s/fault-free-escape/%s" % (opname, exc_sig(e)),
                        "%s on %s raised %s without any fault: %s" % (opname, kind, type(e).__name__, str(e)[:100]), case)
            return False
    return True


def c16_op(kind, opname, R, rng, full, variant=0):
    ref = c16_execute(kind, opname, None, variant)
    R.seen("t3t_c16_ops_seen", "%s/%s" % (kind, opname))
    R.count("t3t_c16_ops_covered")
    R.count("t3t_c16_pers_" + kind)
    R.count("t3t_c16_class_" + ref["cls"])
    if ref["cls"] != PERS_CLASS[kind]:
        R.inconc("t3t C16: personality %s gave reader class %s, expected %s" % (kind, ref["cls"], PERS_CLASS[kind]))
    ok = c16_judge_ref(kind, opname, ref, R, variant)
    n = len(ref["answered"])
    R.max("t3t_c16_positions_per_op", n)
    if not ok and "exc" in ref and n == 0:
        return
    positions = list(range(n))
    # format(): every command of the probing sequence decides one field of the attribute block, a sample of positions
    # leaves single commands (first Nbr / Nbw probe, read-back of block 0, attribute write) untested -> enumerated
    sampled = not full and n > 12 and not opname.startswith("format")
    if sampled:
        # long dump sequences: first, last and a random sample of positions in the quick tier
        positions = sorted(set([0, 1, n - 2, n - 1] + rng.sample(range(n), 8)))
    elif opname.startswith("format"):
        R.count("t3t_c16_format_positions_enumerated", n)
        R.seen("t3t_c16_format_sequences", "%s/%s/%d:%s" % (kind, opname, variant, _cmd_letters(ref["answered"])))
    light = not full and kind in KIND_BASE         # FeliCa Mobile / Plug in the quick tier: bursts 2 and 3 only
    knames = sorted(KINDS)
    for pi, pos in enumerate(positions):
        for kname in knames:
            for burst in ((2, 3) if light else (1, 2, 3, 4)):
                for flavour in ("cmd_lost", "rsp_lost"):
                    if sampled and burst in (1, 4) and flavour == "rsp_lost":
                        continue
                    c16_judge(kind, opname, ref, (pos, kname, burst, flavour), R, variant)
        # the error never goes away (for the rest of the operation)
        extra = [(knames[(pi + k) % 3], ("cmd_lost", "rsp_lost")[(pi + k) % 2]) for k in range(6 if full else 1)]
        for kname, flavour in extra:
            c16_judge(kind, opname, ref, (pos, kname, 99, flavour), R, variant)
        # two bursts at two command positions, each within the budget
        later = [p for p in range(pos + 1, n)]
        if later:
            picks = [later[0]] + ([rng.choice(later)] if len(later) > 1 and (full or pi % 2 == 0) else [])
            for qi, pos2 in enumerate(picks):
                b1, b2 = ((2, 2), (1, 2), (2, 1))[(pi + qi) % 3]
                c16_judge(kind, opname, ref, (pos, knames[(pi + qi) % 3], b1, ("cmd_lost", "rsp_lost")[(pi + qi + 1) % 2], pos2, b2),
                          R, variant)


def _cmd_letters(cmds):
    """command sequence as a word over R(ead) W(rite) P(olling) o(ther)"""
    return "".join({0x06: "R", 0x08: "W", 0x00: "P"}.get(bytes(c)[1], "o") for c in cmds)


def _is_mac_write(cmd):
    """commands a tag cannot execute twice: Lite-S write with MAC_A (WCNT advances) and the write of the memory
    configuration block MC that locks the system blocks (a second write is refused with a status error)"""
    cmd = bytes(cmd)
    # LEN 08 IDm 01 09 00 02 80 BN 80 91 ...   |   LEN 08 IDm 01 09 00 01 80 88 ...
    if len(cmd) > 18 and cmd[1] == 0x08 and cmd[13] == 2 and cmd[16:18] == b"\x80\x91":
        return True
    return len(cmd) > 18 and cmd[1] == 0x08 and cmd[13] == 1 and cmd[14:16] == b"\x80\x88" and cmd[18] != 0xFF


def _nviol(R):
    return sum(v["count"] for v in R.violations.values())


def c16_judge(kind, opname, ref, fault, R, variant=0):
    """one cell: the specific clauses first; a cell that passed them and returned normally is then judged by the
    always-on clause 'no silently wrong result / memory' (c16_silent)"""
    got = c16_execute(kind, opname, fault, variant)
    nv = _nviol(R)
    if opname.startswith("format") and got["beyond"]:
        # which command of the probing sequence the persistent error hit (the link is healthy again afterwards)
        word = _cmd_letters(ref["answered"])
        if fault[0] < len(word):
            if word[fault[0]] == "W" and "W" not in word[:fault[0]]:
                # generic / Standard: first Nbw probe of Type3Tag._format; Lite / Lite-S have no probing phase, their
                # first write is the first wipe / attribute block write
                R.count("t3t_c16_format_persistent_at_first_write_probe" if kind in ("generic", "standard") else
                        "t3t_c16_format_persistent_at_first_write_lite")
                R.seen("t3t_c16_format_first_write_probe_bursts", "%s/%d/%s" % (kind, got["injected"], fault[3]))
            elif word[fault[0]] == "R":
                R.count("t3t_c16_format_persistent_at_read_probe")
            else:
                R.count("t3t_c16_format_persistent_at_later_write")
    c16_judge_clauses(kind, opname, ref, got, fault, R, variant)
    if _nviol(R) == nv:
        c16_silent(kind, opname, ref, got, fault, R, variant)


def c16_dump_reports_error(got, want):
    """dump() reads 'until an error': the lines printed so far are lines of the complete dump, followed by at most two
    closing lines ('*' line and last block of a run of equal blocks).  FeliCa Lite prints blocks it could not read as
    '??'; FeliCa Standard falls back to the plain dump of the NDEF service when the system / service discovery
    commands fail (same block lines without the indentation of the area tree)."""
    if not (isinstance(got, list) and isinstance(want, list)):
        return False
    want_set = set(x.strip() for x in want if isinstance(x, str))
    return sum(1 for x in got if not (isinstance(x, str) and ("?? ??" in x or x.strip() in want_set))) <= 2


def c16_fresh_ndef(run):
    """what a fresh, fault-free reader finds on the tag the run left behind -> None | [message hex, readable, writeable]"""
    with fixed_challenge(), quiet():
        try:
            _clf, _dev, tag = tagdevice.activate(run["model"])
            nd = None if tag is None else tag.ndef
            return None if nd is None else [bytes(nd.octets).hex(), nd.is_readable, nd.is_writeable]
        except Exception as e:      # noqa
            return ["exc", exc_sig(e)]


ATTR_SAME = ("ver", "writef", "rwflag", "ln", "rfu")      # fields the probing cannot legitimately change
ATTR_PROBED = ("nbr", "nbw", "nmaxb")                      # found by reading / writing 'until an error'


def c16_format_attr_diff(ref, got, R):
    """format() returned True in both runs: compare the attribute block (block 0 of the tag memory, decoded by the
    reference codec) field by field.  An error response ends a probing loop early, so Nbr / Nbw / Nmaxb may be smaller
    than in the fault-free run, but a tag announced as formatted can be read and written with at least one block per
    command; version, WriteF, RWFlag, Ln and the checksum do not depend on the probing.
    -> None | (clause, got fields, fault-free fields)"""
    b_ref, b_got = ref["image"].get(0), got["image"].get(0)
    if b_ref is None or b_got is None:
        return None
    a_ref, a_got = t3_attr.decode(b_ref), t3_attr.decode(b_got)
    if not a_ref["checksum_ok"]:
        return None
    R.count("t3t_c16_format_attr_fields_compared")
    show = lambda a: "Ver=%02X Nbr=%d Nbw=%d Nmaxb=%d WriteF=%02X RWFlag=%02X Ln=%d" % (     # noqa: E731
        a["ver"], a["nbr"], a["nbw"], a["nmaxb"], a["writef"], a["rwflag"], a["ln"])
    clause = None
    if not a_got["checksum_ok"]:
        clause = "checksum"
    for f in ATTR_PROBED:
        if clause is None and a_ref[f] > 0 and a_got[f] == 0:
            clause = f + "-zero"
    for f in ATTR_PROBED:
        if clause is None and a_got[f] > a_ref[f]:
            clause = f + "-larger"
    for f in ATTR_SAME:
        if clause is None and a_got[f] != a_ref[f]:
            clause = f + "-differs"
    if clause is None:
        if any(a_got[f] < a_ref[f] for f in ATTR_PROBED):
            R.count("t3t_c16_format_attr_probed_value_smaller")
        return None
    return clause, show(a_got), show(a_ref)


def c16_silent(kind, opname, ref, got, fault, R, variant=0):
    """an operation that returns normally returns the fault-free result or its documented failure value; with the
    fault-free result the final tag memory is the fault-free memory.  format() probes the memory size and the block
    limits by reading / writing 'until an error', so after a failed probe it may legitimately lay the tag out
    differently: there 'True' must still mean what it says, a fresh reader finds the same (empty) message and access
    flags as after the fault-free format."""
    if "exc" in got or "exc" in ref or got["injected"] == 0:
        return
    pos, kname, burst, flavour = fault[:4]
    op = OPS[opname]
    case = {"family": FAM, "kind": kind, "op": opname, "fault": list(fault), "variant": variant}
    sigbase = "t3t/c16/%s/" % opname
    what = "%s on %s, %s x%d (%s) at command %d%s: " % (opname, kind, kname, burst, flavour, pos,
                                                        " and x%d at command %d" % (fault[5], fault[4]) if len(fault) > 4 else "")
    R.count("t3t_c16_normal_returns_judged")
    res, want = got.get("result"), ref.get("result")
    if res != want:
        if res in op["fallbacks"] or (opname == "dump" and c16_dump_reports_error(res, want)):
            R.count("t3t_c16_normal_return_reports_failure")
        else:
            R.violation(sigbase + "silent-wrong-result", what + "returned %r without any error, fault-free result %r" % (
                str(res)[:70], str(want)[:70]), case)
        return
    if res in op["fallbacks"]:
        R.count("t3t_c16_normal_return_reference_is_failure_value")      # cannot tell failure from success
        return
    if got["image"] == ref["image"]:
        R.count("t3t_c16_normal_return_same_result_same_memory")
        return
    if opname.startswith("format") and op["free"]:
        if "fresh" not in ref:
            ref["fresh"] = c16_fresh_ndef(ref)
        fresh = c16_fresh_ndef(got)
        bad = c16_format_attr_diff(ref, got, R)
        attrs = " (attribute block %s, fault-free %s)" % bad[1:] if bad else ""
        R.count("t3t_c16_format_result_verified_by_fresh_reader")
        if fresh != ref["fresh"]:
            how = "no-ndef" if fresh is None else "other-access-flags" if (
                isinstance(ref["fresh"], list) and fresh[1:] != ref["fresh"][1:]) else "other-message"
            R.violation(sigbase + "silent-wrong-memory/fresh-reader-finds-" + how,
                        what + "returned %r like the fault-free run, but a fresh reader finds %r instead of %r%s" % (
                            res, fresh, ref["fresh"], attrs), case)
        elif bad:
            # what nfcpy's own reader does not reveal (e.g. Nbw / Nmaxb larger than the tag supports)
            R.violation(sigbase + "silent-wrong-memory/attribute-" + bad[0], what + "returned %r like the fault-free run, "
                        "but wrote the attribute block %s instead of %s" % (res, bad[1], bad[2]), case)
        return
    R.violation(sigbase + "silent-wrong-memory", what + "returned the fault-free result %r but the final tag memory "
                "differs" % (str(res)[:60],), case)


def c16_judge_clauses(kind, opname, ref, got, fault, R, variant=0):
    pos, kname, burst, flavour = fault[:4]
    op = OPS[opname]
    case = {"family": FAM, "kind": kind, "op": opname, "fault": list(fault), "variant": variant}
    R.case([kind, opname, variant, list(fault)], nontrivial=got["injected"] > 0)
    R.count("t3t_c16_cells")
    R.count("t3t_c16_faults_injected", got["injected"])
    R.seen("t3t_c16_kinds", kname + "/" + flavour)
    exc = got.get("exc")
    errno_want = KINDS[kname][1]
    tag_err = isinstance(exc, nfc.tag.TagCommandError)
    sigbase = "t3t/c16/%s/" % opname
    what = "%s on %s, %s x%d (%s) at command %d%s: " % (opname, kind, kname, burst, flavour, pos,
                                                        " and x%d at command %d" % (fault[5], fault[4]) if len(fault) > 4 else "")
    if burst == 99:
        R.count("t3t_c16_persistent99_cells")
        if tag_err and exc.errno == errno_want:
            R.count("t3t_c16_persistent99_tagerror")
    if len(fault) > 4:
        R.count("t3t_c16_double_burst_cells")
        if all(x > 0 for x in got["injected_by_burst"]):
            R.count("t3t_c16_double_burst_both_hit")
    if got["unanswered_run"] >= 50:
        R.violation(sigbase + "retry-not-bounded", what + "the same command was attempted %d times in a row without an "
                    "answer" % got["unanswered_run"], case)
        return
    if exc is not None and not tag_err:
        # the same escape as in the fault-free run is one defect, reported there
        if "exc" in ref and type(ref["exc"]) is type(exc) and exc_sig(ref["exc"]) == exc_sig(exc):
            R.count("t3t_c16_same_escape_as_fault_free")
            return
        R.violation(sigbase + "escape/" + exc_sig(exc), what + "raised %s: %s" % (type(exc).__name__, str(exc)[:100]), case)
        return
    R.count("t3t_c16_repeat_checked")
    if got["repeated"] and not ref["repeated"]:
        R.violation(sigbase + "answered-command-repeated",
                    what + "command #%d of the operation was answered and then sent again" % got["repeated"][0], case)
        return
    same_result = ("exc" in ref) == ("exc" in got) and (
        ref.get("result") == got.get("result") if "exc" not in ref else
        (type(ref["exc"]) is type(exc) and getattr(ref["exc"], "errno", None) == getattr(exc, "errno", None)))
    same_mem = ref["image"] == got["image"]
    # ---- within the retry budget: every burst (or what was left of it when the operation ended) <= BUDGET attempts
    within = not got["beyond"]
    # 'a command that was answered is not sent again', also not adjacent, also on failure paths (differential)
    if got["injected"] > 0:
        R.count("t3t_c16_resend_checked")
        if not within:
            R.count("t3t_c16_resend_checked_on_failure_path")
        if got["resent"] > ref["resent"]:
            R.violation(sigbase + "answered-command-resent",
                        what + "%d Write command(s) repeat the last answered Write of their blocks, the fault-free run has %d" % (
                            got["resent"], ref["resent"]), case)
            return
    if within:
        if flavour == "rsp_lost" and got["lost_executed_nonidempotent"] and tag_err and exc.errno > 0xFF:
            R.count("t3t_c16_nonidempotent_macwrite")
            return
        if exc is not None and "exc" not in ref:
            R.violation(sigbase + "within-budget-raised", what + "raised %s errno %s although only %d attempt(s) failed" % (
                type(exc).__name__, getattr(exc, "errno", None), got["injected"]), case)
            return
        if not same_result:
            R.violation(sigbase + "within-budget-result", what + "result %r differs from fault-free %r" % (
                str(got.get("result"))[:80], str(ref.get("result"))[:80]), case)
            return
        if not same_mem:
            R.violation(sigbase + "within-budget-memory", what + "final tag memory differs from the fault-free run", case)
            return
        R.count("t3t_c16_sequences_compared")
        if got["answered"] != ref["answered"]:
            i = _first_diff(got["answered"], ref["answered"])
            dup = i > 0 and i < len(got["answered"]) and got["answered"][i] == got["answered"][i - 1]
            R.violation(sigbase + ("answered-command-repeated" if dup else "within-budget-sequence"),
                        what + "answered commands differ from the fault-free run at index %d (%d vs %d commands)" % (
                            i, len(got["answered"]), len(ref["answered"])), case)
            return
        R.count("t3t_c16_within_ok")
        if len(fault) > 4 and all(x > 0 for x in got["injected_by_burst"]):
            R.count("t3t_c16_double_burst_ok")
        return
    # ---- beyond the retry budget
    if tag_err:
        if exc.errno == errno_want:
            R.count("t3t_c16_beyond_tagerror")
            return
        if "exc" in ref and getattr(ref["exc"], "errno", None) == exc.errno:
            R.count("t3t_c16_beyond_same_as_ref")
            return
        if flavour == "rsp_lost" and exc.errno > 0xFF and got["lost_executed_nonidempotent"]:
            R.count("t3t_c16_nonidempotent_macwrite")
            return
        R.violation(sigbase + "errno-mismatch", what + "TagCommandError errno %d, expected %d" % (exc.errno, errno_want), case)
        return
    # returned normally
    if same_result and same_mem:
        R.count("t3t_c16_beyond_absorbed")
        return
    if got.get("result") in op["fallbacks"]:
        R.count("t3t_c16_beyond_documented_fallback")
        return
    if op["free"]:
        R.count("t3t_c16_beyond_probing_result")
        return
    R.violation(sigbase + "beyond-budget-unreported",
                what + "returned %r (fault-free %r, memory %s) although a command failed %d times" % (
                    str(got.get("result"))[:60], str(ref.get("result"))[:60], "equal" if same_mem else "different",
                    got["injected"]), case)
