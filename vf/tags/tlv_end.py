"""Directed, enumerated image class "NDEF message TLV near the end of the data area" for the Type 1 / Type 2 Tag C08
workloads (vf/tags/t1t.py, vf/tags/t2t.py).  Written from the TLV rules of the Type 1/2 Tag Operation specifications,
nothing is taken from nfcpy.

One image = (geometry, length-field form, length L, end offset d, reserved-range variant):

  * the NDEF message TLV follows 0..2 control TLVs and NULL TLVs / one proprietary TLV that bridge the gap; its length field is stored in the 1-byte form
    (L = 0..254) or in the 3-byte form FFh hi lo (L = 0..300, i.e. *including* the non-canonical values below 255 that
    a reader has to accept);
  * d = -3..+4 counts usable (non reserved) bytes: for d <= 0 the value ends |d| usable bytes in front of the end of the
    declared data area (it fits), for d > 0 it needs d usable bytes more than the data area has (it does not fit and
    its last d bytes lie in physical memory behind the data area);
  * reserved-range variants: none / a lock- or memory-control range in front of the TLV ("before", filled with FEh so a
    reader that does not jump over it stops there) / inside the value / the last bytes of the data area ("tail") /
    before+inside / a range across the end of the data area ("straddle");
  * the physical memory behind the declared data area is readable and holds the pattern A0h|low nibble of the address;
    value bytes inside the data area are < 80h, so the two are disjoint.

build() returns None for combinations that cannot be laid out (TLV would start in front of the TLV area, control range
not expressible, header on reserved bytes ...); callers count only what was built.
"""

OFFSETS = tuple(range(-3, 5))
VARIANTS = ("none", "before", "inside", "tail", "before+inside", "straddle")
BOUNDARY = {1: (0, 1, 2, 3, 8, 64, 128, 253, 254),
            3: (0, 1, 2, 3, 8, 64, 200, 253, 254, 255, 256, 257, 300)}


def lengths(form):
    return range(0, 255) if form == 1 else range(0, 301)


def off_name(d):
    return ("m%d" % -d) if d < 0 else ("p%d" % d)


def ctl_encode(addr, min_exp=0):
    """(position byte, BytesPerPage exponent) of a control TLV that points at addr, or None"""
    for e in range(min_exp, 12):
        pa = addr >> e
        bo = addr - (pa << e)
        if pa <= 15 and bo <= 15:
            return pa << 4 | bo, e
    return None


def _expressible(addr, lo, hi, min_exp, step):
    """nearest address to addr (searching in direction step) within [lo, hi) a control TLV can point at"""
    a = addr
    for _ in range(64):
        if not lo <= a < hi:
            return None
        if ctl_encode(a, min_exp) is not None:
            return a
        a += step
    return None


def build(rng, img, base, data_end, d, form, ln, variant, fixed_reserved=(), min_exp=0):
    """fill img[base:] (bytearray, physical memory; everything below base is the caller's) -> description dict / None"""
    phys = len(img)
    head = 2 if form == 1 else 4
    assert (form == 1 and 0 <= ln <= 254) or (form == 3 and 0 <= ln <= 0xFFFF)
    want = []                                     # (class, start, nbytes)
    nctl = {"none": 0, "before": 1, "inside": 1, "tail": 1, "before+inside": 2, "straddle": 1}[variant]
    first_free = base + 5 * nctl
    if "before" in variant:
        s = rng.randrange(1, 7)
        a = _expressible(first_free + rng.randrange(8, 14), first_free, data_end, min_exp, +1)
        if a is None:
            return None
        want.append(("before", a, s))
    if "inside" in variant:
        if ln < 10:
            return None
        s = rng.randrange(1, 9)
        k = rng.randrange(5, min(ln, 64) - 2)     # usable bytes of the value behind the range (roughly)
        a = _expressible(data_end - k - s, first_free, data_end, min_exp, -1)
        if a is None:
            return None
        want.append(("inside", a, s))
    if variant == "tail":
        s = rng.randrange(1, 5)
        a = _expressible(data_end - s, first_free, data_end, min_exp, -1)
        if a is None:
            return None
        want.append(("tail", a, data_end - a))
    if variant == "straddle":
        s1, s2 = rng.randrange(1, 4), rng.randrange(1, 4)
        a = _expressible(data_end - s1, first_free, data_end, min_exp, -1)
        if a is None:
            return None
        want.append(("straddle", a, data_end - a + s2))
    reserved = set(fixed_reserved)
    ranges = []
    for cls, a, n in want:
        kind = rng.choice((1, 2))
        if kind == 1 and n > 32:
            kind = 2
        ranges.append([cls, kind, a, n])
        reserved.update(range(a, a + n))
    if any(x in reserved for x in range(base, first_free)):
        return None
    limit = phys + 16                              # virtual addresses behind the physical memory (never stored)
    usable = [x for x in range(first_free, limit) if x not in reserved]
    idx_end = sum(1 for x in usable if x < data_end)
    hi = idx_end + d
    lo = hi - ln
    if lo < 0 or hi >= len(usable):
        return None
    vaddrs = usable[lo:hi]
    p = usable[lo]                                 # where the value starts (or would start, for L = 0)
    while p - 1 in reserved:
        p -= 1
    o = p - head
    if o < first_free or any(x in reserved for x in range(o, p)):
        return None
    realised = set()
    for r in ranges:
        cls, kind, a, n = r
        e = a + n
        if e <= o:
            got = "before"
        elif a < o + head:
            return None                            # (cannot happen: header bytes are not reserved)
        elif a >= data_end:
            got = "beyond"
        elif e > data_end:
            got = "straddle"
        elif not vaddrs or a > vaddrs[-1]:
            got = "tail" if e == data_end else "after"
        else:
            got = "inside"
        r[0] = got
        realised.add(got)
    # ---- write the image ------------------------------------------------------------------------------------------
    for x in range(base, min(data_end, phys)):
        img[x] = 0x00
    for x in range(data_end, phys):
        img[x] = 0xA0 | (x & 0x0F)
    for x in fixed_reserved:
        if base <= x < min(data_end, phys):
            img[x] = rng.randrange(256)
    pos = base
    for cls, kind, a, n in ranges:
        posbyte, e = ctl_encode(a, min_exp)
        size = n if kind == 2 else n * 8 - rng.randrange(8)
        img[pos:pos + 5] = bytes([kind, 3, posbyte, size & 0xFF, rng.randrange(16) << 4 | e if kind == 1 else e])
        pos += 5
        for x in range(a, min(a + n, data_end, phys)):
            img[x] = 0xFE if cls == "before" else rng.randrange(256)
    # the bytes between the control TLVs and the NDEF TLV: NULL TLVs, or (long gaps, mostly) some NULL TLVs and one
    # proprietary TLV whose value covers the rest and jumps over the reserved bytes on its way
    gap = [x for x in usable[:lo] if x < o and x < phys]
    filler = "null"
    if len(gap) > 40 and rng.random() < 0.85:
        g = gap[rng.randrange(0, 4):]
        n = len(g) - 2 if len(g) - 2 <= 254 else len(g) - 4
        h = 2 if n == len(g) - 2 else 4
        if g[h - 1] - g[0] == h - 1:
            fh = bytes([0xFD, n]) if h == 2 else bytes([0xFD, 0xFF, n >> 8, n & 0xFF])
            for i, b in enumerate(fh):
                img[g[i]] = b
            for x in g[h:]:
                img[x] = rng.randrange(256)
            filler = "proprietary-tlv-%d" % (h - 1)
    hdr = bytes([3, ln]) if form == 1 else bytes([3, 0xFF, ln >> 8, ln & 0xFF])
    for i, b in enumerate(hdr):
        if o + i < phys:
            img[o + i] = b
    value = bytearray()
    for x in vaddrs:
        if x < data_end and x < phys:
            img[x] = rng.randrange(0x80)
        if x < phys:
            value.append(img[x])
    if hi < idx_end:                               # room behind the value: terminator, then arbitrary bytes
        img[usable[hi]] = 0xFE
        for x in usable[hi + 1:idx_end]:
            img[x] = rng.randrange(256)
    return {"form": form, "len": ln, "d": d, "variant": variant, "realised": sorted(realised), "offset": o,
            "ranges": [[c, k, a, n] for c, k, a, n in ranges], "data_end": data_end, "phys": phys,
            "filler": filler, "fits": d <= 0, "value": bytes(value), "behind": max(0, phys - data_end)}


def enumerate_specs(rng, form, tier, ngeo, extra=6, heavy=()):
    """-> list of (L, d, [(variant, geometry index), ...] candidates, full): every L of the form x every offset; for
    boundary lengths (and `extra` random ones, and every length in the thorough tier) the full cross product of
    variants x geometries, otherwise one random feasible (variant, geometry) pair.  In the quick tier the geometries
    listed in `heavy` (large memories, expensive to read) take part in every second (variant, offset) combination of the
    cross product only and in a third of the random picks."""
    pairs = [(vi, g) for vi in range(len(VARIANTS)) for g in range(ngeo)]
    full_l = set(BOUNDARY[form])
    full_l.update(rng.sample(list(lengths(form)), extra))
    quick = tier == "quick"
    out = []
    for ln in lengths(form):
        full = not quick or ln in full_l
        for d in OFFSETS:
            if full:
                cand = [(VARIANTS[vi], g) for vi, g in pairs if not (quick and g in heavy and (vi + d) % 2)]
            else:
                cand = [(VARIANTS[vi], g) for vi, g in pairs if not (g in heavy and rng.random() < 0.67)]
                rng.shuffle(cand)
            out.append((ln, d, cand, full))
    return out
