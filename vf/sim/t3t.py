"""Type 3 Tag (FeliCa) tag model for SimTagDevice - written from the FeliCa card/Lite/Lite-S user's manuals and the
NFC Forum T3T Operation specification, not from nfcpy.

MODEL API (used by vf/tags/t3t.py, and meant for the later C20 check)
----------------------------------------------------------------------
Construction
    T3TModel.generic(nbr, nbw, nmaxb, extra=2, message=b"", rwflag=1, writef=0, ver=0x10, fill=None, **kw)
        plain NFC Forum T3T: attribute block 0, data blocks 1..nmaxb, `extra` further blocks nmaxb+1.. that exist
        in the same services but are NOT part of the NDEF area (sentinel content).  The tag really enforces
        max_read = nbr and max_write = nbw blocks per command.  kw: idm, pmm, brty, rw_service, sensf_rd.
    T3TModel.lite(nmaxb=13, message=b"", nbr=4, **kw)      FeliCa Lite   RC-S965  (IC code F0h)
    T3TModel.lites(nmaxb=13, message=b"", nbr=4, **kw)     FeliCa Lite-S RC-S966  (IC code F1h, ic=0xF2 for Link)
        kw: ndef=True (SYS_OP bit: answers to system code 12FCh), password / ck_block (card key), ckv,
            mc (16 byte memory configuration block), formatted=True (attribute block present), wcnt
    T3TModel.standard(nbr, nbw, nmaxb, ic=0x01, other_systems=(), ...)   FeliCa Standard personality: generic file
        system plus Request Service / Request Response / Search Service Code / Request System Code, optional
        additional systems (IDm upper nibble = system index).
Memory
    model.blocks            dict block number -> bytearray(16) (persistent memory; Lite system blocks 82h..88h, 90h)
    model.get_block(n)      16 bytes or None                      model.set_block(n, data)
    model.set_ndef(message, writef=0, rwflag=1, nbr=None, nbw=None, nmaxb=None, ver=0x10)  rewrite block 0 + data
    model.image() / model.restore(img)   snapshot of ALL persistent state (blocks) / restore (volatile state reset)
    model.ndef_area         set of block numbers that belong to the NDEF area as laid out (0..nmaxb)
Keys / security (Lite, Lite-S)
    model.set_card_key(password=None, ck_block=None)   ck_block = 16 bytes as stored in block 87h (wire order);
                                                       password = nfcpy convention (first 16 bytes, "" = factory)
    model.ck_block, model.rc_block (None until RC written after power-up), model.ext_auth (Lite-S EXT_AUTH),
    model.wcnt (int), model.mc (the live MC block bytearray)
    MAC block 81h : MAC over the blocks in front of it in the block list, session key from CK and the RC written
                    since power-up (all zero if no RC was written).  Internal authentication = write RC, read
                    ID [+CKV] + MAC; the model does not care which blocks are chosen.
    MAC_A 91h     : Lite-S; read: MAC_A over block numbers + data; write: `Write(BN, 91h)` with MAC_A||WCNT
                    verified against the model's own WCNT; success increments WCNT.  STATE 92h is writable only
                    that way; byte 0 = 01h sets EXT_AUTH (external / mutual authentication).
    model.wcnt_limit : WCNT value from which on writes with MAC are refused (default FFFFFFh, i.e. never)
    model.wcnt_counts: which executed Write commands advance WCNT (Lite-S): "mac" (default) writes with MAC_A only,
                       "nv" also every plain write that programmed non-volatile memory, "all" also writes of the RC
                       block.  A reader can not tell which (nor what other readers wrote): it has to read WCNT right
                       before every write with MAC; checks may enumerate the three rules.
    MC (88h)      : bytes 0-1 MC_SP (bit n = block n writable, bit 14 REG; bits only go 1 -> 0), byte 2 MC_ALL
                    (FFh system blocks 82h,84h,86h,87h,88h writable; anything else: locked for good), byte 3 SYS_OP
                    (bit 0 NDEF), byte 4 RF_PRM; Lite-S: byte 5 MC_CKCKV_W_MAC_A, 6-7 read needs EXT_AUTH,
                    8-9 write needs EXT_AUTH, 10-11 write needs MAC_A, 12 STATE write needs MAC_A (always true here).
    CK (87h) is not readable (status A8h), RC (80h) reads as zeros.
Further services / systems with memory (non-interference targets; generic / Standard only)
    model.add_aux_service(system_code, service_number, nblocks)   key-less random service `service_number` (service
        codes number<<6|09h read/write and number<<6|0Bh read only) with `nblocks` blocks of its own in the system
        `system_code` (12FCh = the NDEF system, or one of other_systems).  Its blocks live in model.blocks under the
        keys AUX_BASE * (index + 1) + block number (index = position in model.aux_services), so image()/restore(),
        the read/write logs and every block diff see them as blocks that never belong to the NDEF area.
Observation
    model.cmd_log     list of (code, detail, (sf1, sf2) | None) for every command seen
    model.read_log    list of lists of block numbers answered with data (successful reads only)
    model.write_log   list of (block numbers, applied: bool)
    model.write_data_log  list of (service codes of the command, block keys, [16 byte data ...], applied) per Write
    model.svc_log     list of (command code, (service codes of the service list)) for every parsed Read / Write
    model.on_state_change()  is called after every command that programmed persistent memory
    model.power_cycle()      clears RC / session key / EXT_AUTH / selected system
Tampering
    Tamper(model, fn, sense_fn=None) wraps a model as a man-in-the-middle for the command responses and (sense_fn)
    for the SENSF_RES of the discovery (see class Tamper at the end of this file).
Frames  `LEN CMD ...`; LEN counts itself; commands for a different IDm, with a wrong LEN or an unknown command code
are not answered (None -> TimeoutError at the reader).  Errors in a Read/Write are answered `0C 07|09 IDm SF1 SF2`.
Simplifications (documented): REG (0Eh) is a plain block (no subtraction semantics); timing (PMm) is not modelled;
multi block writes are applied atomically.
"""
import functools

import nfc.clf

from vf.ref import felica_mac, t3_attr

SC_RW = 0x0009       # random service, read/write, no key
SC_RO = 0x000B       # random service, read only, no key
SYS_NDEF = 0x12FC
SYS_LITE = 0x88B4

A1, A2, A3, A4, A5, A6, A7, A8 = 0xA1, 0xA2, 0xA3, 0xA4, 0xA5, 0xA6, 0xA7, 0xA8
B1, B2 = 0xB1, 0xB2


# the MAC functions are pure; the checks repeat the same (key, challenge, data) many times (pure Python DES)
@functools.lru_cache(maxsize=8192)
def _mac(ck, rc, data):
    return felica_mac.mac(ck, rc, data)


@functools.lru_cache(maxsize=8192)
def _mac_a_read(ck, rc, numbers, data):
    return felica_mac.mac_a_read(ck, rc, list(numbers), data)


@functools.lru_cache(maxsize=8192)
def _mac_a_write(ck, rc, cur, n, d):
    return felica_mac.mac_a_write(ck, rc, cur, n, d)

AUX_BASE = 1 << 20    # block keys of further services: AUX_BASE * (index + 1) + block number

LITE_USER = list(range(0, 0x0E))
LITE_SYS_WRITABLE_WHEN_UNLOCKED = (0x82, 0x84, 0x86, 0x87, 0x88)


class T3TModel(object):
    any_bitrate = True          # FeliCa cards answer at 212 and 424 kbps

    def __init__(self, kind="generic", idm=None, pmm=None, brty="212F", sensf_rd=True):
        assert kind in ("generic", "lite", "lites", "standard")
        self.kind = kind
        self.brty = brty
        self.idm = bytes(idm or bytes.fromhex("02FE112233445566"))
        self.pmm = bytes(pmm or bytes.fromhex("00FFFFFFFFFFFFFF"))
        self.sensf_rd = sensf_rd        # default discovery request asks for the system code (RD bytes)
        self.blocks = {}
        self.max_read = 1
        self.max_write = 1
        self.rw_service = True
        self.other_systems = []         # system codes without any key-less service (Standard)
        self.aux_services = []          # [(system code, service number)] further key-less services with own memory
        self.ndef_system_first = True
        self.ndef_area = set()
        self.wcnt_limit = 0xFFFFFF      # Lite-S: no write with MAC once WCNT is exhausted
        self.wcnt_counts = "mac"        # Lite-S: which executed writes advance WCNT ("mac" | "nv" | "all")
        # volatile
        self.rc_block = None
        self.ext_auth = False
        self.cur_sys = 0
        # observation
        self.cmd_log = []
        self.read_log = []
        self.write_log = []
        self.write_data_log = []
        self.svc_log = []
        self.on_state_change = lambda: None

    # ---------------------------------------------------------------- construction
    @classmethod
    def generic(cls, nbr, nbw, nmaxb, extra=2, message=b"", rwflag=1, writef=0, ver=0x10, fill=None,
                rw_service=True, kind="generic", **kw):
        m = cls(kind, **kw)
        m.max_read, m.max_write = nbr, nbw
        m.rw_service = rw_service
        for n in range(0, nmaxb + 1 + extra):
            if fill is None:
                blk = bytearray([(0xA0 + n * 7 + i) & 0xFF for i in range(16)])
            else:
                blk = bytearray(fill(n))
            m.blocks[n] = blk
        m.set_ndef(message, writef=writef, rwflag=rwflag, nbr=nbr, nbw=nbw, nmaxb=nmaxb, ver=ver)
        return m

    @classmethod
    def standard(cls, nbr, nbw, nmaxb, ic=0x01, other_systems=(), ndef_system_first=True, **kw):
        pmm = bytes([0x00, ic]) + bytes.fromhex("FFFFFFFFFFFF")
        m = cls.generic(nbr, nbw, nmaxb, kind="standard", pmm=pmm, **kw)
        m.other_systems = list(other_systems)
        m.ndef_system_first = ndef_system_first
        return m

    @classmethod
    def lite(cls, nmaxb=13, message=b"", nbr=4, ic=0xF0, ndef=True, password=None, ck_block=None, ckv=0, mc=None,
             formatted=True, rwflag=1, writef=0, ver=0x10, wcnt=0, fill=None, kind="lite", **kw):
        assert 0 <= nmaxb <= 13
        pmm = bytes([0x00, ic]) + bytes.fromhex("FFFFFFFFFFFF")
        m = cls(kind, pmm=pmm, **kw)
        m.max_read = 4
        m.max_write = 1 if kind == "lite" else 2
        for n in range(0, 0x0F):
            m.blocks[n] = bytearray(fill(n)) if fill else bytearray([(0x50 + n * 5 + i) & 0xFF for i in range(16)])
        m.blocks[0x82] = bytearray(m.idm + bytes.fromhex("0011223344556677"))          # ID: IDD, DFC, free
        m.blocks[0x83] = bytearray(m.idm + m.pmm)                                       # D_ID
        m.blocks[0x84] = bytearray(bytes([0x09, 0x00]) + bytes(14))                     # SER_C
        m.blocks[0x85] = bytearray(bytes([0x88, 0xB4]) + bytes(14))                     # SYS_C
        m.blocks[0x86] = bytearray(bytes([ckv & 0xFF, ckv >> 8]) + bytes(14))           # CKV
        m.blocks[0x87] = bytearray(16)                                                  # CK
        if mc is None:
            mc = bytes([0xFF, 0xFF, 0xFF, 0x01 if ndef else 0x00, 0x07]) + bytes(11)
        m.blocks[0x88] = bytearray(mc)                                                  # MC
        if kind == "lites":
            m.blocks[0x90] = bytearray(bytes([wcnt & 0xFF, wcnt >> 8 & 0xFF, wcnt >> 16 & 0xFF]) + bytes(13))
            m.blocks[0xA0] = bytearray(16)                                              # CRC_CHECK
        m.set_card_key(password=password, ck_block=ck_block)
        if formatted:
            m.set_ndef(message, writef=writef, rwflag=rwflag, nbr=nbr, nbw=1, nmaxb=nmaxb, ver=ver)
        return m

    @classmethod
    def lites(cls, nmaxb=13, message=b"", nbr=4, ic=0xF1, **kw):
        return cls.lite(nmaxb=nmaxb, message=message, nbr=nbr, ic=ic, kind="lites", **kw)

    def add_aux_service(self, system_code, service_number, nblocks):
        assert self.kind in ("generic", "standard")
        assert system_code == SYS_NDEF or system_code in self.other_systems
        assert 0 <= service_number < 1024 and (system_code != SYS_NDEF or service_number > 0)
        idx = len(self.aux_services)
        self.aux_services.append((system_code, service_number))
        for n in range(nblocks):
            self.blocks[AUX_BASE * (idx + 1) + n] = bytearray([(0x31 + idx * 16 + n * 3 + i) & 0xFF for i in range(16)])
        return idx

    def _space(self, sysidx, sc):
        """0 = the NDEF services' memory, k > 0 = aux service k - 1"""
        code = self.system_codes()[sysidx] if self.kind not in ("lite", "lites") else SYS_NDEF
        if code == SYS_NDEF and sc >> 6 == 0:
            return 0
        return 1 + self.aux_services.index((code, sc >> 6))

    # ---------------------------------------------------------------- memory helpers
    def get_block(self, n):
        b = self.blocks.get(n)
        return bytes(b) if b is not None else None

    def set_block(self, n, data):
        assert len(data) == 16
        self.blocks[n] = bytearray(data)

    def set_ndef(self, message=b"", writef=0, rwflag=1, nbr=None, nbw=None, nmaxb=None, ver=0x10, ln=None):
        old = t3_attr.decode(self.blocks[0]) if 0 in self.blocks else {}
        nbr = old.get("nbr", 1) if nbr is None else nbr
        nbw = old.get("nbw", 1) if nbw is None else nbw
        nmaxb = old.get("nmaxb", 0) if nmaxb is None else nmaxb
        message = bytes(message)
        assert len(message) <= nmaxb * 16
        self.blocks[0] = bytearray(t3_attr.encode(ver, nbr, nbw, nmaxb, writef, rwflag,
                                                  len(message) if ln is None else ln))
        pad = message + bytes(-len(message) % 16)
        for i in range(len(pad) // 16):
            self.blocks[1 + i] = bytearray(pad[i * 16:i * 16 + 16])
        self.ndef_area = set(range(0, nmaxb + 1))

    def image(self):
        return {n: bytes(b) for n, b in self.blocks.items()}

    def restore(self, img):
        self.blocks = {int(n): bytearray(b) for n, b in img.items()}
        self.power_cycle()

    @property
    def mc(self):
        return self.blocks[0x88]

    @property
    def ck_block(self):
        return bytes(self.blocks[0x87])

    @property
    def wcnt(self):
        b = self.blocks[0x90]
        return b[0] | b[1] << 8 | b[2] << 16

    def set_card_key(self, password=None, ck_block=None):
        if ck_block is None:
            ck_block = felica_mac.password_to_ck_block(password or b"")
        assert len(ck_block) == 16
        self.blocks[0x87] = bytearray(ck_block)

    # ---------------------------------------------------------------- discovery
    def system_codes(self):
        if self.kind in ("lite", "lites"):
            codes = [SYS_LITE]
            if self.mc[3] & 0x01:
                codes = [SYS_NDEF, SYS_LITE] if self.ndef_system_first else [SYS_LITE, SYS_NDEF]
            return codes
        if self.ndef_system_first:
            return [SYS_NDEF] + list(self.other_systems)
        return list(self.other_systems) + [SYS_NDEF]

    def idm_for(self, idx):
        if self.kind in ("lite", "lites"):
            return self.idm                      # one physical system answering to two system codes
        return bytes([(self.idm[0] & 0x0F) | (idx << 4)]) + self.idm[1:]

    def _poll(self, sc_hi, sc_lo, rc):
        """-> (idx, payload) or None"""
        for idx, code in enumerate(self.system_codes()):
            if sc_hi in (0xFF, code >> 8) and sc_lo in (0xFF, code & 0xFF):
                rd = b""
                if rc == 1:
                    rd = bytes([code >> 8, code & 0xFF])
                elif rc == 2:
                    rd = b"\x00\x83"             # communication performance: 212 + 424 kbps, automatic detection
                return idx, self.idm_for(idx) + self.pmm + rd
        return None

    def sense(self, target):
        req = bytes(target.sensf_req) if getattr(target, "sensf_req", None) else None
        if req is None:
            req = bytes.fromhex("00FFFF0100") if self.sensf_rd else bytes.fromhex("00FFFF0000")
        if len(req) != 5 or req[0] != 0x00:
            return None
        hit = self._poll(req[1], req[2], req[3])
        if hit is None:
            return None
        self.cur_sys = hit[0]
        return nfc.clf.RemoteTarget(target.brty, sensf_res=bytearray(b"\x01" + hit[1]))

    def target(self):
        return self.sense(nfc.clf.RemoteTarget(self.brty))

    def power_cycle(self):
        self.rc_block = None
        self.ext_auth = False
        self.cur_sys = 0

    # ---------------------------------------------------------------- command dispatch
    def command(self, data):
        data = bytes(data)
        if len(data) < 2 or data[0] != len(data):
            self.cmd_log.append((None, "bad-frame", None))
            return None
        code = data[1]
        if code == 0x00:
            if len(data) != 6:
                return None
            hit = self._poll(data[2], data[3], data[4])
            self.cmd_log.append((0x00, (data[2] << 8 | data[3], data[4]), None))
            if hit is None:
                return None
            self.cur_sys = hit[0]
            # a Polling command returns the card to mode 0 but keeps the Lite session (RC) as the manuals say
            return self._frame(0x01, hit[1])
        if len(data) < 10:
            return None
        idm = data[2:10]
        sysidx = None
        for idx in range(len(self.system_codes())):
            if self.idm_for(idx) == idm:
                sysidx = idx
                break
        if sysidx is None:
            self.cmd_log.append((code, "foreign-idm", None))
            return None
        if self.kind not in ("lite", "lites"):
            if sysidx != self.cur_sys:
                # a system must be activated by Polling before it is addressed
                self.cmd_log.append((code, "inactive-system", None))
                return None
        body = data[10:]
        if code == 0x06:
            return self._frame(0x07, idm + self._read(sysidx, body))
        if code == 0x08:
            return self._frame(0x09, idm + self._write(sysidx, body))
        if self.kind == "standard":
            if code == 0x04 and not body:
                self.cmd_log.append((code, None, None))
                return self._frame(0x05, idm + b"\x00")
            if code == 0x02:
                return self._request_service(sysidx, idm, body)
            if code == 0x0A and len(body) == 2:
                return self._search_service(sysidx, idm, body[0] | body[1] << 8)
            if code == 0x0C and not body:
                self.cmd_log.append((code, None, None))
                codes = self.system_codes()
                return self._frame(0x0D, idm + bytes([len(codes)]) + b"".join(bytes([c >> 8, c & 0xFF]) for c in codes))
        self.cmd_log.append((code, "unsupported", None))
        return None

    @staticmethod
    def _frame(code, payload):
        assert len(payload) + 2 <= 255
        return bytes([len(payload) + 2, code]) + bytes(payload)

    # ---------------------------------------------------------------- services
    def services(self, sysidx):
        codes = self.system_codes()
        out = []
        if self.kind in ("lite", "lites") or codes[sysidx] == SYS_NDEF:
            out = ([SC_RW] if self.rw_service else []) + [SC_RO]
        for code, num in self.aux_services:
            if code == codes[sysidx]:
                out += [num << 6 | 0x09, num << 6 | 0x0B]
        return out

    def _request_service(self, sysidx, idm, body):
        if not body or len(body) != 1 + 2 * body[0] or not 1 <= body[0] <= 32:
            return None
        out = bytearray([body[0]])
        known = set(self.services(sysidx)) | {0x0000}
        for i in range(body[0]):
            sc = body[1 + 2 * i] | body[2 + 2 * i] << 8
            out += b"\x00\x00" if sc in known else b"\xFF\xFF"
        self.cmd_log.append((0x02, body[0], None))
        return self._frame(0x03, idm + bytes(out))

    def _search_service(self, sysidx, idm, index):
        nodes = [bytes([0x00, 0x00, 0xFE, 0xFF])] + [bytes([sc & 0xFF, sc >> 8]) for sc in self.services(sysidx)]
        self.cmd_log.append((0x0A, index, None))
        return self._frame(0x0B, idm + (nodes[index] if index < len(nodes) else b"\xFF\xFF"))

    # ---------------------------------------------------------------- block list parsing
    def _parse_lists(self, sysidx, body, writing):
        """-> (error (sf1, sf2) | None, [block numbers], rest of body)"""
        self._last_scs = ()
        if len(body) < 1:
            return (0xFF, A1), None, None
        ns = body[0]
        max_ns = 1 if self.kind in ("lite", "lites") else 16
        if not 1 <= ns <= max_ns:
            return (0xFF, A1), None, None
        if len(body) < 1 + 2 * ns + 1:
            return (0xFF, A1), None, None
        have = self.services(sysidx)
        scs = []
        for i in range(ns):
            sc = body[1 + 2 * i] | body[2 + 2 * i] << 8
            if sc not in have:
                return (0xFF, A6), None, None
            if writing and sc & 0x3F != 0x09:
                return (0xFF, A6), None, None
            scs.append(sc)
        self.svc_log.append((0x08 if writing else 0x06, tuple(scs)))
        self._last_scs = tuple(scs)
        p = 1 + 2 * ns
        nb = body[p]
        p += 1
        limit = self.max_write if writing else self.max_read
        if not 1 <= nb <= limit:
            return (0xFF, A2), None, None
        numbers = []
        for i in range(nb):
            bit = 1 << (i % 8)
            if p >= len(body):
                return (0xFF, A2), None, None
            b0 = body[p]
            size = 2 if b0 & 0x80 else 3
            if p + size > len(body):
                return (0xFF, A2), None, None
            number = body[p + 1] if size == 2 else body[p + 1] | body[p + 2] << 8
            p += size
            if (b0 & 0x0F) >= ns:
                return (bit, A3), None, None
            if (b0 >> 4) & 0x07:
                return (bit, A7), None, None
            space = self._space(sysidx, scs[b0 & 0x0F])
            numbers.append(number if space == 0 else AUX_BASE * space + number)
        return None, numbers, body[p:]

    # ---------------------------------------------------------------- Read Without Encryption
    def _read(self, sysidx, body):
        err, numbers, rest = self._parse_lists(sysidx, body, writing=False)
        if err is None and rest:
            err = (0xFF, A2)
        if err is None:
            err, payload = (self._read_lite(numbers) if self.kind in ("lite", "lites") else self._read_plain(numbers))
        if err is not None:
            self.cmd_log.append((0x06, numbers, err))
            return bytes(err)
        self.cmd_log.append((0x06, numbers, (0, 0)))
        self.read_log.append(list(numbers))
        return bytes([0, 0, len(numbers)]) + payload

    def _read_plain(self, numbers):
        out = bytearray()
        for i, n in enumerate(numbers):
            if n not in self.blocks:
                return (1 << (i % 8), A8), None
            out += self.blocks[n]
        return None, bytes(out)

    def _read_lite(self, numbers):
        out = bytearray()
        mac_seen = False
        for i, n in enumerate(numbers):
            bit = 1 << (i % 8)
            if mac_seen:
                return (bit, A8), None         # MAC / MAC_A must be the last entry of the list
            if n in (0x81, 0x91):
                if n == 0x91 and self.kind != "lites":
                    return (bit, A8), None
                mac_seen = True
                if self.rc_block is None:
                    mac = bytes(8)
                elif n == 0x81:
                    mac = _mac(self.ck_block, bytes(self.rc_block), bytes(out))
                else:
                    mac = _mac_a_read(self.ck_block, bytes(self.rc_block), tuple(numbers[:i]), bytes(out))
                if n == 0x81:
                    out += mac + bytes(8)
                else:
                    out += mac + bytes(self.blocks[0x90][0:3]) + bytes(5)
                continue
            if n == 0x80:
                out += bytes(16)
                continue
            if n == 0x92 and self.kind == "lites":
                out += bytes([0x01 if self.ext_auth else 0x00]) + bytes(15)
                continue
            if n == 0x87 or n not in self.blocks:
                return (bit, A8), None
            if self.kind == "lites" and n <= 0x0E:
                restr = self.mc[6] | self.mc[7] << 8
                if restr >> n & 1 and not self.ext_auth:
                    return (bit, B1), None
            out += self.blocks[n]
        return None, bytes(out)

    # ---------------------------------------------------------------- Write Without Encryption
    def _write(self, sysidx, body):
        err, numbers, rest = self._parse_lists(sysidx, body, writing=True)
        if err is None and len(rest) != 16 * len(numbers):
            err = (0xFF, A2)
        if err is not None:
            self.cmd_log.append((0x08, numbers, err))
            self.write_log.append((numbers, False))
            self.write_data_log.append((getattr(self, "_last_scs", ()), numbers, None, False))
            return bytes(err)
        datas = [rest[i * 16:i * 16 + 16] for i in range(len(numbers))]
        if self.kind in ("lite", "lites"):
            err, persistent = self._write_lite(numbers, datas)
        else:
            err, persistent = self._write_plain(numbers, datas)
        self.cmd_log.append((0x08, numbers, err or (0, 0)))
        self.write_log.append((list(numbers), err is None))
        self.write_data_log.append((self._last_scs, list(numbers), [bytes(d) for d in datas], err is None))
        if err is not None:
            return bytes(err)
        if persistent:
            self.on_state_change()
        return b"\x00\x00"

    def _write_plain(self, numbers, datas):
        for i, n in enumerate(numbers):
            if n not in self.blocks:
                return (1 << (i % 8), A8), False
        for n, d in zip(numbers, datas):
            self.blocks[n] = bytearray(d)
        return None, True

    def _lite_block_writable(self, n, with_mac):
        """-> error code or None"""
        mc = self.mc
        if n <= 0x0E:
            if not (mc[0] | mc[1] << 8) >> n & 1:
                return A8
            if self.kind == "lites":
                if (mc[8] | mc[9] << 8) >> n & 1 and not self.ext_auth:
                    return B1
                if (mc[10] | mc[11] << 8) >> n & 1 and not with_mac:
                    return B2
            return None
        if n == 0x80:
            return None
        if n in LITE_SYS_WRITABLE_WHEN_UNLOCKED:
            if mc[2] == 0xFF:
                return None
            if self.kind == "lites" and n in (0x86, 0x87) and mc[5] & 1:
                if not self.ext_auth:
                    return B1
                return None if with_mac else B2
            return A8
        if n == 0x92 and self.kind == "lites":
            return None if with_mac else B2
        return A8

    def _write_lite(self, numbers, datas):
        with_mac = False
        if len(numbers) == 2:
            if self.kind != "lites" or numbers[1] != 0x91 or numbers[0] == 0x91:
                return (0x02, A8), False
            with_mac = True
        n, d = numbers[0], datas[0]
        if n in (0x81, 0x91):
            return (0x01, A8), False
        code = self._lite_block_writable(n, with_mac)
        if code is not None:
            return (0x01, code), False
        if with_mac:
            maca = datas[1]
            if self.rc_block is None:
                return (0x02, B2), False
            cur = bytes(self.blocks[0x90][0:3])
            if self.wcnt >= self.wcnt_limit:
                return (0x02, B2), False
            want = _mac_a_write(self.ck_block, bytes(self.rc_block), bytes(cur), n, bytes(d))
            if bytes(maca[0:8]) != want or bytes(maca[8:11]) != cur:
                return (0x02, B2), False
        # ---- apply
        persistent = True
        if n == 0x80:
            self.rc_block = bytes(d)           # new challenge: new session key, external authentication is lost
            self.ext_auth = False
            persistent = False
        elif n == 0x92:
            self.ext_auth = (d[0] == 0x01) and with_mac
            persistent = False
        elif n == 0x88:
            old = self.mc
            new = bytearray(d)
            sp = (old[0] | old[1] << 8) & (new[0] | new[1] << 8)     # permission bits only go 1 -> 0
            new[0], new[1] = sp & 0xFF, sp >> 8
            self.blocks[0x88] = new
        else:
            self.blocks[n] = bytearray(d)
        counted = with_mac
        if self.kind == "lites" and not with_mac:
            counted = (self.wcnt_counts in ("nv", "all") and persistent) or (self.wcnt_counts == "all" and n == 0x80)
        if counted and (with_mac or self.wcnt < 0xFFFFFF):
            w = self.wcnt + 1
            self.blocks[0x90][0:3] = bytes([w & 0xFF, w >> 8 & 0xFF, w >> 16 & 0xFF])
            persistent = True
        return None, persistent


# ---- conformance self-test: literal transcripts from /repo/tests/test_tag_tt3*.py ------------------------------
def selftest():
    bad = []
    H = bytes.fromhex
    idm = H("0102030405060708")

    def expect(model, cmd, rsp, what):
        got = model.command(H(cmd.replace(" ", "")))
        want = H(rsp.replace(" ", "")) if rsp is not None else None
        if got != want:
            bad.append("%s: %s -> %s, expected %s" % (what, cmd, got.hex() if got else got, rsp))

    # generic tag, test_ndef_write transcript (Nbr 2, Nbw 2, Nmaxb 3)
    m = T3TModel.generic(2, 2, 3, extra=0, idm=idm, pmm=H("FFFFFFFFFFFFFFFF"))
    m.set_block(0, H("10020200030000000000010000000018"))
    expect(m, "06 00 12fc 0000", "12 01 0102030405060708 FFFFFFFFFFFFFFFF", "polling")
    expect(m, "06 00 ffff 0100", "14 01 0102030405060708 FFFFFFFFFFFFFFFF 12FC", "polling rc=1")
    expect(m, "06 00 1234 0000", None, "polling other system")
    expect(m, "10 06 0102030405060708 010b00 018000", "1d 07 0102030405060708 0000 01 10020200030000000000010000000018",
           "read attr")
    expect(m, "20 08 0102030405060708 010900 018000 1002020003000000000f010000000027", "0c 09 0102030405060708 0000",
           "write attr")
    expect(m, "32 08 0102030405060708 010900 0280018002 d10222537091010e55036e66632d666f"
              "72756d2e6f726751010c5402656e4e46", "0c 09 0102030405060708 0000", "write 2 blocks")
    expect(m, "20 08 0102030405060708 010900 018003 4320466f72756d000000000000000000", "0c 09 0102030405060708 0000",
           "write block 3")
    expect(m, "20 08 0102030405060708 010900 018000 1002020003000000000001000027003f", "0c 09 0102030405060708 0000",
           "commit")
    expect(m, "12 06 0102030405060708 010b00 0280018002",
           "2d 07 0102030405060708 0000 02 d10222537091010e55036e66632d666f72756d2e6f726751010c5402656e4e46",
           "read back")
    expect(m, "11 06 0102030405060708 010b00 01000300", "1d 07 0102030405060708 0000 01 4320466f72756d000000000000000000",
           "3-byte block element")
    r = m.command(H("100601020304050607080" "10b00018004"))
    if r is None or r[0] != 12 or r[10] == 0:
        bad.append("read of a missing block must return status flags")
    r = m.command(H("140601020304050607080" "10b0003800080018002"))
    if r is None or r[0] != 12 or r[10:12] != b"\xFF\xA2":
        bad.append("too many blocks must return FFA2, got %r" % (r,))
    st, octets, a = t3_attr.ref_read(m.get_block)
    if st != "ok" or len(octets) != 0x27:
        bad.append("reference reader on the written memory: %s" % st)

    # FeliCa Lite authentication transcript: key '0123456789abcdef', rc = 00..0f, ID block zero -> cc97f1b97b8bbc79
    m = T3TModel.lite(idm=idm, password=b"0123456789abcdef")
    m.set_block(0x82, bytes(16))
    expect(m, "20 08 0102030405060708 010900 018080 07060504 03020100 0f0e0d0c 0b0a0908", "0c 09 0102030405060708 0000",
           "write RC")
    expect(m, "12 06 0102030405060708 010b00 0280828081",
           "2d 07 0102030405060708 0000 02" + "00" * 16 + "cc97f1b97b8bbc79" + "00" * 8, "read ID+MAC")
    m.set_block(0, H("10040100030000000000010000270040"))
    expect(m, "12 06 0102030405060708 010b00 0280008081",
           "2d 07 0102030405060708 0000 02 10040100030000000000010000270040 af36b1f1524e3eb9" + "00" * 8,
           "read block 0 + MAC")
    # Lite-S: external authentication transcript (WCNT 00 FE FF), STATE read back with MAC
    m = T3TModel.lites(idm=idm, password=b"0123456789abcdef", wcnt=0xFFFE00)
    m.set_block(0x82, H("01020304050607080000000000000000"))
    m.blocks[0x90][0:3] = H("00feff")
    expect(m, "20 08 0102030405060708 010900 018080 07060504 03020100 0f0e0d0c 0b0a0908", "0c 09 0102030405060708 0000",
           "lite-s write RC")
    expect(m, "12 06 0102030405060708 010b00 0280828081",
           "2d 07 0102030405060708 0000 02 01020304050607080000000000000000 91aec5b6d9b3b12d" + "00" * 8,
           "lite-s read ID+MAC")
    expect(m, "10 06 0102030405060708 010b00 018090", "1d 07 0102030405060708 0000 01 00feff00" + "00" * 12, "read WCNT")
    expect(m, "32 08 0102030405060708 010900 0280928091 01000000 00000000 00000000 00000000"
              "17c19e3b bdc3e8bd 00feff00 00000000", "0c 09 0102030405060708 0000", "write STATE with MAC_A")
    if not m.ext_auth or m.wcnt != 0xFFFE01:
        bad.append("external authentication / WCNT increment")
    expect(m, "12 06 0102030405060708 010b00 0280928081",
           "2d 07 0102030405060708 0000 02 01" + "00" * 15 + "bd73eb7294a00279" + "00" * 8, "read STATE + MAC")
    expect(m, "32 08 0102030405060708 010900 0280928091 01000000 00000000 00000000 00000000"
              "17c19e3b bdc3e8bd 00feff00 00000000", "0c 09 0102030405060708 02b2", "replayed MAC_A is refused")
    return bad


class Tamper(object):
    """Man-in-the-middle stage in front of a model: fn(n, command, genuine_response) -> response to deliver
    (bytes, b"" or None for silence); n counts the commands seen since `enabled` was last set to True.
    The genuine model still executes every command.  Everything else is delegated to the inner model.
    sense_fn(target, genuine RemoteTarget | None) -> RemoteTarget | None replaces the discovery answer (SENSF_RES)
    independently of `enabled`."""

    def __init__(self, inner, fn, enabled=True, sense_fn=None):
        self.inner = inner
        self.fn = fn
        self.sense_fn = sense_fn
        self.n = 0
        self._enabled = enabled
        self.on_state_change = lambda: None
        inner.on_state_change = lambda: self.on_state_change()

    @property
    def enabled(self):
        return self._enabled

    @enabled.setter
    def enabled(self, v):
        self._enabled = v
        self.n = 0

    @property
    def brty(self):
        return self.inner.brty

    any_bitrate = True

    def sense(self, target):
        found = self.inner.sense(target)
        if self.sense_fn is not None:
            return self.sense_fn(target, found)
        return found

    def target(self):
        return self.sense(nfc.clf.RemoteTarget(self.inner.brty))

    def power_cycle(self):
        self.inner.power_cycle()

    def command(self, data):
        rsp = self.inner.command(data)
        if not self._enabled:
            return rsp
        n = self.n
        self.n += 1
        return self.fn(n, bytes(data), rsp)
