"""FakeNet - an in-memory UDP/IP "air" for the real nfc.clf.udp driver.

nfc.clf.udp talks to its peer with ASCII datagrams  b"<brty> <hex>"  (e.g. b"106A 26") and b"RFOFF" (field
switched off).  It uses exactly these names of three standard modules:

    socket.socket(AF_INET, SOCK_DGRAM) .bind .sendto .recvfrom .getsockname .close
    socket.gethostbyname, socket.getnameinfo, socket.NI_NUMERICHOST, socket.error, socket.AF_INET, socket.SOCK_DGRAM
    select.select([sock], [], [], wait)
    time.time()

FakeNet provides replacements for the three module objects (`net.socket`, `net.select`, `net.time`) and patches
them into nfc.clf.udp (module attributes; the driver code itself is untouched and runs for real: sense_tta/ttb/
ttf, listen_tta/ttb/ttf/dep, PSL handling, send_cmd_recv_rsp / send_rsp_recv_cmd, RFOFF on mute).  Two complete
stacks (ContactlessFrontend + nfc.dep + LLC ...) can then run against each other in one process, one thread
per stack, without real ports (no collisions between shards).

Quick reference
---------------
    net = FakeNet(clock="virtual")            # or clock="real"
    with net.installed():                     # patches nfc.clf.udp.{socket,select,time} and, for the clock only,
        ...                                   # nfc.dep.time, nfc.llcp.llc.time, nfc.clf.time (extra_time_modules=)
        clf = make_clf(net, "udp:localhost:54321")        # real ContactlessFrontend / real nfc.clf.udp.Device
        res = run_llcp_pair(net, {"miu": 1000}, {"lto": 200}, on_connect_i=f, on_connect_t=g)

  Only one FakeNet can be installed in a process at a time (module attributes are global).

Radio frames
    net.frames          list of Frame, every datagram handed to sendto() in order, with
                        .n .t (net clock) .src .dst .raw (bytes as sent) .fate .delivered (bytes or None)
                        .brty ("106A"...) .payload (bytes from the hex part) .rfoff  (parsed leniently, None if
                        the datagram is not well-formed) .to_listener (True: addressed to a socket that was bound
                        with bind() = initiator->target direction, False: target->initiator)
                        fate in "delivered" | "dropped" | "replaced" | "noport" (nobody bound: lost, as in UDP)
    net.observers       list of callables(frame) called for every frame (after its fate is known)
    net.hook            callable(frame) -> None (deliver unchanged) | "drop" | bytes (deliver these instead)
                        | list of bytes (deliver several datagrams)             -> drop / corrupt / replace
    net.sock_fault      callable(op, sock, args) -> None | Exception instance (raised from the call) |
                        ("return", value); op in "sendto" | "recvfrom" | "select" | "bind"  -> socket errors
    net.on_bind         callable(sock, addr) after a successful bind (scripted initiators start here)
    net.add_responder(addr, fn)   a scripted station: fn(data, src, sock) is called synchronously for every
                        datagram delivered to addr and returns an iterable of datagrams (bytes, sent back to src,
                        or (bytes, dst)); returns the station's FakeSocket (use .sendto() to speak first)
  hook / observers / responders run with the net lock held: they must not block.

Clock
    clock="real":    net.time.time() is the real clock, select() blocks on a condition variable with the real
                     time-out.  For runs where real threads and real time matter.
    clock="virtual": net.time is a logical clock shared by every patched module.  A select()/sleep() with a
                     time-out blocks (really, on a condition variable) until data arrives or until *every
                     participant thread* is blocked inside the net; then the clock jumps to the earliest
                     deadline and exactly that waiter times out (discrete-event simulation).  Protocol time-outs
                     therefore never depend on scheduling or machine load (an RWT of 0.3 ms cannot fire while
                     the peer is still computing) and waiting costs no wall time.
                     Participants are the threads started with net.spawn(fn) / net.spawn_all([fn, ...]) (use the
                     latter for threads that talk to each other: all are registered before the first runs) or
                     inside `with net.participant():`.
                     A thread that is not a participant and calls into the net is treated as one for the
                     duration of that call (single-threaded scripted use needs no registration).
                     If all participants wait without any deadline the infinite waits raise OSError(EDEADLK)
                     and net.deadlocks is incremented.
  Every wait is bounded in real time: after `stall_limit` real seconds without progress the net aborts
  (net.aborted = reason): finite waits time out immediately, infinite waits raise OSError(EIO).  A harness
  treats net.aborted / net.deadlocks as *inconclusive*, never as a verdict.  net.abort(reason) does the same
  on request (watchdogs).

Addresses: every host name resolves to a fake IPv4 address ("localhost" -> 127.0.0.1, dotted quads unchanged);
all stations live on one host: a socket bound to 0.0.0.0 is reached under any address and answers from
127.0.0.1.  An unbound socket gets an ephemeral port (49152+) on its first sendto, as the OS would do.
recvfrom(n) truncates to n bytes like UDP.  bind() to a used port raises EADDRINUSE.

Helpers
    make_clf(net, path)      real nfc.ContactlessFrontend(path) on the installed net
    run_llcp_pair(net, opts_initiator, opts_target, on_connect_i, on_connect_t, terminate, ...)
                             two real clf.connect(llcp=...) calls in two participant threads; see its docstring
    parse_datagram(raw)      -> (brty, payload, rfoff) lenient parser used for Frame
"""
import binascii
import collections
import contextlib
import errno
import os
import socket as _real_socket
import threading
import time as _real_time

_POLL = 0.05          # real seconds between liveness checks of a blocked waiter


def parse_datagram(raw):
    """(brty, payload bytes, rfoff) of a driver datagram; (None, None, False) if it is not well-formed"""
    raw = bytes(raw)
    if raw.startswith(b"RFOFF"):
        return None, None, True
    parts = raw.split()
    if len(parts) == 1 and len(parts[0]) == 4:
        parts.append(b"")
    if len(parts) != 2:
        return None, None, False
    try:
        return parts[0].decode("ascii"), binascii.unhexlify(parts[1]), False
    except (ValueError, UnicodeDecodeError):
        return None, None, False


class Frame(object):
    __slots__ = ("n", "t", "src", "dst", "raw", "fate", "delivered", "brty", "payload", "rfoff", "to_listener")

    def __init__(self, n, t, src, dst, raw, to_listener):
        self.n, self.t, self.src, self.dst, self.raw = n, t, src, dst, bytes(raw)
        self.fate = None
        self.delivered = None
        self.to_listener = to_listener
        self.brty, self.payload, self.rfoff = parse_datagram(raw)

    def __repr__(self):
        return "<Frame %d %s %s:%s->%s:%s %s %r>" % ((self.n, ">" if self.to_listener else "<") + tuple(self.src)
                                                     + tuple(self.dst) + (self.fate, self.raw[:60]))

    def as_dict(self):
        return {"n": self.n, "t": round(self.t, 6), "src": list(self.src), "dst": list(self.dst), "raw": self.raw,
                "fate": self.fate, "dir": ">" if self.to_listener else "<"}


class _Waiter(object):
    __slots__ = ("ready", "deadline", "since")

    def __init__(self, ready, deadline):
        self.ready, self.deadline, self.since = ready, deadline, _real_time.time()


class FakeSocket(object):
    def __init__(self, net, family, type_, proto=0):
        self.net = net
        self.family, self.type, self.proto = family, type_, proto
        self.addr = None            # (host, port) once bound (explicitly or by the first sendto)
        self.explicit = False       # bound through bind()
        self.queue = collections.deque()
        self.closed = False
        self.handler = None         # responder callback
        self._timeout = None
        with net.cv:
            net._sock_count += 1
            self.id = net._sock_count

    def __repr__(self):
        return "<FakeSocket #%d %s>" % (self.id, self.addr)

    # -- socket API used by the driver ------------------------------------
    def fileno(self):
        return -1 if self.closed else 1000 + self.id

    def getsockname(self):
        if self.closed:
            raise OSError(errno.EBADF, os.strerror(errno.EBADF))
        return self.addr if self.addr else ("0.0.0.0", 0)

    def bind(self, addr):
        net = self.net
        with net.cv:
            net._fault("bind", self, (addr,))
            if self.closed:
                raise OSError(errno.EBADF, os.strerror(errno.EBADF))
            if self.addr is not None:
                raise OSError(errno.EINVAL, os.strerror(errno.EINVAL))
            host, port = addr
            host = net.resolve(host) if host not in ("", "0.0.0.0") else "0.0.0.0"
            port = int(port)
            if port == 0:
                port = net._ephemeral()
            elif port in net._ports:
                raise OSError(errno.EADDRINUSE, os.strerror(errno.EADDRINUSE))
            self.addr = (host, port)
            self.explicit = True
            net._ports[port] = self
            net.cv.notify_all()
            if net.on_bind is not None:
                net.on_bind(self, self.addr)

    def sendto(self, data, *args):
        addr = args[-1]
        net = self.net
        if not isinstance(addr, tuple):
            raise TypeError("sendto(): AF_INET address must be tuple, not %s" % type(addr).__name__)
        with net.cv:
            r = net._fault("sendto", self, (data, addr))
            if r is not None:
                return r[1]
            if self.closed:
                raise OSError(errno.EBADF, os.strerror(errno.EBADF))
            if self.addr is None:
                self.addr = ("0.0.0.0", net._ephemeral())
                net._ports[self.addr[1]] = self
            return net._transmit(self, bytes(data), (net.resolve(addr[0]), int(addr[1])))

    def recvfrom(self, bufsize, flags=0):
        net = self.net
        with net.cv:
            r = net._fault("recvfrom", self, (bufsize,))
            if r is not None:
                return r[1]
            if self.closed:
                raise OSError(errno.EBADF, os.strerror(errno.EBADF))
            if not self.queue:
                if self._timeout == 0:
                    raise BlockingIOError(errno.EAGAIN, os.strerror(errno.EAGAIN))
                deadline = None if self._timeout is None else net._now() + self._timeout
                if not net._wait(lambda: bool(self.queue) or self.closed, deadline):
                    raise _real_socket.timeout("timed out")
                if not self.queue:
                    raise OSError(errno.EBADF, os.strerror(errno.EBADF))
            data, src = self.queue.popleft()
            return data[:bufsize], src

    def recv(self, bufsize, flags=0):
        return self.recvfrom(bufsize, flags)[0]

    def settimeout(self, t):
        self._timeout = t

    def setblocking(self, flag):
        self._timeout = None if flag else 0

    def setsockopt(self, *a):
        pass

    def close(self):
        net = self.net
        with net.cv:
            if not self.closed:
                self.closed = True
                if self.addr and net._ports.get(self.addr[1]) is self:
                    del net._ports[self.addr[1]]
                self.queue.clear()
                net.cv.notify_all()


class _SocketModule(object):
    """stands in for the `socket` module inside nfc.clf.udp"""
    AF_INET = _real_socket.AF_INET
    SOCK_DGRAM = _real_socket.SOCK_DGRAM
    SOCK_STREAM = _real_socket.SOCK_STREAM
    NI_NUMERICHOST = _real_socket.NI_NUMERICHOST
    NI_NUMERICSERV = _real_socket.NI_NUMERICSERV
    error = OSError
    timeout = _real_socket.timeout
    gaierror = _real_socket.gaierror
    herror = _real_socket.herror

    def __init__(self, net):
        self._net = net

    def socket(self, family=_real_socket.AF_INET, type=_real_socket.SOCK_STREAM, proto=0):
        if family != _real_socket.AF_INET or type != _real_socket.SOCK_DGRAM:
            raise OSError(errno.EAFNOSUPPORT, "FakeNet only provides AF_INET/SOCK_DGRAM")
        return FakeSocket(self._net, family, type, proto)

    def gethostbyname(self, host):
        return self._net.resolve(host)

    def getnameinfo(self, sockaddr, flags):
        host, port = sockaddr[0], sockaddr[1]
        return self._net.resolve(host), str(int(port))

    def __getattr__(self, name):
        v = getattr(_real_socket, name)
        if callable(v) and not isinstance(v, type):
            raise AttributeError("FakeNet does not provide socket.%s" % name)
        return v


class _SelectModule(object):
    error = OSError

    def __init__(self, net):
        self._net = net

    def select(self, rlist, wlist, xlist, timeout=None):
        return self._net._select(rlist, wlist, xlist, timeout)


class _TimeModule(object):
    def __init__(self, net):
        self._net = net

    def time(self):
        return self._net.now()

    def monotonic(self):
        return self._net.now()

    def sleep(self, seconds):
        self._net._sleep(seconds)

    def __getattr__(self, name):
        return getattr(_real_time, name)


class FakeNet(object):
    def __init__(self, clock="virtual", start=1000.0, keep_frames=True, stall_limit=20.0):
        assert clock in ("virtual", "real")
        self.clock = clock
        self.cv = threading.Condition(threading.RLock())
        self._vnow = float(start)
        self._ports = {}
        self._sock_count = 0
        self._next_port = 49152
        self._hosts = {"localhost": "127.0.0.1"}
        self._blocked = {}              # thread -> _Waiter
        self._participants = set()      # thread objects
        self.frames = []
        self.keep_frames = keep_frames
        self.n_frames = 0
        self.observers = []
        self.hook = None
        self.sock_fault = None
        self.on_bind = None
        self.aborted = None
        self.deadlocks = 0
        self.jumps = 0                  # virtual clock advances (time-outs that really expired)
        self.stall_limit = stall_limit
        self.socket = _SocketModule(self)
        self.select = _SelectModule(self)
        self.time = _TimeModule(self)
        self._patched = []
        self.is_installed = False

    # -- installation -------------------------------------------------------
    def install(self, extra_time_modules=None):
        """patch nfc.clf.udp (socket, select, time) and the `time` name of the extra modules (default:
        nfc.dep, nfc.llcp.llc, nfc.clf) so that all protocol time-outs use the net clock"""
        import nfc.clf
        import nfc.clf.udp
        import nfc.dep
        import nfc.llcp.llc
        if getattr(FakeNet, "_current", None) is not None:
            raise RuntimeError("another FakeNet is installed")
        if extra_time_modules is None:
            extra_time_modules = (nfc.dep, nfc.llcp.llc, nfc.clf)
        u = nfc.clf.udp
        for mod, name, new in [(u, "socket", self.socket), (u, "select", self.select), (u, "time", self.time)] + \
                [(m, "time", self.time) for m in extra_time_modules]:
            self._patched.append((mod, name, getattr(mod, name)))
            setattr(mod, name, new)
        FakeNet._current = self
        self.is_installed = True
        return self

    def uninstall(self):
        for mod, name, old in reversed(self._patched):
            setattr(mod, name, old)
        self._patched = []
        if getattr(FakeNet, "_current", None) is self:
            FakeNet._current = None
        self.is_installed = False

    @contextlib.contextmanager
    def installed(self, extra_time_modules=None):
        self.install(extra_time_modules)
        try:
            yield self
        finally:
            self.uninstall()

    # -- names ----------------------------------------------------------------
    def resolve(self, host):
        host = host.decode() if isinstance(host, bytes) else str(host)
        if host in ("", "0.0.0.0"):
            return "0.0.0.0"
        parts = host.split(".")
        if len(parts) == 4 and all(p.isdigit() and int(p) < 256 for p in parts):
            return host
        with self.cv:
            if host not in self._hosts:
                self._hosts[host] = "10.0.%d.%d" % (len(self._hosts) // 250, len(self._hosts) % 250 + 1)
            return self._hosts[host]

    def _ephemeral(self):
        while self._next_port in self._ports:
            self._next_port += 1
        p = self._next_port
        self._next_port += 1
        return p

    def bound(self, port):
        """the socket bound to this port, or None"""
        with self.cv:
            return self._ports.get(port)

    # -- clock ------------------------------------------------------------------
    def now(self):
        if self.clock == "real":
            return _real_time.time()
        return self._vnow

    _now = now

    # -- faults -----------------------------------------------------------------
    def _fault(self, op, sock, args):
        if self.sock_fault is None:
            return None
        r = self.sock_fault(op, sock, args)
        if r is None:
            return None
        if isinstance(r, BaseException):
            raise r
        return r                        # ("return", value)

    # -- transmission -------------------------------------------------------------
    def _transmit(self, sock, data, dst):
        """cv held.  returns the byte count reported to the sender"""
        src = sock.addr if sock.addr[0] != "0.0.0.0" else ("127.0.0.1", sock.addr[1])
        rcv = self._ports.get(dst[1])
        if rcv is not None and (rcv.closed or (rcv.addr[0] not in ("0.0.0.0", dst[0]) and dst[0] != "0.0.0.0")):
            rcv = None
        self.n_frames += 1
        f = Frame(self.n_frames, self.now(), src, dst, data, bool(rcv is not None and rcv.explicit))
        deliver = [data]
        f.fate = "delivered"
        if self.hook is not None:
            h = self.hook(f)
            if h == "drop":
                deliver, f.fate = [], "dropped"
            elif isinstance(h, (bytes, bytearray)):
                deliver, f.fate = [bytes(h)], "replaced"
            elif isinstance(h, (list, tuple)):
                deliver, f.fate = [bytes(x) for x in h], "replaced"
        if rcv is None:
            deliver, f.fate = [], ("noport" if f.fate == "delivered" else f.fate)
        f.delivered = deliver[0] if len(deliver) == 1 else (None if not deliver else b"|".join(deliver))
        if self.keep_frames:
            self.frames.append(f)
        for ob in self.observers:
            ob(f)
        for d in deliver:
            if rcv.handler is not None:
                for out in (rcv.handler(d, src, rcv) or ()):
                    if isinstance(out, tuple):
                        rcv.sendto(out[0], out[1])
                    else:
                        rcv.sendto(out, src)
            else:
                rcv.queue.append((d, src))
        if deliver:
            self.cv.notify_all()
        return len(data)

    def add_responder(self, addr, fn):
        s = FakeSocket(self, _real_socket.AF_INET, _real_socket.SOCK_DGRAM)
        s.bind(addr)
        s.explicit = False          # a scripted station is not "the listener" for direction labelling
        s.handler = fn
        return s

    # -- participants ---------------------------------------------------------------
    @contextlib.contextmanager
    def participant(self):
        t = threading.current_thread()
        with self.cv:
            self._participants.add(t)
        try:
            yield
        finally:
            with self.cv:
                self._participants.discard(t)
                self.cv.notify_all()

    def spawn(self, fn, name=None):
        """start fn() in a daemon thread that is a participant from before its start until it returns"""
        def body():
            try:
                fn()
            finally:
                with self.cv:
                    self._participants.discard(th)
                    self.cv.notify_all()
        th = threading.Thread(target=body, name=name, daemon=True)
        with self.cv:
            self._participants.add(th)
        th.start()
        return th

    def spawn_all(self, fns, names=None):
        """spawn several threads; all of them are participants before the first one runs (otherwise the first would
        be the only participant for a moment and its time-outs would expire at once)"""
        with self.cv:
            return [self.spawn(fn, (names or {}).get(i) if isinstance(names, dict) else (names[i] if names else None))
                    for i, fn in enumerate(fns)]

    def abort(self, reason="aborted"):
        with self.cv:
            if self.aborted is None:
                self.aborted = reason
            self.cv.notify_all()

    # -- blocking ---------------------------------------------------------------------
    def _quiescent(self):
        """cv held: True if every live participant is blocked in the net and none of them can proceed"""
        for p in list(self._participants):
            if p.ident is not None and not p.is_alive():
                self._participants.discard(p)
                continue
            w = self._blocked.get(p)
            if w is None or w.ready():
                return False
        for p, w in self._blocked.items():          # temporary participants (callers that are not registered)
            if w.ready():
                return False
        return True

    def _wait(self, ready, deadline):
        """cv held.  Block until ready() (-> True) or the deadline on the net clock passed (-> False).
        deadline None = wait for ever (may raise OSError on deadlock / abort)."""
        me = threading.current_thread()
        w = _Waiter(ready, deadline)
        outer = self._blocked.get(me)
        self._blocked[me] = w
        try:
            while True:
                if ready():
                    return True
                if self.aborted is not None:
                    if deadline is None:
                        raise OSError(errno.EIO, "FakeNet aborted: %s" % self.aborted)
                    if self.clock == "virtual":
                        self._vnow = max(self._vnow, deadline)
                    return False
                if self.clock == "real":
                    left = deadline - _real_time.time() if deadline is not None else _POLL
                    if left <= 0:
                        return False
                    self.cv.wait(min(left, _POLL))
                else:
                    if deadline is not None and self._vnow >= deadline:
                        return False
                    if self._quiescent():
                        cand = [x.deadline for x in self._blocked.values() if x.deadline is not None]
                        if not cand:
                            self.deadlocks += 1
                            if deadline is None:
                                raise OSError(errno.EDEADLK, "FakeNet: every participant waits without deadline")
                        else:
                            t = min(cand)
                            if t > self._vnow:
                                self._vnow = t
                                self.jumps += 1
                            self.cv.notify_all()
                            if deadline is not None and self._vnow >= deadline:
                                return False
                    self.cv.wait(_POLL)
                if _real_time.time() - w.since > self.stall_limit and self.aborted is None:
                    self.aborted = "stall: a wait exceeded %.0f s of real time" % self.stall_limit
                    self.cv.notify_all()
        finally:
            if outer is None:
                self._blocked.pop(me, None)
            else:
                self._blocked[me] = outer
            self.cv.notify_all()

    def _select(self, rlist, wlist, xlist, timeout):
        with self.cv:
            r = self._fault("select", rlist[0] if rlist else None, (rlist, wlist, xlist, timeout))
            if r is not None:
                return r[1]
            if timeout is not None:
                timeout = float(timeout)
                if timeout < 0:
                    raise ValueError("timeout must be non-negative")
            for s in list(rlist) + list(wlist) + list(xlist):
                if not isinstance(s, FakeSocket):
                    raise TypeError("FakeNet select() only handles FakeSocket objects")
                if s.closed:
                    raise ValueError("file descriptor cannot be a negative integer (-1)")

            def readable():
                return [s for s in rlist if s.queue]
            if wlist or readable() or timeout == 0:
                return readable(), list(wlist), []
            deadline = None if timeout is None else self.now() + timeout
            self._wait(lambda: bool(readable()) or any(s.closed for s in rlist), deadline)
            return readable(), [], []

    def _sleep(self, seconds):
        if self.clock == "real":
            _real_time.sleep(max(0.0, seconds))
            return
        if seconds <= 0:
            return
        with self.cv:
            deadline = self._vnow + seconds
            self._wait(lambda: False, deadline)


# ---------------------------------------------------------------------------------------------------
def make_clf(net, path="udp:localhost:54321"):
    """a real nfc.ContactlessFrontend whose device is a real nfc.clf.udp.Device created through
    nfc.clf.device.connect(path) -> nfc.clf.udp.init(host, port) on the installed fake net"""
    import nfc
    import nfc.clf.udp
    if not net.is_installed:
        raise RuntimeError("FakeNet is not installed")
    clf = nfc.ContactlessFrontend(path)
    assert type(clf.device) is nfc.clf.udp.Device
    return clf


class PairResult(object):
    """what run_llcp_pair observed; sides "i" (initiator) and "t" (target)"""

    def __init__(self):
        self.clf = {"i": None, "t": None}
        self.llc = {"i": None, "t": None}          # the LLC passed to on-connect (None = never connected)
        self.connected = {"i": 0, "t": 0}          # number of on-connect calls
        self.released = {"i": 0, "t": 0}
        self.ret = {"i": None, "t": None}          # return value of clf.connect()
        self.exc = {"i": None, "t": None}          # exception that escaped clf.connect() (BaseException)
        self.exc_cb = {"i": None, "t": None}       # exception raised by a harness callback (harness bug)
        self.polls = {"i": 0, "t": 0}              # calls of the terminate callback
        self.inconclusive = None                   # reason, or None
        self.stuck = []                            # sides whose thread did not return
        self.wall = 0.0

    @property
    def both_connected(self):
        return bool(self.connected["i"] and self.connected["t"])


def run_llcp_pair(net, opts_initiator=None, opts_target=None, on_connect_i=None, on_connect_t=None,
                  terminate=None, path="udp:localhost:54321", watchdog=20.0, max_polls=20000,
                  connect_i=None, connect_t=None, close=True):
    """Run two real `clf.connect(llcp={...}, terminate=...)` calls, one per participant thread, on the installed
    net until both return.

    opts_*        llcp option dictionaries ('role' defaults to 'initiator' / 'target'; 'on-startup' etc. allowed).
    on_connect_*  callable(llc) called as the 'on-connect' callback in the stack's own thread; its return value
                  is the callback's return value (default: True = run the link loop inside connect()).
    terminate     callable(result, side) -> bool, polled by both stacks through connect()'s `terminate` callback;
                  default: true as soon as both on-connect callbacks have returned.
    connect_*     optional replacement for the connect call: callable(clf, opts, terminate_callback) -> value
                  (lower-level activation); default clf.connect(llcp=opts, terminate=terminate_callback).
    Bounds: the terminate callback turns true after `max_polls` calls, after `watchdog` real seconds, or when the
    net aborted; threads are joined with a time-out, then the net is aborted.  Any of these sets
    result.inconclusive.  Exceptions escaping connect() are recorded in result.exc, not raised.
    """
    import nfc  # noqa: F401
    res = PairResult()
    t0 = _real_time.time()
    if terminate is None:
        def terminate(r, side):
            return r._cb_done["i"] and r._cb_done["t"]
    res._cb_done = {"i": False, "t": False}
    opts = {"i": dict(opts_initiator or {}), "t": dict(opts_target or {})}
    opts["i"].setdefault("role", "initiator")
    opts["t"].setdefault("role", "target")
    user_cb = {"i": on_connect_i, "t": on_connect_t}
    user_connect = {"i": connect_i, "t": connect_t}

    def mk(side):
        def on_connect(llc):
            res.llc[side] = llc
            res.connected[side] += 1
            try:
                rv = True if user_cb[side] is None else user_cb[side](llc)
            except Exception as e:              # a harness callback failed: stop, report
                res.exc_cb[side] = e
                rv = True
            res._cb_done[side] = True
            return rv

        prev_release = opts[side].get("on-release")

        def on_release(llc):
            res.released[side] += 1
            return prev_release(llc) if prev_release else True

        def term():
            res.polls[side] += 1
            if net.aborted is not None:
                return True
            if res.polls[side] > max_polls:
                res.inconclusive = res.inconclusive or "terminate polled more than %d times (%s)" % (max_polls, side)
                return True
            if _real_time.time() - t0 > watchdog:
                res.inconclusive = res.inconclusive or "watchdog %.0fs (%s)" % (watchdog, side)
                return True
            if res.exc_cb["i"] or res.exc_cb["t"]:
                return True
            try:
                return bool(terminate(res, side))
            except Exception as e:
                res.exc_cb[side] = e
                return True

        o = opts[side]
        o["on-connect"] = on_connect
        o["on-release"] = on_release

        def body():
            try:
                clf = make_clf(net, path)
                res.clf[side] = clf
                if user_connect[side] is not None:
                    res.ret[side] = user_connect[side](clf, o, term)
                else:
                    res.ret[side] = clf.connect(llcp=o, terminate=term)
            except BaseException as e:          # SystemExit is documented for the IOError path of llc.run()
                res.exc[side] = e
        return body

    ths = net.spawn_all([mk("t"), mk("i")], ["stack-t", "stack-i"])     # both registered before either runs
    threads = {"t": ths[0], "i": ths[1]}
    for side in ("t", "i"):
        threads[side].join(max(0.1, watchdog + 2.0 - (_real_time.time() - t0)))
    if any(th.is_alive() for th in threads.values()):
        net.abort("run_llcp_pair watchdog")
        for th in threads.values():
            th.join(3.0)
    for side, th in threads.items():
        if th.is_alive():
            res.stuck.append(side)
    if res.stuck:
        res.inconclusive = res.inconclusive or "thread(s) did not return: %s" % ",".join(res.stuck)
    if net.aborted is not None:
        res.inconclusive = res.inconclusive or "net aborted: %s" % net.aborted
    if close and not res.stuck:
        for side in ("i", "t"):
            if res.clf[side] is not None:
                try:
                    res.clf[side].close()
                except Exception as e:
                    res.exc[side] = res.exc[side] or e
    res.wall = _real_time.time() - t0
    return res


# ---------------------------------------------------------------------------------------------------
def selftest(verbose=False):
    """python -m vf.sim.fakenet : exercises the net itself (no verdict about nfcpy). Returns a list of failures."""
    import faulthandler
    import sys
    faulthandler.dump_traceback_later(120, exit=True, file=sys.stderr)
    bad = []

    def check(name, cond):
        if verbose:
            print("%-58s %s" % (name, "ok" if cond else "FAILED"))
        if not cond:
            bad.append(name)

    # sockets, addressing, truncation, EADDRINUSE, noport, hook
    net = FakeNet()
    S = net.socket
    a = S.socket(S.AF_INET, S.SOCK_DGRAM)
    b = S.socket(S.AF_INET, S.SOCK_DGRAM)
    a.bind(("0.0.0.0", 5000))
    check("unbound getsockname", b.getsockname() == ("0.0.0.0", 0))
    try:
        S.socket(S.AF_INET, S.SOCK_DGRAM).bind(("0.0.0.0", 5000))
        check("EADDRINUSE", False)
    except OSError as e:
        check("EADDRINUSE", e.errno == errno.EADDRINUSE)
    check("sendto count", b.sendto(b"106A 26", ("localhost", 5000)) == 7)
    check("select readable", net.select.select([a], [], [], 0.5)[0] == [a])
    data, src = a.recvfrom(4)
    check("recvfrom truncates", data == b"106A" and src == ("127.0.0.1", b.getsockname()[1]))
    check("reply reaches ephemeral port", a.sendto(b"106A 0101", src) == 9 and b.recvfrom(1024)[0] == b"106A 0101")
    b.sendto(b"x", ("127.0.0.1", 5999))
    check("noport logged", net.frames[-1].fate == "noport")
    check("frame parse", net.frames[0].brty == "106A" and net.frames[0].payload == b"\x26" and net.frames[0].to_listener)
    net.hook = lambda f: "drop" if f.raw == b"A" else (b"106A ff" if f.raw == b"B" else None)
    b.sendto(b"A", ("127.0.0.1", 5000))
    b.sendto(b"B", ("127.0.0.1", 5000))
    check("hook drop/replace", [f.fate for f in net.frames[-2:]] == ["dropped", "replaced"] and a.recvfrom(99)[0] == b"106A ff")
    t0 = net.now()
    check("virtual time-out without a participant", net.select.select([a], [], [], 2.5) == ([], [], []) and
          abs(net.now() - t0 - 2.5) < 1e-9)
    try:
        net.select.select([a], [], [], -1)
        check("negative timeout", False)
    except ValueError:
        check("negative timeout", True)
    try:
        net.select.select([a], [], [], None)
        check("deadlock detected", False)
    except OSError as e:
        check("deadlock detected", e.errno == errno.EDEADLK and net.deadlocks == 1)
    net.sock_fault = lambda op, sock, args: OSError(errno.EIO, "x") if op == "recvfrom" else None
    try:
        a.recvfrom(10)
        check("sock_fault", False)
    except OSError as e:
        check("sock_fault", e.errno == errno.EIO)
    net.sock_fault = None
    st = net.add_responder(("127.0.0.1", 6000), lambda d, src, sock: [d.upper()])
    b.sendto(b"ping", ("127.0.0.1", 6000))
    check("responder", b.recvfrom(99) == (b"PING", ("127.0.0.1", 6000)) and st is not None)
    a.close()
    try:
        net.select.select([a], [], [], 1)
        check("select on closed socket", False)
    except ValueError:
        check("select on closed socket", True)

    # two threads, virtual clock: a short time-out must not fire while the peer computes; it fires when both block
    net = FakeNet()
    S = net.socket
    srv = S.socket(S.AF_INET, S.SOCK_DGRAM)
    srv.bind(("0.0.0.0", 7000))
    cli = S.socket(S.AF_INET, S.SOCK_DGRAM)
    got = {}

    def server():
        net.select.select([srv], [], [], 10.0)
        d, src = srv.recvfrom(99)
        _real_time.sleep(0.15)                    # "computing": real time passes, logical time must not
        srv.sendto(b"late", src)
        net.time.sleep(5.0)

    def client():
        cli.sendto(b"req", ("127.0.0.1", 7000))
        t = net.now()
        got["r"] = net.select.select([cli], [], [], 0.0003)[0]
        got["dt"] = net.now() - t
        t = net.now()
        got["r2"] = net.select.select([cli], [], [], 0.5)[0] if not cli.queue or cli.recvfrom(9) else None
        got["dt2"] = net.now() - t
    ths = net.spawn_all([server, client], ["srv", "cli"])
    for th in ths:
        th.join(10)
    check("threads returned", not any(th.is_alive() for th in ths))
    check("0.3 ms time-out survives 150 ms of peer computing", got.get("r") == [cli] and got.get("dt") == 0)
    check("time-out fires when every participant is blocked", got.get("r2") == [] and abs(got.get("dt2", 0) - 0.5) < 1e-9)

    # abort unblocks
    net = FakeNet(stall_limit=0.3)
    x = net.socket.socket(net.socket.AF_INET, net.socket.SOCK_DGRAM)
    x.bind(("0.0.0.0", 8000))
    res = {}

    def waiter():
        res["r"] = net.select.select([x], [], [], 1.0)

    def busy():
        _real_time.sleep(1.0)                     # a participant that never blocks in the net
    t0 = _real_time.time()
    ths = net.spawn_all([waiter, busy])
    ths[0].join(5)
    check("stall limit aborts the net", net.aborted is not None and res.get("r") == ([], [], []) and
          _real_time.time() - t0 < 0.9)
    ths[1].join(5)

    # full stacks
    for clock in ("virtual", "real"):
        net = FakeNet(clock=clock)
        with net.installed():
            r = run_llcp_pair(net, {"miu": 1000, "brs": 2, "lto": 200}, {"lrt": 0},
                              terminate=lambda res, side: res.both_connected and res.polls[side] > 5)
        check("llcp pair (%s clock) connects and returns" % clock, r.both_connected and r.inconclusive is None and
              r.ret == {"i": True, "t": True} and r.exc == {"i": None, "t": None})
        check("llcp pair (%s clock) bit rate switched" % clock, any(f.brty == "424F" for f in net.frames))
    # a peer that never shows up: bounded, inconclusive-free return through the terminate bound
    net = FakeNet()
    with net.installed():
        import nfc  # noqa: F401
        n = {"polls": 0}

        def term():
            n["polls"] += 1
            return n["polls"] > 3
        clf = make_clf(net)
        t0 = _real_time.time()
        rv = clf.connect(llcp={"role": "initiator"}, terminate=term)
        clf.close()
    check("lonely initiator returns None quickly", rv is None and _real_time.time() - t0 < 2.0 and net.now() > 1003)
    check("uninstall restores the modules", __import__("nfc.clf.udp").clf.udp.socket is _real_socket)
    faulthandler.cancel_dump_traceback_later()
    return bad


if __name__ == "__main__":
    import sys as _sys
    _sys.path.insert(0, os.environ.get("VERIF_REPO_SRC", "/repo/src"))
    import logging as _logging
    _logging.disable(_logging.CRITICAL)
    _bad = selftest(verbose=True)
    print("fakenet selftest:", "FAILED " + ", ".join(_bad) if _bad else "ok")
    _sys.exit(1 if _bad else 0)
