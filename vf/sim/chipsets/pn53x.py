"""Chipset simulator for the PN53x family behind simulated transports.

    ChipsetSim(variant, link)      variant: pn531 | pn532 | pn533 | rcs956     (the contactless chip)
                                   link:    usb | tty | arygon | ccid           (what sits between host and chip)
    SimUSB(sim) / SimTTY(sim)      transport objects for the real driver init(transport) functions

Written from the PN532/PN533 user manuals (host commands, response layouts, error table, CIU register map:
CIU_RxMode bit7 RxCRCEn, CIU_FIFOData/FIFOLevel, CIU_CommIRq bit5 RxIRq / bit4 IdleIRq, CIU_DivIRq bit0 RFOffIRq,
CIU_TxControl bits 1:0 Tx1/2RFEn), the RC-S956 differences that matter to a host (ResetMode, Diagnose echo
without the test number), the CCID specification and the ACR122U API, the Arygon "0a?" ASCII protocol.
It is the *other side* of the real nfcpy drivers: every frame the driver writes is checked with vf.ref.frames
(a broken frame is recorded in .bad_writes and not answered), answered with ACK + response, and a *script*
says what the k-th host command counted from mark() returns instead:

    ["status", s]          the response carries only the status byte s (commands with a status field)
    ["status+data", s]     status byte s followed by the octets that follow the status in the regular response (what
                           the chip's buffer holds; STALE_OCTETS where the regular response has nothing behind it)
    ["fault", name]        a host-link fault, one of FAULTS_FRAME / FAULTS_CCID
    ["fault", name, n]     a host-link fault with a length, one of FAULTS_LEN_FRAME / FAULTS_LEN_CCID: the transfer
                           named is cut to its first n octets (every n the transfer allows, see len_actions())
    ["fault", "payload", hex]   a *well formed* envelope (frame links: information frame with right LCS/DCS after the
                           ACK; CCID: RDR_to_PC_DataBlock with the right dwLength) that carries exactly the octets
                           given as a hex string where the regular answer has TFI RC data (frame links) / the
                           pseudo-APDU response D5 RC data 90 00 (ACR122U); see payload_actions()
    ["rfoff"]              (FeliCa listen through the CIU) the external field drops: CIU_DivIRq.RFOffIRq

What is in the RF field is a Field object (tags for the initiator commands, a scripted remote initiator for the
Tg* commands).  Time is virtual: a read with nothing queued advances the clock by its time-out and raises
IOError(ETIMEDOUT).
"""
import copy
import errno
import os

from vf.ref import crc as refcrc
from vf.ref import frames as F

ACK = F.ACK

# host-link faults ---------------------------------------------------------------------------------
FAULTS_FRAME = [
    "noack",            # total silence: not even an ACK                       (read -> ETIMEDOUT)
    "ack-silence",      # ACK, then nothing                                    (read -> ETIMEDOUT)
    "eio@ack", "eio@rsp", "enodev@ack", "enodev@rsp",        # the read raises IOError(errno)
    "eio@write", "enodev@write",                             # the write raises IOError(errno)
    "short3",           # response cut right after 00 00 FF
    "short5",           # response cut after LEN LCS
    "short-half",       # response cut in the middle of the data
    "short-1",          # postamble missing
    "short-ext5",       # an extended frame header cut after 00 00 FF FF FF
    "garbled-sof", "garbled-lcs", "garbled-dcs", "garbled-all",
    "errframe",         # syntax error frame 00 00 FF 01 FF 7F 81 00
    "wrongcode", "wrongtfi",
    "nostatus",         # well formed response D5 cmd+1 with no further byte
    "noack-rsp",        # the response arrives without a preceding ACK (harmless)
    "ack-ack",          # ACK twice, then the response (harmless)
]
FAULTS_CCID = [
    "etimedout", "eio", "enodev", "eio@write", "enodev@write",
    "ccid-short", "ccid-type", "ccid-len", "apdu-short", "sw-error", "sw-only", "garbled-all",
    "wrongcode", "wrongtfi", "nostatus",
]
# serial links only: pyserial reports a failed os.read()/os.write() on the port as serial.SerialException, an
# IOError *without* errno, and nfc.clf.transport.TTY lets it through (it maps only the write time-out, to EIO)
FAULTS_SERIAL = ["noerrno@ack", "noerrno@rsp", "noerrno@write"]
# transport exceptions whose errno is numerically equal to a chipset status code the drivers special-case (01h time-out,
# 0Ah / 29h / 31h RF field gone / released): OS errno and chipset status are different number spaces, a transport
# exception stays a host-link failure whatever number it carries.  nfc/clf/transport.py does not raise them today
# (it maps everything to ETIMEDOUT / EIO / ENODEV); they stand for "an IOError with some other errno".
FAULTS_ERRNO_COLLISION = ["e1@rsp", "e10@rsp", "e41@rsp", "e49@rsp"]
FAULTS_ERRNO_COLLISION_CCID = ["e1", "e10", "e41", "e49"]
# chipset status codes that are numerically equal to the errno values the transports do raise (EIO, ENODEV, ETIMEDOUT)
STATUS_ERRNO_COLLISIONS = sorted({errno.EIO & 0xFF, errno.ENODEV & 0xFF, errno.ETIMEDOUT & 0xFF})

# what the real transports (nfc/clf/transport.py) can raise, by phase of Chipset.command():
#   USB.read   ETIMEDOUT (nothing arrived within the time-out) | ENODEV | EIO
#   USB.write  ENODEV | EIO          (ETIMEDOUT only with a write time-out; the drivers write with timeout=0 = none)
#   TTY.read   ETIMEDOUT (no octet within the time-out) | EIO (short frame) | no errno (SerialException)
#   TTY.write  EIO (SerialTimeoutException) | no errno (SerialException)
ERRNO_OF = {"eio": errno.EIO, "enodev": errno.ENODEV, "etimedout": errno.ETIMEDOUT, "noerrno": None,
            "e1": 1, "e10": 10, "e41": 41, "e49": 49}


def faults_for(link):
    """the named host-link faults of a link type"""
    if link == "ccid":
        return FAULTS_CCID + FAULTS_ERRNO_COLLISION_CCID
    return FAULTS_FRAME + (FAULTS_SERIAL if link in ("tty", "arygon") else []) + FAULTS_ERRNO_COLLISION


def fault_phase(link, name):
    """'write' | 'ack' | 'rsp' for the faults where the transport itself fails while the host command is being
    delivered or its answer fetched, i.e. where the harness *knows* the host link is what failed:
      write  transport.write() raised: the chip never saw the command
      ack    nothing / an error instead of the ACK frame (frame links): the chip never acknowledged the command
      rsp    transport.read() raised something other than a time-out after the ACK (frame links) / instead of the
             answer (CCID)
    None for everything else (a time-out after the ACK is indistinguishable from RF silence; garbled or cut frames
    and unexpected contents are judged by the coarse clause only)"""
    if name.endswith("@write"):
        return "write"
    if link == "ccid":
        return "rsp" if name in ("eio", "enodev") or name in FAULTS_ERRNO_COLLISION_CCID else None
    if name == "noack" or name.endswith("@ack"):
        return "ack"
    if name.endswith("@rsp") and name.split("@")[0] in ("eio", "enodev", "noerrno", "e1", "e10", "e41", "e49"):
        return "rsp"
    return None


def errno_collision(name):
    """True for the host-link faults whose errno is numerically a special-cased chipset status code"""
    return name in FAULTS_ERRNO_COLLISION or name in FAULTS_ERRNO_COLLISION_CCID


def link_error(code):
    if code is None:
        return IOError("simulated serial port failure (no errno)")
    return IOError(code, os.strerror(code))

# host-link faults with a length: what the host reads is the beginning of what the chip (reader) sent --------
FAULTS_LEN_FRAME = [
    "trunc",            # ACK, then the first n octets of the response frame          n = 1 .. len(frame)-1
    "ack-trunc",        # the first n octets of the ACK frame, then the response      n = 1 .. len(ACK)-1
    "surplus",          # ACK, then a *well formed* response frame (checksums right) whose payload is followed by n
                        # more octets than the command's response layout has          n in SURPLUS_LENGTHS
]
FAULTS_LEN_CCID = [
    "trunc",            # the first n octets of the RDR_to_PC_DataBlock message       n = 1 .. len(message)-1
    "apdu-trunc",       # well formed CCID message whose abData is cut to n octets    n = 0 .. len(abData)-1
    "surplus",          # well formed CCID message / pseudo-APDU, n more payload octets before the status word
]
SURPLUS_LENGTHS = (1, 2, 5)


STALE_OCTETS = bytes.fromhex("5a0fc33c69")      # buffer content behind an error status where the regular response has none


def status_payload(act, regular):
    """response payload for ["status", s] / ["status+data", s] (s != 0) given the regular payload 00 || data"""
    s = bytes([act[1] & 0xFF])
    if act[0] == "status":
        return s
    return s + (bytes(regular[1:]) or STALE_OCTETS)


def surplus_octets(n):
    return bytes((0xA5 + 17 * i) & 0xFF for i in range(n))


def len_actions(link, rsp):
    """every ["fault", name, n] of the link type for a command whose regular answer is described by rsp =
    (length of the response frame / CCID message, length of its header) as logged in ChipsetSim.rsplog"""
    total, hdr = rsp
    acts = [["fault", "trunc", n] for n in range(1, total)]
    if link == "ccid":
        acts += [["fault", "apdu-trunc", n] for n in range(0, total - hdr)]
    else:
        acts += [["fault", "ack-trunc", n] for n in range(1, len(ACK))]
    acts += [["fault", "surplus", n] for n in SURPLUS_LENGTHS]
    return acts


def _uniq(seq):
    out = []
    for x in seq:
        if x not in out:
            out.append(x)
    return out


def payload_actions(link, cmd, level="full"):
    """every ["fault", "payload", hex] for host command cmd: what a well formed envelope can carry when the content
    is shorter than / differently ordered from a regular answer.
    CCID (ACR122U pseudo-APDU response, regular: D5 RC data 90 00): every octet string of length 0..6 of the form
    head || middle || status word with head in {-, D5, D5 RC, RC, D5 wrong-RC, D4 RC, arbitrary}, middle in
    {-, 00, arbitrary, 00 arbitrary}, status word in {-, 90, 90 00, 63 00, 90 01, 00 90, arbitrary x2}, plus every
    concatenation of the tokens {D5, RC, 90 00, 63 00, arbitrary} of at most 4 octets (level "all": at most 6);
    level "core": only the head/middle/status-word strings of at most 3 octets or without a middle part; "mini": of at
    most 3 octets.
    Frame links (regular: D5 RC data): head in {-, D5, D4, 7F, D5 RC, D5 wrong-RC, RC, RC D5}, tail in {-, 00,
    01 xx, 01 xx 00, 00 01} (a status / count octet with nothing or too little behind it); level "core" / "mini": without the
    tails."""
    rc, wrong = (cmd + 1) & 0xFF, (cmd + 3) & 0xFF
    if link == "ccid":
        heads = [b"", b"\xd5", bytes([0xD5, rc]), bytes([rc]), bytes([0xD5, wrong]), bytes([0xD4, rc]), b"\x5a"]
        mids = [b"", b"\x00", b"\x5a", b"\x00\x5a"]
        sws = [b"", b"\x90", b"\x90\x00", b"\x63\x00", b"\x90\x01", b"\x00\x90", b"\xa5\x5a"]
        pl = [h + m + w for h in heads for m in mids for w in sws
              if len(h + m + w) <= 6 and (level not in ("core", "mini") or len(h + m + w) <= 3 or not m)
              and (level != "mini" or len(h + m + w) <= 3)]
        toks = [b"\xd5", bytes([rc]), b"\x90\x00", b"\x63\x00", b"\x5a"]
        seqs, bound = [b""], 0 if level in ("core", "mini") else 6 if level == "all" else 4
        for p in seqs:                               # grows while iterated: breadth first over token sequences
            seqs += [p + t for t in toks if len(p + t) <= bound]
        pl += seqs
    else:
        heads = [b"", b"\xd5", b"\xd4", b"\x7f", bytes([0xD5, rc]), bytes([0xD5, wrong]), bytes([rc]), bytes([rc, 0xD5])]
        tails = [b"", b"\x00", b"\x01\x5a", b"\x01\x5a\x00", b"\x00\x01"] if level not in ("core", "mini") else [b""]
        pl = [h + t for h in heads for t in tails]
    return [["fault", "payload", p.hex()] for p in _uniq(pl)]


def wellformed_frame(data):
    """normal information frame with right LCS and DCS around any data field, the empty one included (LEN 00 LCS 00
    DCS 00; vf.ref.frames.build_frame insists on a TFI)"""
    data = bytes(data)
    if data:
        return F.build_frame(data)
    return bytes.fromhex("0000FF0000" "00" "00")


def payload_class(link, cmd, hexstr):
    """structural class of a payload action (for signatures, outcome classes and coverage counters)"""
    p = bytes.fromhex(hexstr)
    if link != "ccid":
        return "payload:wellformed-%s" % ("empty" if not p else "tfi-only" if len(p) == 1 else "short" if len(p) == 2 else "other")
    sw = "sw9000" if p[-2:] == b"\x90\x00" else "sw-error" if p[-2:] == b"\x63\x00" else "no-sw"
    body = p[:-2] if sw != "no-sw" else p
    rc = (cmd + 1) & 0xFF
    if len(p) >= 4 and sw == "sw9000" and body[:2] == bytes([0xD5, rc]):
        return "payload:valid-envelope"
    return "payload:%s-%s" % ("short" if len(p) < 4 else "misordered", sw)


def cut_region(link, name, n, rsp):
    """structural name of the place where a transfer was cut (for signatures and outcome classes)"""
    if name != "trunc" or rsp is None:
        return name
    if link == "ccid":
        return "trunc:ccid-header" if n < rsp[1] else "trunc:apdu"
    return "trunc:frame-header" if n < rsp[1] else "trunc:frame-body"


# commands whose response starts with a status byte (PN532 UM 7.x; PN533 adds it to the register commands)
STATUS_CMDS_COMMON = {0x16, 0x40, 0x42, 0x44, 0x46, 0x4E, 0x50, 0x52, 0x54, 0x56, 0x86, 0x88, 0x8E, 0x90, 0x92, 0x94}
RF_WAIT_CMDS = {0x40, 0x42, 0x86, 0x88}            # the commands that wait for RF data from the other side

NAMES = {0x00: "Diagnose", 0x02: "GetFirmwareVersion", 0x04: "GetGeneralStatus", 0x06: "ReadRegister",
         0x08: "WriteRegister", 0x0C: "ReadGPIO", 0x0E: "WriteGPIO", 0x10: "SetSerialBaudrate", 0x12: "SetParameters",
         0x14: "SAMConfiguration", 0x16: "PowerDown", 0x18: "ResetMode", 0x1C: "ControlLED", 0x32: "RFConfiguration",
         0x58: "RFRegulationTest", 0x56: "InJumpForDEP", 0x46: "InJumpForPSL", 0x4A: "InListPassiveTarget",
         0x50: "InATR", 0x4E: "InPSL", 0x40: "InDataExchange", 0x42: "InCommunicateThru", 0x44: "InDeselect",
         0x52: "InRelease", 0x54: "InSelect", 0x60: "InAutoPoll", 0x8C: "TgInitAsTarget", 0x92: "TgSetGeneralBytes",
         0x86: "TgGetData", 0x8E: "TgSetData", 0x94: "TgSetMetaData", 0x88: "TgGetInitiatorCommand",
         0x90: "TgResponseToInitiator", 0x8A: "TgGetTargetStatus", 0x38: "InQuartetByteExchange",
         0x48: "InActivateDeactivatePaypass", 0x96: "TgSetDataSecure", 0x98: "TgSetMetaDataSecure",
         0xA0: "CommunicateThruEX"}

R_COMMAND, R_COMMIRQ, R_DIVIRQ, R_FIFODATA, R_FIFOLEVEL, R_BITFRAMING = 0x6331, 0x6334, 0x6335, 0x6339, 0x633A, 0x633D
R_MODE, R_TXMODE, R_RXMODE, R_TXCONTROL, R_TXAUTO, R_MANUALRCV = 0x6301, 0x6302, 0x6303, 0x6304, 0x6305, 0x630D


# largest data field (TFI .. PDn) of a host command frame: PN532 UM 6.2.1.2 / PN533 UM: "the maximum length of the
# packet data is limited to 264 bytes (265 bytes with TFI included)"; RC-S956: same firmware limit; the PN531 has normal
# frames only (LEN is one octet)
MAX_DATA = {"pn531": 255, "pn532": 265, "pn533": 265, "rcs956": 265}


class SimBound(Exception):
    """more host commands than the harness allows (non-termination guard; never an nfcpy verdict)"""


# --------------------------------------------------------------------------------------------------
class Field(object):
    """what is in front of the antenna.

    kinds as seen by the chip as initiator:  none | t1t | t2t | t4a | 106b | 212f | 424f | dep
    kinds as seen by the chip as target:     rdr-tt2 | rdr-tt4 | rdr-tt3 | ini-dep106 | ini-dep424
    """
    def __init__(self, kind="none", **kw):
        self.kind = kind
        self.uid = bytes.fromhex("0416c6c2d73881")
        self.sens_res = bytes.fromhex("0044")            # as the PN532/PN533 report it
        self.sel_res = {"t2t": 0x00, "t4a": 0x20}.get(kind, 0x00)
        self.t1_sens = bytes.fromhex("0c00")
        self.t1_uid = bytes.fromhex("b2565400")
        self.t1_hr = bytes.fromhex("1148")
        self.sensb_res = bytes.fromhex("50E8253EEC00000011008185")
        self.idm = bytes.fromhex("0102030405060708")
        self.pmm = bytes.fromhex("F1F2F3F4F5F6F7F8")
        self.sys = bytes.fromhex("AABB")
        self.nfcid3t = bytes.fromhex("66f6e98d1c13dfe56de4")
        self.atr_tail = bytes.fromhex("0000000702") + bytes.fromhex("46666d010112020207ff040164070103")
        self.atr_req = bytes.fromhex("D400" "30313233343536373839" "00000032" "46666d010113")
        self.mem = bytearray(range(64)) + bytearray(960)   # tag memory (T2T pages / T1T blocks)
        self.queue = []                                  # commands a remote initiator/reader will send next
        self.sent = []                                   # what the chip transmitted (RF side log, bounded)
        self.rsp_override = None                         # C14: bytes the tag answers instead of the computed ones
        self.muted = False                               # tag does not answer (-> status 01 time-out)
        self.tt3_active = False                          # FeliCa listen through the CIU: first command delivered
        self.big_rsp = 258                               # length of the long answer to a long READ BINARY
        self.air = []                                    # chip as initiator: every transmission as (path, octets the
                                                         # host supplied for it, CRC appended by the chip) (bounded)
        self.air_script = []                             # per transmission, first come first served: "mute" (the tag
                                                         # does not hear it) | "badcrc" (answer with a broken CRC) | None
        self.__dict__.update(kw)
        if kind.startswith("rdr-") or kind.startswith("ini-"):
            self.queue = list(self.script_for(kind))

    def script_for(self, kind):
        idm = self.idm
        if kind == "rdr-tt2":
            return [bytes([0x30, 4 * i & 0xFF]) for i in range(64)]
        if kind == "rdr-tt4":
            return [bytes.fromhex("E080")] + [bytes([0x02 | (i & 1)]) + bytes.fromhex("00A4040007D276000085010100")
                                              for i in range(64)]
        if kind == "rdr-tt3":
            return [bytes([16, 0x06]) + idm + bytes.fromhex("01 0B00 01 8000".replace(" ", ""))] + \
                   [bytes([16, 0x06]) + idm + bytes([0x01, 0x0B, 0x00, 0x01, 0x80, i & 0xFF]) for i in range(1, 64)]
        if kind in ("ini-dep106", "ini-dep424"):
            return [self.atr_req] + [bytes.fromhex("D406") + bytes([i & 3]) + b"dep-req-%02d" % i for i in range(64)]
        return []

    def log_tx(self, data):
        if len(self.sent) < 64:
            self.sent.append(bytes(data))

    def log_air(self, path, octets, hwcrc):
        """path: "ciu" (octet-wise through the CIU registers) | "thru" (InCommunicateThru) | "dx" (InDataExchange)"""
        if len(self.air) < 64:
            self.air.append((path, bytes(octets), bool(hwcrc)))

    def air_event(self):
        """what happens to the transmission that is on air now"""
        return self.air_script.pop(0) if self.air_script else None

    # ---- chip is initiator -------------------------------------------------------------------
    def poll(self, variant, brty, idata):
        """TargetData of InListPassiveTarget for one target, or None"""
        k = self.kind
        if self.muted:
            return None
        if brty == 0 and k in ("t2t", "t4a"):
            if idata and bytes(idata)[-4:] != self.uid[-4:]:
                return None
            if variant == "pn531":              # PN531: SENS_RES byte order swapped, cascade tag left in NFCID1
                uid = b"\x88" + self.uid
                return self.sens_res[::-1] + bytes([self.sel_res, len(uid)]) + uid
            return self.sens_res + bytes([self.sel_res, len(self.uid)]) + self.uid
        if brty == 4 and k == "t1t":
            return self.t1_sens + self.t1_uid
        if brty == 3 and k == "106b":
            return self.sensb_res + bytes([0x01, 0x00])                      # ATQB, ATTRIB_RES length, ATTRIB_RES
        if brty in (1, 2) and k == ("212f", "424f")[brty - 1]:
            body = bytes([0x01]) + self.idm + self.pmm
            if len(idata) >= 4 and idata[3] == 0x01:                         # request code 1: system code appended
                body += self.sys
            return bytes([len(body) + 1]) + body
        return None

    def exchange(self, data, crc_in_band=False):
        """RF exchange as initiator; returns the target's answer without CRC, or None (no answer)"""
        data = bytes(data)
        self.log_tx(data)
        if self.muted:
            return None
        if self.rsp_override is not None:
            return bytes(self.rsp_override)
        k = self.kind
        if k == "t2t":
            if data[:1] == b"\x30" and len(data) == 2:
                o = data[1] * 4 % 64
                return bytes((self.mem * 2)[o:o + 16])
            if data[:1] == b"\xa2" and len(data) == 6:
                self.mem[data[1] * 4 % 64:data[1] * 4 % 64 + 4] = data[2:6]
                return b"\x0a"                                               # 4 bit ACK
            return None
        if k == "t4a":
            if data[:1] == b"\xe0":
                return bytes.fromhex("0578807002")
            if data and data[0] & 0xE2 == 0x02:
                if len(data) > 100:
                    return data[:1] + bytes(i & 0xFF for i in range(self.big_rsp - 3)) + bytes.fromhex("9000")
                return data[:1] + bytes.fromhex("9000")
            return None
        if k == "106b":
            if data[:1] in (b"\xc2", b"\xca"):
                return data
            if data[:1] == b"\x05":
                return self.sensb_res
            if data[:1] == b"\x1d":
                return b"\x00"
            if data and data[0] & 0xE2 == 0x02:
                if len(data) > 100:
                    return data[:1] + bytes(i & 0xFF for i in range(self.big_rsp - 3)) + bytes.fromhex("9000")
                return data[:1] + bytes.fromhex("9000")
            return None
        if k in ("212f", "424f"):
            if len(data) >= 10 and data[0] == len(data) and data[2:10] == self.idm:
                body = bytes([data[1] + 1]) + self.idm + bytes.fromhex("0000") + b"\x01" + bytes(self.mem[:16])
                return bytes([len(body) + 1]) + body
            return None
        if k == "dep":
            if data:
                return bytes([len(data) + 3 & 0xFF]) + bytes.fromhex("D507") + data[3:][:250]
            return None
        if k == "t1t":
            return self.t1_exchange(data)
        return None

    def t1_exchange(self, data):
        """Type 1 Tag commands without CRC: RID 78, RALL 00, READ 01, WRITE-E 53, WRITE-NE 1A, READ8 02"""
        c = data[0]
        if c == 0x78 and len(data) == 7:
            return self.t1_hr + self.t1_uid
        if data[-4:] != self.t1_uid:
            return None
        if c == 0x00 and len(data) == 7:
            return self.t1_hr + bytes(self.mem[:120])
        if c == 0x01 and len(data) == 7:
            return bytes([data[1], self.mem[data[1] & 0x7F]])
        if c in (0x53, 0x1A) and len(data) == 7:
            self.mem[data[1] & 0x7F] = data[2]
            return bytes([data[1], data[2]])
        if c == 0x02 and len(data) == 14:
            b = data[1]
            return bytes([b]) + bytes(self.mem[b * 8 % 512:b * 8 % 512 + 8])
        if c in (0x54, 0x1B) and len(data) == 14:
            b = data[1]
            o = b * 8 % 512
            new = bytes(data[2:10]) if c == 0x54 else bytes(x | y for x, y in zip(self.mem[o:o + 8], data[2:10]))
            self.mem[o:o + 8] = new
            return bytes([b]) + new
        return None

    T1_LEN = {0x78: 7, 0x00: 7, 0x01: 7, 0x53: 7, 0x1A: 7, 0x02: 14, 0x54: 14, 0x1B: 14, 0x10: 14}

    @classmethod
    def t1_wellformed(cls, frame):
        """a Type 1 Tag command as it must be on air: command code, operands and UID echo of the fixed length the
        Topaz command set gives the code, followed by the CRC_B over exactly those octets"""
        frame = bytes(frame)
        return len(frame) >= 3 and cls.T1_LEN.get(frame[0]) == len(frame) - 2 and refcrc.check_crc_b(frame)

    # ---- chip is target ------------------------------------------------------------------------
    def activation(self, variant, mode):
        """(mode byte, first initiator command) for TgInitAsTarget, or None while nobody activates us"""
        k = self.kind
        if not self.queue:
            return None
        if k == "rdr-tt2":
            return 0x00, self.queue.pop(0)
        if k == "rdr-tt4":
            return 0x08 if variant in ("pn532",) and mode & 4 else 0x00, self.queue.pop(0)
        if k == "ini-dep106":
            a = self.queue.pop(0)
            return 0x04, bytes([len(a) + 1]) + a
        if k == "ini-dep424":
            a = self.queue.pop(0)
            return 0x26, bytes([len(a) + 1]) + a
        return None

    def next_command(self):
        """next command of the remote initiator / reader (None: it stays silent)"""
        if self.muted or not self.queue:
            return None
        c = self.queue.pop(0)
        if self.kind in ("ini-dep106", "ini-dep424"):
            return bytes([len(c) + 1]) + c
        return c


# --------------------------------------------------------------------------------------------------
class State(object):
    """everything mutable of a simulated chip, so that snapshot()/restore() is one deepcopy"""
    def __init__(self):
        self.regs = {}
        self.fifo = bytearray()          # receive side of the CIU FIFO (what ReadRegister(FIFOData) pops)
        self.txfifo = bytearray()        # bytes written to FIFOData since the last transmission
        self.commirq = 0
        self.divirq = 0
        self.autocoll = False
        self.field = Field()
        self.params = 0
        self.rfcfg = {}
        self.target_mode = False
        self.pending_rfoff = False


class ChipsetSim(object):
    FW = {"pn531": bytes.fromhex("0304"), "pn532": bytes.fromhex("32010607"), "pn533": bytes.fromhex("33020707"),
          "rcs956": bytes.fromhex("33013007")}
    BRTY = {"pn531": (0, 1, 2), "pn532": (0, 1, 2, 3, 4), "pn533": (0, 1, 2, 3, 4, 6, 7, 8), "rcs956": (0, 1, 2, 3, 4)}

    def __init__(self, variant, link, clock=None, arygon_baud=115200):
        assert variant in self.FW and link in ("usb", "tty", "arygon", "ccid")
        self.variant, self.link = variant, link
        self.clock = clock
        self.arygon_baud = arygon_baud
        self.st = State()
        self.q = []                      # what the host will read next: bytes | ("raise", errno)
        self.n = 0                       # host commands received (ACKs and envelope-only messages not counted)
        self.mark_n = 0
        self.script = {}
        self.cmdlog = []                 # (n, cmd, len(params)) bounded
        self.rsplog = {}                 # k -> (octets of the regular response frame / CCID message, of its header)
        self.bad_writes = []             # (clause, raw bytes) of host frames the validator rejected
        self.frames_ok = {"normal": 0, "extended": 0, "ack": 0, "ccid": 0, "long-preamble": 0}
        self.responder = None            # C14: callable(cmd, params) -> list of queue items, replaces the chip
        self.command_bound = 20000
        self.write_fault = None
        self.applied = []                # (k, action, cmd) actually applied by the script
        self.not_applicable = 0
        self.crc_b_tx = [0, 0]           # CRC_B appended by the driver on the CIU path: [ok, bad]
        self.aborts = 0
        self.ccid_seq_seen = set()
        self.delivered = {}              # k -> what the chip / reader queued for the host as answer to host command k
        self.apdu_seen = {}              # ACR122U pseudo APDUs other than direct transmit, by kind
        self.ack_faults = 0              # scripted failures of an ACK (cancel) write

    # ---- harness side ----------------------------------------------------------------------------
    def mark(self):
        self.mark_n = self.n
        self.applied = []
        self.cmdlog = []
        self.rsplog = {}
        self.delivered = {}

    def since_mark(self):
        return self.n - self.mark_n

    def snapshot(self):
        return (copy.deepcopy(self.st), self.n, self.mark_n)

    def restore(self, snap):
        self.st = copy.deepcopy(snap[0])
        self.n, self.mark_n = snap[1], snap[2]
        self.q = []
        self.applied = []
        self.cmdlog = []
        self.rsplog = {}
        self.delivered = {}
        self.write_fault = None

    def has_status(self, cmd):
        if cmd in STATUS_CMDS_COMMON:
            return True
        if cmd in (0x06, 0x08) and self.variant == "pn533":
            return True
        if cmd == 0x08 and self.variant == "rcs956":
            return True
        return False

    # ---- link layer: what the transports call ---------------------------------------------------------
    def host_write(self, raw):
        raw = bytes(raw)
        if self.link == "ccid":
            return self._ccid_write(raw)
        max_pre = 1
        if self.link == "arygon":
            if raw[:1] != b"2":
                self.bad_writes.append(("arygon-prefix", raw[:32]))
                self.q = []
                return
            raw = raw[1:]
        if self.link == "tty":
            max_pre = 32
        try:
            kind, cmd, params = F.check_host_command(raw, allow_extended=self.variant != "pn531", max_preamble=max_pre,
                                                     max_data=MAX_DATA[self.variant])
        except F.FrameError as e:
            self.bad_writes.append((e.clause, raw[:300]))
            self.q = []
            return
        if kind == "ack":
            self._ack_write_fault()
            self.frames_ok["ack"] += 1
            self.q = []                   # abort of the running command
            self.aborts += 1
            return
        if kind == "nack":
            return
        s = F.split(raw, max_pre)
        self.frames_ok["extended" if s["extended"] else "normal"] += 1
        if s["preamble_len"] > 1:
            self.frames_ok["long-preamble"] += 1
        try:
            self._command(cmd, params)
        finally:
            self._log_delivered()

    def _log_delivered(self):
        k = self.n - self.mark_n
        if len(self.delivered) < 400:
            self.delivered[k] = [x if isinstance(x, tuple) else bytes(x) for x in self.q]

    def _ack_write_fault(self):
        """script key "ack": ["fault", "<errno name>@write"] - the write of an ACK frame (the host cancels the running
        command after a time-out, or on close) fails; the ACK is not a host command and has no number"""
        act = self.script.get("ack")
        if act is not None and act[0] == "fault" and act[1].endswith("@write"):
            self.applied.append(("ack", list(act), None))
            self.ack_faults += 1
            self.q = []
            raise link_error(ERRNO_OF[act[1].split("@")[0]])

    def _next_k(self, cmd, params):
        self.n += 1
        if self.n > self.command_bound:
            raise SimBound("more than %d host commands" % self.command_bound)
        if len(self.cmdlog) < 400:
            self.cmdlog.append((self.n - self.mark_n, cmd, len(params)))
        k = self.n - self.mark_n
        act = self.script.get(k)
        if act is None:
            act = self.script.get(str(k))
        return k, act

    def _command(self, cmd, params):
        k, act = self._next_k(cmd, params)
        if act is not None and act[0] == "fault" and len(act) == 2 and act[1].endswith("@write"):
            self.applied.append((k, list(act), cmd))
            self.q = []
            raise link_error(ERRNO_OF[act[1].split("@")[0]])      # the chip never sees the command
        if self.responder is not None:
            self.q = list(self.responder(cmd, params))
            return
        if act is not None and act[0] == "rfoff":
            self.st.pending_rfoff = True
            self.applied.append((k, list(act), cmd))
            act = None
        payload = self.execute(cmd, params)
        if act is not None and act[0] in ("status", "status+data"):
            if self.has_status(cmd) and isinstance(payload, bytes) and payload:
                if act[1] & 0xFF:                  # status 00h is success: the normal response stays
                    payload = status_payload(act, payload)
                self.applied.append((k, list(act), cmd))
            elif self.has_status(cmd) and act[0] == "status":
                if act[1] & 0xFF:
                    payload = bytes([act[1] & 0xFF])
                self.applied.append((k, list(act), cmd))
            else:
                self.not_applicable += 1
            act = None
        if payload == "syntax":
            rsp = F.ERROR_FRAME
        elif payload is None:
            rsp = None
        else:
            rsp = F.build_response(cmd, payload)
        if rsp is not None and len(self.rsplog) < 400:
            self.rsplog[k] = (len(rsp), 8 if rsp[3:5] == b"\xff\xff" else 5)
        if act is None:
            self.q = [ACK] + ([rsp] if rsp is not None else [])
            return
        if len(act) > 2 and act[1] == "payload":
            self.applied.append((k, list(act), cmd))
            self.q = [ACK, wellformed_frame(bytes.fromhex(act[2]))]
            return
        if len(act) > 2:
            frames = self._cut_frames(act[1], int(act[2]), rsp)
            if frames is None:                     # nothing to cut at that length: the command runs undisturbed
                self.not_applicable += 1
                self.q = [ACK] + ([rsp] if rsp is not None else [])
                return
            self.applied.append((k, list(act), cmd))
            self.q = frames
            return
        self.applied.append((k, list(act), cmd))
        self.q = self._fault_frames(act[1], cmd, rsp)

    @staticmethod
    def _cut_frames(name, n, rsp):
        if rsp is None:
            return None
        if name == "trunc" and 0 < n < len(rsp):
            return [ACK, rsp[:n]]
        if name == "ack-trunc" and 0 < n < len(ACK):
            return [ACK[:n], rsp]
        if name == "surplus" and n > 0:
            d = F.split(rsp, 1)
            if d["kind"] != "info" or d["clauses"] or d["tfi"] != 0xD5:
                return None                        # an error frame has no payload to extend
            if not d["extended"] and len(d["data"]) + n > 255:
                return None                        # keep the frame type (the PN531 has no extended frames)
            return [ACK, F.build_frame(bytes(d["data"]) + surplus_octets(n))]
        return None

    def _fault_frames(self, name, cmd, rsp):
        if rsp is None:
            rsp = F.build_response(cmd, b"\x00")
        E = lambda e: ("raise", e)
        if name == "noack":
            return []
        if name == "ack-silence":
            return [ACK]
        if name.endswith("@ack"):
            return [E(ERRNO_OF[name.split("@")[0]])]
        if name.endswith("@rsp"):
            return [ACK, E(ERRNO_OF[name.split("@")[0]])]
        if name == "short3":
            return [ACK, rsp[:3]]
        if name == "short5":
            return [ACK, rsp[:5]]
        if name == "short-half":
            return [ACK, rsp[:max(6, len(rsp) // 2)]]
        if name == "short-1":
            return [ACK, rsp[:-1]]
        if name == "short-ext5":
            return [ACK, bytes.fromhex("0000FFFFFF")]
        if name == "garbled-sof":
            return [ACK, b"\x00\x00\x00" + rsp[3:]]
        if name == "garbled-lcs":
            return [ACK, rsp[:4] + bytes([rsp[4] ^ 0x10]) + rsp[5:]]
        if name == "garbled-dcs":
            return [ACK, rsp[:-2] + bytes([rsp[-2] ^ 0x5A]) + rsp[-1:]]
        if name == "garbled-all":
            return [ACK, bytes((i * 37 + 11) & 0xFF for i in range(len(rsp)))]
        if name == "errframe":
            return [ACK, F.ERROR_FRAME]
        if name == "wrongcode":
            return [ACK, F.build_frame(bytes([0xD5, (cmd + 3) & 0xFF]) + F.split(rsp)["data"][2:])]
        if name == "wrongtfi":
            return [ACK, F.build_frame(bytes([0xD4, (cmd + 1) & 0xFF]) + F.split(rsp)["data"][2:])]
        if name == "nostatus":
            return [ACK, F.build_response(cmd, b"")]
        if name == "noack-rsp":
            return [rsp]
        if name == "ack-ack":
            return [ACK, ACK, rsp]
        raise ValueError("unknown fault %r" % (name,))

    # ---- CCID / ACR122U envelope -----------------------------------------------------------------------
    def _ccid_write(self, raw):
        n0 = self.n
        try:
            return self._ccid_write_inner(raw)
        finally:
            if self.n != n0:
                self._log_delivered()

    def _ccid_write_inner(self, raw):
        try:
            typ, slot, seq, spec, data = F.ccid_parse_out(raw)
        except F.FrameError as e:
            self.bad_writes.append((e.clause, raw[:300]))
            self.q = []
            return
        self.frames_ok["ccid"] += 1
        self.ccid_seq_seen.add(seq)
        D = lambda d: F.ccid_build_datablock(d, slot, seq, 0, 0x81)
        if typ == F.CCID_ICCPOWERON:
            self.q = [F.ccid_build_datablock(bytes.fromhex("3b00"), slot, seq, 0, 0)]
            return
        if data == ACK:
            self._ack_write_fault()
            self.q = [D(bytes.fromhex("9000"))]
            self.aborts += 1
            return
        if data[:3] in (bytes.fromhex("FF0048"), bytes.fromhex("FF0051"), bytes.fromhex("FF0040")):
            # reader commands (not for the PN532): the length byte must agree with the octets that follow
            try:
                what, _ = F.acr122_classify_apdu(data)
            except F.FrameError as e:
                self.bad_writes.append((e.clause, raw[:300]))
                self.q = []
                return
            self.apdu_seen[what] = self.apdu_seen.get(what, 0) + 1
            if what == "version":
                self.q = [F.ccid_build_datablock(b"ACR122U203", slot, seq, 2, 0x81)]
            elif what == "picc":
                self.q = [D(bytes([0x90]) + data[3:4])]
            else:
                self.q = [D(bytes.fromhex("9002"))]
            return
        try:
            cmd, params = F.acr122_parse_command(data)
        except F.FrameError as e:
            self.bad_writes.append((e.clause, raw[:300]))
            self.q = []
            return
        k, act = self._next_k(cmd, params)
        if act is not None and act[0] == "fault" and len(act) == 2 and act[1].endswith("@write"):
            self.applied.append((k, list(act), cmd))
            self.q = []
            raise link_error(ERRNO_OF[act[1].split("@")[0]])      # the chip never sees the command
        if self.responder is not None:
            self.q = list(self.responder(cmd, params))
            return
        payload = self.execute(cmd, params)
        if act is not None and act[0] in ("status", "status+data"):
            if self.has_status(cmd) and isinstance(payload, bytes) and payload:
                if act[1] & 0xFF:                  # status 00h is success: the normal response stays
                    payload = status_payload(act, payload)
                self.applied.append((k, list(act), cmd))
            elif self.has_status(cmd) and act[0] == "status":
                if act[1] & 0xFF:
                    payload = bytes([act[1] & 0xFF])
                self.applied.append((k, list(act), cmd))
            else:
                self.not_applicable += 1
            act = None
        if payload == "syntax" or payload is None:
            good = D(bytes.fromhex("6300"))                 # the ACR122U reports a failed PN532 operation as 63 00
        else:
            good = D(bytes([0xD5, (cmd + 1) & 0xFF]) + payload + b"\x90\x00")
        if len(self.rsplog) < 400:
            self.rsplog[k] = (len(good), 10)
        if act is None:
            self.q = [good]
            return
        name = act[1]
        body = good[10:]
        if len(act) > 2 and name == "payload":
            self.applied.append((k, list(act), cmd))
            self.q = [D(bytes.fromhex(act[2]))]
            return
        if len(act) > 2:
            n = int(act[2])
            if name == "trunc" and 0 < n < len(good):
                self.q = [good[:n]]
            elif name == "apdu-trunc" and 0 <= n < len(body):
                self.q = [D(body[:n])]
            elif name == "surplus" and n > 0 and len(body) >= 4 and body[0] == 0xD5:
                self.q = [D(body[:-2] + surplus_octets(n) + body[-2:])]
            else:                                  # nothing to cut at that length: the command runs undisturbed
                self.not_applicable += 1
                self.q = [good]
                return
            self.applied.append((k, list(act), cmd))
            return
        self.applied.append((k, list(act), cmd))
        E = lambda e: ("raise", e)
        if name == "etimedout":
            self.q = []
        elif name in ("eio", "enodev") or name in FAULTS_ERRNO_COLLISION_CCID:
            self.q = [E(ERRNO_OF[name])]
        elif name == "ccid-short":
            self.q = [good[:9]]
        elif name == "ccid-type":
            self.q = [b"\x81" + good[1:]]
        elif name == "ccid-len":
            self.q = [good + b"\x00"]
        elif name == "apdu-short":
            self.q = [D(body[:2] + b"\x90")]
        elif name == "sw-error":
            self.q = [D(body[:-2] + bytes.fromhex("6300"))]
        elif name == "sw-only":
            self.q = [D(bytes.fromhex("6300"))]
        elif name == "garbled-all":
            self.q = [D(bytes((i * 37 + 11) & 0xFF for i in range(len(body))))]
        elif name == "wrongcode":
            self.q = [D(bytes([0xD5, (cmd + 3) & 0xFF]) + body[2:])]
        elif name == "wrongtfi":
            self.q = [D(bytes([0xD4]) + body[1:])]
        elif name == "nostatus":
            self.q = [D(bytes([0xD5, (cmd + 1) & 0xFF]) + b"\x90\x00")]
        else:
            raise ValueError("unknown ccid fault %r" % (name,))

    def host_read(self, timeout_ms):
        if not self.q:
            if self.clock is not None:
                self.clock.advance(max(0, (timeout_ms or 0)) / 1000.0)
            raise IOError(errno.ETIMEDOUT, os.strerror(errno.ETIMEDOUT))
        item = self.q.pop(0)
        if isinstance(item, tuple):
            raise link_error(item[1])
        if self.clock is not None:
            self.clock.advance(0.0005)
        return bytearray(item)

    # ---- the chip ------------------------------------------------------------------------------------------
    def execute(self, cmd, p):
        """-> response payload (after D5 cmd+1) | None (the chip does not answer yet) | 'syntax' (error frame)"""
        st, v = self.st, self.variant
        p = bytes(p)
        fld = st.field
        if cmd == 0x00:
            if not p:
                return "syntax"
            if p[0] == 0x00:
                return p[1:] if v == "rcs956" else p
            return b"\x00"
        if cmd == 0x02:
            return self.FW[v]
        if cmd == 0x04:
            return bytes([0x00, 0x00, 0x00, 0x80])
        if cmd == 0x06:
            if len(p) % 2 or not p:
                return "syntax"
            addrs = [p[i] << 8 | p[i + 1] for i in range(0, len(p), 2)]
            if v == "pn533" and any(0xA000 <= a < 0xA400 for a in addrs):
                return b"\x01"                                     # no EEPROM fitted
            vals = bytes(self.reg_read(a) for a in addrs)
            return (b"\x00" + vals) if v == "pn533" else vals
        if cmd == 0x08:
            if len(p) % 3 or not p:
                return "syntax"
            for i in range(0, len(p), 3):
                self.reg_write(p[i] << 8 | p[i + 1], p[i + 2])
            self.ciu_after_write_batch()
            if v == "pn533":
                return b"\x00"
            if v == "rcs956":
                return bytes(len(p) // 3)
            return b""
        if cmd == 0x0C:
            return bytes(3)
        if cmd in (0x0E, 0x10, 0x12, 0x14, 0x1C):
            if cmd == 0x12 and p:
                st.params = p[0]
            return b""
        if cmd == 0x16:
            return b"\x00"
        if cmd == 0x18:
            st.target_mode = False
            return b""
        if cmd == 0x32:
            if not p:
                return "syntax"
            st.rfcfg[p[0]] = p[1:]
            if p[0] == 0x01 and len(p) > 1:
                cur = st.regs.get(R_TXCONTROL, 0x80)
                st.regs[R_TXCONTROL] = (cur | 0x03) if p[1] & 1 else (cur & ~0x03)
            return b""
        if cmd == 0x58:
            return b""
        if cmd == 0x4A:
            if len(p) < 2 or p[1] not in self.BRTY[v]:
                return "syntax"
            st.regs[R_TXCONTROL] = st.regs.get(R_TXCONTROL, 0x80) | 0x03
            t = fld.poll(v, p[1], p[2:])
            if t is None:
                # what the CIU FIFO shows afterwards: the SENS_REQ still there = nobody answered
                st.regs[R_FIFODATA] = 0x93 if (p[1] == 0 and fld.kind == "t1t" and not fld.muted) else 0x26
                return b"\x00"
            if p[1] == 0:
                st.regs[R_RXMODE] = st.regs.get(R_RXMODE, 0) | 0x80      # firmware leaves RxCRCEn set
                st.regs[R_TXMODE] = st.regs.get(R_TXMODE, 0) | 0x80
            return b"\x01\x01" + t
        if cmd == 0x40:
            if not p:
                return "syntax"
            fld.log_air("dx", p[1:], True)
            ev = fld.air_event()
            r = fld.exchange(p[1:])
            if ev == "mute":
                return b"\x01"
            if ev == "badcrc" and r is not None:
                return b"\x02"                                           # the firmware checks the CRC of the answer
            return (b"\x00" + r) if r is not None else b"\x01"
        if cmd == 0x42:
            # 106 kbps Type A framing: the CIU appends CRC_A to what it transmits while CIU_TxMode.TxCRCEn (bit 7) is
            # set, and verifies + strips CRC_A of what it receives while CIU_RxMode.RxCRCEn (bit 7) is set; with
            # the bit clear the octets go to / come from the air as they are.
            typea = fld.kind in ("t2t", "t4a")
            fld.log_air("thru", p, st.regs.get(R_TXMODE, 0x80) & 0x80)
            ev = fld.air_event()
            if ev == "mute":
                fld.log_tx(p)
                return b"\x01"
            if typea and not st.regs.get(R_TXMODE, 0x80) & 0x80:
                if len(p) < 3 or not refcrc.check_crc_a(p):
                    fld.log_tx(p)
                    return b"\x01"                                       # no tag answers a frame with a wrong CRC_A
                p = p[:-2]
            r = fld.exchange(p)
            if r is None:
                return b"\x01"
            if typea:
                if fld.rsp_override is not None:
                    air = bytes(r)                                       # the octets on air as the monitor chose them
                else:
                    air = refcrc.append_crc_a(r) if len(r) > 1 else r    # the 4 bit ACK/NAK carries no CRC
                if ev == "badcrc":
                    if len(air) < 3:
                        return b"\x02"
                    air = air[:-1] + bytes([air[-1] ^ 0x01])
                if st.regs.get(R_RXMODE, 0x80) & 0x80:
                    if len(air) < 3 or not refcrc.check_crc_a(air):
                        return b"\x02"                                   # "a CRC error has been detected by the CIU"
                    r = air[:-2]
                else:
                    r = air                                              # RxCRCEn off: the CRC bytes stay in the data
            elif ev == "badcrc":
                return b"\x02"
            return b"\x00" + r
        if cmd in (0x44, 0x52, 0x54, 0x4E, 0x60):
            return b"\x00"
        if cmd in (0x46, 0x56):
            if len(p) < 3:
                return "syntax"
            if fld.kind != "dep" or fld.muted:
                return b"\x01"
            st.regs[R_TXCONTROL] = st.regs.get(R_TXCONTROL, 0x80) | 0x03
            return b"\x00\x01" + fld.nfcid3t + fld.atr_tail
        if cmd == 0x50:
            return b"\x00" + fld.nfcid3t + fld.atr_tail
        if cmd == 0x8C:
            a = fld.activation(v, p[0] if p else 0)
            if a is None:
                return None
            st.target_mode = True
            return bytes([a[0]]) + a[1]
        if cmd == 0x88 or cmd == 0x86:
            c = fld.next_command()
            if c is None:
                return None
            return b"\x00" + c
        if cmd in (0x90, 0x8E, 0x94, 0x92):
            fld.log_tx(p)
            return b"\x00"
        if cmd == 0x8A:
            return b"\x01\x00" if st.target_mode else b"\x00\x00"
        return "syntax"

    # ---- a small part of the CIU ------------------------------------------------------------------------------
    def reg_read(self, a):
        st = self.st
        if a == R_FIFODATA:
            if st.fifo:
                return st.fifo.pop(0)
            return st.regs.get(a, 0)
        if a == R_FIFOLEVEL:
            return min(len(st.fifo), 64)
        if a == R_COMMIRQ:
            return st.commirq
        if a == R_DIVIRQ:
            if st.pending_rfoff:
                st.pending_rfoff = False
                st.divirq |= 0x01
            return st.divirq
        return st.regs.get(a, 0x80 if a in (R_TXMODE, R_RXMODE) else 0)

    def reg_write(self, a, val):
        st = self.st
        if a == R_FIFODATA:
            st.txfifo.append(val)
            st.flags_fifo_written = True
            return
        if a == R_FIFOLEVEL:
            if val & 0x80:
                st.fifo = bytearray()
                st.txfifo = bytearray()
                st.flushed = True
            return
        if a == R_COMMIRQ:
            st.commirq = (st.commirq | val & 0x7F) if val & 0x80 else (st.commirq & ~val & 0x7F)
            return
        if a == R_DIVIRQ:
            st.divirq = (st.divirq | val & 0x7F) if val & 0x80 else (st.divirq & ~val & 0x7F)
            return
        st.regs[a] = val
        if a == R_COMMAND:
            st.last_command = val
            if val == 0x0D:
                st.autocoll = True
                st.start_autocoll = True
            elif val == 0x00:
                st.autocoll = False
            elif val in (0x08, 0x0C):
                st.start_receive = True
        if a == R_BITFRAMING and val & 0x80:
            st.start_send = True

    def ciu_after_write_batch(self):
        """effects of a WriteRegister batch on the RF side"""
        st = self.st
        fld = st.field
        g = st.__dict__
        start_send = g.pop("start_send", False)
        start_receive = g.pop("start_receive", False)
        start_autocoll = g.pop("start_autocoll", False)
        flushed = g.pop("flushed", False)
        g.pop("flags_fifo_written", None)
        if fld.kind == "t1t" and (start_receive or (start_send and st.regs.get(R_COMMAND) == 0x0C)):
            # Type 1 Tag command sent byte by byte through the CIU: command + CRC_B in the transmit FIFO
            tx = bytes(st.txfifo)
            st.txfifo = bytearray()
            fld.log_air("ciu", tx, False)
            ev = fld.air_event()
            if fld.t1_wellformed(tx):
                self.crc_b_tx[0] += 1
                r = fld.t1_exchange(tx[:-2]) if ev != "mute" else None
            else:
                self.crc_b_tx[1] += 1                # no tag answers a frame that is not command || CRC_B(command)
                r = None
            if fld.rsp_override is not None and ev != "mute":
                raw = bytes(fld.rsp_override)
            else:
                raw = refcrc.append_crc_b(r) if r is not None else None
            if ev == "badcrc" and raw is not None:
                raw = raw[:-1] + bytes([raw[-1] ^ 0x01])
            st.fifo = bytearray(pack_with_parity(raw)) if raw is not None and not fld.muted else bytearray()
            return
        if fld.kind == "rdr-tt3":
            if start_autocoll and not st.fifo:
                c = fld.next_command() if not fld.tt3_active else None
                if c is not None:
                    fld.tt3_active = True
                    st.fifo = bytearray(c)
                    st.commirq |= 0x30
                st.txfifo = bytearray()
                return
            if (flushed or start_send) and fld.tt3_active:
                if start_send:
                    fld.log_tx(bytes(st.txfifo))
                st.txfifo = bytearray()
                c = fld.next_command()
                if c is not None:
                    st.fifo = bytearray(c)
                    st.commirq |= 0x20
                return


def pack_with_parity(data):
    """received bytes as they sit in the CIU FIFO when the parity check is disabled: every byte LSB first
    followed by its odd parity bit, the bit stream cut into octets LSB first"""
    bits = []
    for b in bytes(data):
        byte_bits = [(b >> i) & 1 for i in range(8)]
        bits.extend(byte_bits)
        bits.append(1 - sum(byte_bits) % 2)
    while len(bits) % 8:
        bits.append(0)
    out = bytearray()
    for i in range(0, len(bits), 8):
        out.append(sum(bit << j for j, bit in enumerate(bits[i:i + 8])))
    return bytes(out)


def parity_data_bit_positions(nbytes):
    """indices into the packed bit stream (bit k = bit k%8 of octet k//8) that carry data bits, not parity/padding"""
    return [9 * i + j for i in range(nbytes) for j in range(8)]


# --------------------------------------------------------------------------------------------------
class SimUSB(object):
    TYPE = "USB"

    def __init__(self, sim, manufacturer="vf", product="SimReader v1"):
        self.sim = sim
        self.manufacturer_name = manufacturer
        self.product_name = product
        self.closed = False
        self.writes = 0

    def write(self, frame, timeout=0):
        self.writes += 1
        self.sim.host_write(frame)

    def read(self, timeout=0):
        return self.sim.host_read(timeout)

    def close(self):
        self.closed = True


class SimSerial(object):
    """the part of a serial port object the Arygon driver talks to directly"""
    def __init__(self, owner, port, baudrate):
        self.owner, self.port, self.baudrate, self.timeout = owner, port, baudrate, 0.05
        self.line = b""
        self.ascii_log = []

    def write(self, data):
        data = bytes(data)
        self.ascii_log.append(data)
        sim = self.owner.sim
        if sim.link != "arygon" or self.baudrate != sim.arygon_baud:
            self.line = b""
            return
        if data == b"0av":
            self.line = b"FF00000600V3.2\r\n"
        elif data in (b"0at05", b"0ah05"):
            self.line = b"FF000000\r\n"
        elif data == b"0au":
            self.line = b"FF000000\r\n"
        else:
            self.line = b""

    def readline(self):
        line, self.line = self.line, b""
        if not line and sim_clock(self.owner) is not None:
            sim_clock(self.owner).advance(self.timeout or 0)
        return line

    def flushInput(self):
        pass

    def flushOutput(self):
        pass

    def close(self):
        pass


def sim_clock(transport):
    return transport.sim.clock


class SimTTY(object):
    TYPE = "TTY"
    manufacturer_name = None
    product_name = None

    def __init__(self, sim, port="/dev/ttyVF0"):
        self.sim = sim
        self._port = port
        self.tty = None
        self.opens = []
        self.open(port)

    def open(self, port, baudrate=115200):
        self.opens.append((port, baudrate))
        self.tty = SimSerial(self, port, baudrate)

    @property
    def port(self):
        return self.tty.port if self.tty else ""

    @property
    def baudrate(self):
        return self.tty.baudrate if self.tty else 0

    @baudrate.setter
    def baudrate(self, value):
        if self.tty:
            self.tty.baudrate = value

    def write(self, frame):
        if self.tty is not None:
            self.sim.host_write(frame)

    def read(self, timeout):
        if self.tty is not None:
            return self.sim.host_read(timeout)

    def close(self):
        self.tty = None


# --------------------------------------------------------------------------------------------------
class SimSerialPort(object):
    """a serial port as pyserial presents it (byte stream, read(n) returns what arrived within the time-out),
    placed under the *real* nfc.clf.transport.TTY class.  What the chip sends is taken frame by frame from the
    simulator's queue; a queued ("raise", errno) becomes an IOError from read()."""
    def __init__(self, sim, port, baudrate, timeout):
        self.sim, self.port, self.baudrate, self.timeout = sim, port, baudrate, timeout
        self.buf = bytearray()
        self.is_open = True

    def write(self, data):
        self.sim.host_write(bytes(data))
        return len(data)

    def read(self, size=1):
        q = self.sim.q
        while len(self.buf) < size and q:
            item = q[0]
            if isinstance(item, tuple):
                if self.buf:
                    break                       # deliver what arrived before the port failed
                q.pop(0)
                raise link_error(item[1])
            self.buf += q.pop(0)
        if len(self.buf) < size and self.sim.clock is not None:
            self.sim.clock.advance(self.timeout or 0)
        out, self.buf = bytes(self.buf[:size]), self.buf[size:]
        return out

    def readline(self):
        return b""

    def flushInput(self):
        self.buf = bytearray()

    def flushOutput(self):
        pass

    def close(self):
        self.is_open = False


class _SerialModuleProxy(object):
    """stands in for the `serial` module inside nfc.clf.transport: Serial() opens a SimSerialPort when the port
    name belongs to a simulator, everything else is the real module"""
    SIMS = {}

    def __init__(self, real):
        self._real = real

    def __getattr__(self, name):
        return getattr(self._real, name)

    def Serial(self, port=None, baudrate=9600, timeout=None, **kw):
        if port in self.SIMS:
            return SimSerialPort(self.SIMS[port], port, baudrate, timeout)
        return self._real.Serial(port, baudrate, timeout=timeout, **kw)


def real_tty_on(sim, port="/dev/ttyVFRT0"):
    """an instance of the real nfc.clf.transport.TTY whose serial port is simulated"""
    import nfc.clf.transport as T
    if not isinstance(T.serial, _SerialModuleProxy):
        T.serial = _SerialModuleProxy(T.serial)
    _SerialModuleProxy.SIMS[port] = sim
    return T.TTY(port)


# --------------------------------------------------------------------------------------------------
DRIVERS = {
    # name: (nfcpy module, chip variant, link, arygon baud)
    "pn531": ("pn531", "pn531", "usb", None),
    "pn532": ("pn532", "pn532", "tty", None),
    "pn532rt": ("pn532", "pn532", "tty", None),        # the real transport.TTY class over a simulated serial port
    "pn533": ("pn533", "pn533", "usb", None),
    "rcs956": ("rcs956", "rcs956", "usb", None),
    "acr122": ("acr122", "pn532", "ccid", None),
    "arygonA": ("arygon", "pn531", "arygon", 9600),
    "arygonB": ("arygon", "pn532", "arygon", 115200),
}


class _OsProxy(object):
    """os as seen by nfc.clf.pn532: init() shells out to `stty`; keep that away from the machine"""
    def __getattr__(self, name):
        return getattr(os, name)

    def system(self, cmd):
        return 256


def timed_modules():
    import importlib
    mods = []
    for name in ("nfc.clf", "nfc.clf.pn53x", "nfc.clf.pn531", "nfc.clf.pn532", "nfc.clf.pn533", "nfc.clf.rcs956",
                 "nfc.clf.acr122", "nfc.clf.arygon"):
        mods.append(importlib.import_module(name))
    return mods


def make(driver, clock=None):
    """-> (clf, device, sim, transport): the real driver created by its own init() on a simulated transport,
    under a real ContactlessFrontend.  The virtual clock is installed in all driver modules."""
    import importlib
    import nfc.clf
    from vf.core import vclock
    modname, variant, link, baud = DRIVERS[driver]
    if clock is None:
        clock = vclock.VClock()
    vclock.patch(timed_modules(), clock)
    import nfc.clf.pn532 as pn532
    if not isinstance(pn532.os, _OsProxy):
        pn532.os = _OsProxy()
    sim = ChipsetSim(variant, link, clock, arygon_baud=baud or 115200)
    if link in ("usb", "ccid"):
        tr = SimUSB(sim, "vf", "ACR122U PICC Interface" if link == "ccid" else "SimReader")
    elif driver == "pn532rt":
        tr = real_tty_on(sim)
    else:
        tr = SimTTY(sim)
    mod = importlib.import_module("nfc.clf." + modname)
    try:
        dev = mod.init(tr)
    except Exception as e:
        e.vf_sim = sim               # lets a monitor see what the driver wrote before it gave up
        raise
    dev._path = "sim:" + driver
    clf = nfc.clf.ContactlessFrontend()
    clf.device = dev
    return clf, dev, sim, tr


# --------------------------------------------------------------------------------------------------
def selftest():
    """conformance self-test: the literal host-frame transcripts of the repository's driver tests
    (tests/base_clf_pn53x.py, test_clf_pn53*.py, test_clf_rcs956.py, test_clf_acr122.py, test_clf_arygon.py) are
    replayed against the simulator; returns the number of frames compared, raises AssertionError on a mismatch"""
    h = bytes.fromhex
    n = 0

    def CMD(s):
        return F.build_command(h(s)[0], h(s)[1:])

    def RSP(s):
        return F.build_response(h(s)[0] - 1, h(s)[1:])

    def talk(sim, frame, expect):
        sim.host_write(frame)
        got = [bytes(sim.host_read(100)) for _ in range(len(sim.q))]
        assert got == expect, ("sim transcript mismatch", sim.variant, bytes(frame).hex(), [g.hex() for g in got],
                               [e.hex() for e in expect])
        assert not sim.bad_writes, sim.bad_writes
        return len(expect)

    # base_clf_pn53x.TestChipset.test_command_with_standard_frame / extended frame (Diagnose echo)
    for v in ("pn531", "pn532", "pn533"):
        sim = ChipsetSim(v, "usb")
        n += talk(sim, CMD("00 00 313233"), [ACK, RSP("01 00 313233")])
    sim = ChipsetSim("rcs956", "usb")
    n += talk(sim, CMD("00 00 313233"), [ACK, RSP("01 313233")])
    line = bytes(x & 0xFF for x in range(262))
    for v in ("pn532", "pn533"):
        sim = ChipsetSim(v, "usb")
        n += talk(sim, F.build_command(0, b"\x00" + line), [ACK, F.build_response(0, b"\x00" + line)])
    # init transcripts: firmware versions and plain acknowledgements
    for v, fw in (("pn531", "03 0304"), ("pn532", "03 32010607"), ("pn533", "03 33020707"), ("rcs956", "03 33013007")):
        sim = ChipsetSim(v, "usb")
        n += talk(sim, CMD("02"), [ACK, RSP(fw)])
        n += talk(sim, CMD("12 00"), [ACK, RSP("13")])
        n += talk(sim, CMD("32 02000b0a"), [ACK, RSP("33")])
        n += talk(sim, CMD("32 0102"), [ACK, RSP("33")])
    sim = ChipsetSim("pn531", "usb")
    n += talk(sim, CMD("14 0100"), [ACK, RSP("15")])
    sim = ChipsetSim("rcs956", "usb")
    n += talk(sim, CMD("18 01"), [ACK, RSP("19")])
    n += talk(sim, CMD("08 032859"), [ACK, RSP("09 00")])
    sim = ChipsetSim("pn533", "usb")
    n += talk(sim, CMD("06 a000"), [ACK, RSP("07 01")])
    n += talk(sim, CMD("08 63013b"), [ACK, RSP("09 00")])
    # pn532.init() on a serial line: literal frames behind the long preamble
    sim = ChipsetSim("pn532", "tty")
    n += talk(sim, bytes(10) + h("0000ff02fed4022a00"), [ACK, h("0000ff06fad50332010607e800")])
    n += talk(sim, bytes(10) + h("0000ff05fbd4140100001700"), [ACK, h("0000ff02fed5151600")])
    assert sim.frames_ok["long-preamble"] == 2
    # TestDevice: sense_tta (Type 2 Tag), register access, exchange with the CRC left in band
    for v in ("pn532", "pn533", "rcs956"):
        sim = ChipsetSim(v, "usb")
        sim.st.field = Field("t2t")
        reg = (lambda s: RSP("07 00" + s)) if v == "pn533" else (lambda s: RSP("07" + s))
        n += talk(sim, CMD("4A 0100"), [ACK, RSP("4B 0101004400070416c6c2d73881")])
        sim.st.regs[R_RXMODE] = 0xFF
        n += talk(sim, CMD("06 6303"), [ACK, reg("FF")])
        n += talk(sim, CMD("08 63037f"), [ACK, RSP("09 00") if v != "pn532" else RSP("09")])
        sim.st.regs.update({R_TXMODE: 0, R_RXMODE: 0, R_TXAUTO: 0})
        n += talk(sim, CMD("06 6302 6303 6305"), [ACK, reg("000000")])
        n += talk(sim, CMD("32 020a0b0f"), [ACK, RSP("33")])
        sim.st.field.mem[:16] = bytes(range(16))
        sim.st.regs[R_TXMODE] = 0x80          # (the transcript's register values are placeholders; TxCRCEn is on in a chip)
        n += talk(sim, CMD("42 3000"), [ACK, RSP("43 00 000102030405060708090a0b0c0d0e0f 77f5")])
        sim.st.field.muted = True
        n += talk(sim, CMD("42 3000"), [ACK, RSP("43 01")])
        n += talk(sim, CMD("4A 0100"), [ACK, RSP("4B 00")])
        n += talk(sim, CMD("06 6339"), [ACK, reg("26")])
    # register controlled CRC_A handling of InCommunicateThru (CIU_TxMode.TxCRCEn / CIU_RxMode.RxCRCEn, bit 7 each)
    sim = ChipsetSim("pn533", "usb")
    sim.st.field = Field("t2t", sel_res=0x08)
    n += talk(sim, CMD("4A 0100"), [ACK, RSP("4B 0101004408070416c6c2d73881")])
    sim.st.field.mem[:16] = bytes(range(16))
    assert sim.st.regs[R_RXMODE] & 0x80 and sim.st.regs[R_TXMODE] & 0x80
    n += talk(sim, CMD("42 3000"), [ACK, RSP("43 00 000102030405060708090a0b0c0d0e0f")])         # verified and stripped
    sim.st.field.rsp_override = h("000102030405060708090a0b0c0d0e0f 77f4")
    n += talk(sim, CMD("42 3000"), [ACK, RSP("43 02")])                                          # CRC error status
    sim.st.regs[R_RXMODE] = 0x00
    n += talk(sim, CMD("42 3000"), [ACK, RSP("43 00 000102030405060708090a0b0c0d0e0f 77f4")])    # as received
    sim.st.field.rsp_override = None
    sim.st.regs[R_TXMODE] = 0x00
    n += talk(sim, CMD("42 3000"), [ACK, RSP("43 01")])                                          # sent without CRC_A
    n += talk(sim, CMD("42 300002a8"), [ACK, RSP("43 00 000102030405060708090a0b0c0d0e0f 77f5")])
    # Type 1 Tag discovery
    sim = ChipsetSim("pn533", "usb")
    sim.st.field = Field("t1t")
    n += talk(sim, CMD("4A 0100"), [ACK, RSP("4B 00")])
    n += talk(sim, CMD("06 6339"), [ACK, RSP("07 00 93")])
    n += talk(sim, CMD("4A 0104"), [ACK, RSP("4B 01010c00b2565400")])
    n += talk(sim, CMD("40 01 78 0000 00000000"), [ACK, RSP("41 001148b2565400")])
    # Type B, Type F, DEP
    sim = ChipsetSim("pn532", "usb")
    sim.st.field = Field("106b")
    sb = "50E8253EEC00000011008185"
    n += talk(sim, CMD("4A 010300"), [ACK, RSP("4B 0101" + sb + "0100")])
    n += talk(sim, CMD("42 ca01"), [ACK, RSP("43 00ca01")])
    n += talk(sim, CMD("42 050008"), [ACK, RSP("43 00" + sb)])
    sim.st.field = Field("212f")
    n += talk(sim, CMD("4A 010100ffff0100"), [ACK, RSP("4B 0101 14 01 0102030405060708 F1F2F3F4F5F6F7F8 AABB")])
    sim.st.field = Field("dep")
    n += talk(sim, CMD("46 010006 30313233343536373839 46666d 010113 020207ff 040132 070107"),
              [ACK, RSP("47 0001 66f6e98d1c13dfe56de4 0000000702 46666d 010112 020207ff 040164 070103")])
    sim.st.field = Field("none")
    n += talk(sim, CMD("46 01000230313233343536373839"), [ACK, RSP("47 01")])
    # listen transcripts
    sim = ChipsetSim("pn533", "usb")
    sim.st.field = Field("rdr-tt2")
    n += talk(sim, CMD("8C 01 440001020300" + "00" * 18 + "00" * 10 + "0000"), [ACK, RSP("8D 00 3000")])
    sim.st.field = Field("rdr-tt4")
    n += talk(sim, CMD("8C 01 440001020320" + "00" * 18 + "00" * 10 + "0000"), [ACK, RSP("8D 00 E080")])
    n += talk(sim, CMD("90 0578807002"), [ACK, RSP("91 00")])
    sim.st.field = Field("ini-dep106", atr_req=h("D400" "30313233343536373839" "00000000"))
    n += talk(sim, CMD("8C 02 010100010203" + "00" * 18 + "00" * 10 + "0000"),
              [ACK, RSP("8D 04 11 D400 30313233343536373839 00000000")])
    sim.st.field = Field("none")
    n += talk(sim, CMD("8C 02 010100010203" + "00" * 18 + "00" * 10 + "0000"), [ACK])
    # error frame for an unknown command code, ACK aborts
    sim = ChipsetSim("pn532", "usb")
    n += talk(sim, CMD("FE"), [ACK, F.ERROR_FRAME])
    sim.host_write(CMD("88"))
    sim.host_write(ACK)
    assert sim.q == [] and sim.aborts == 1
    n += 1
    # ACR122U (tests/test_clf_acr122.py chipset fixture)
    sim = ChipsetSim("pn532", "ccid")
    n += talk(sim, h("6f050000000000000000ff00480000"), [h("800a000000000002810041435231323255323033")])
    n += talk(sim, h("62000000000000000000"), [h("80020000000000000000" "3b00")])
    n += talk(sim, h("6f050000000000000000ff00517f00"), [h("80020000000000008100" "907f")])
    n += talk(sim, h("6f090000000000000000ff00400e0400000000"), [h("80020000000000008100" "9002")])
    n += talk(sim, h("6f060000000000000000" "0000ff00ff00"), [h("80020000000000008100" "9000")])
    n += talk(sim, h("6f070000000000000000ff00000002d402"), [h("80080000000000008100" "d50332010607" "9000")])
    # Arygon: "2" prefix in front of every TAMA frame
    sim = ChipsetSim("pn531", "arygon", arygon_baud=9600)
    n += talk(sim, b"2" + CMD("02"), [ACK, RSP("03 0304")])
    sim.host_write(CMD("02"))
    assert sim.bad_writes and sim.bad_writes[0][0] == "arygon-prefix"
    n += 1
    # Type 1 Tag command frames: fixed length by command code, CRC_B over exactly the command (Topaz command set)
    read8 = h("02030000000000000000b2565400")
    assert Field.t1_wellformed(refcrc.append_crc_b(read8)) and Field.t1_wellformed(h("78000000000000") + h("d0 43"))
    assert not Field.t1_wellformed(refcrc.append_crc_b(refcrc.append_crc_b(read8)))     # CRC of command || CRC
    assert not Field.t1_wellformed(read8) and not Field.t1_wellformed(refcrc.append_crc_b(read8[:7]))
    assert status_payload(["status", 0x40], b"\x00abc") == b"\x40" and status_payload(["status+data", 0x40], b"\x00abc") == b"\x40abc"
    assert status_payload(["status+data", 0x13], b"\x00") == b"\x13" + STALE_OCTETS
    n += 6
    # parity packing: 9 bits per byte, LSB first
    assert pack_with_parity(b"\x00") == b"\x00\x01" and pack_with_parity(b"\xff\x01") == bytes([0xFF, 0x03, 0x00])
    n += 2
    return n
