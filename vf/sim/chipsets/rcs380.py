"""Sony NFC Port-100 (RC-S380) chipset simulator behind a simulated USB transport.

`Port100Sim` is at the same time the transport object handed to `nfc.clf.rcs380.init(transport)`
(`write(frame)`, `read(timeout)`, `close()`, `manufacturer_name`, `product_name`) and the chip behind it.
It is written from the Port-100 host protocol (frame format in vf/ref/port100_frames.py; command set and the
command/response layouts as they are documented in the public Linux `port100` NFC driver), not from nfcpy:

    command (D6 code payload)                     response (D7 code+1 payload)
    2A SetCommandType  type                       status
    20 GetFirmwareVersion                         minor major (BCD)
    22 GetPDDataVersion                           minor major
    06 SwitchRF        on/off                     status
    00 InSetRF         send-set send-comm recv-set recv-comm   status
    02 InSetProtocol   (number value)*            status
    04 InCommRF        timeout(le16, 0.1 ms) data status(le32) [rx-info data]   (rx-info/data only if status == 0)
    40 TgSetRF, 42 TgSetProtocol, 44 TgSetAuto, 46 TgSetRFOff                   status
    48 TgCommRF        guard(le16) send-timeout(le16) mdaa nfca[6] nfcf[18] mf-halted arae recv-timeout(le16, ms) data
                                                  comm-type ar-status activated status(le32) data

Every frame the host writes is validated with the independent validator; the findings are kept in
`frame_errors` (the simulator itself parses leniently so that a driver that builds wrong frames still runs and the
defect is reported as what it is).  What happens on the RF side is decided by a *remote* model: a `RemoteCard`
(the chip is initiator) or a `RemoteInitiator` (the chip is target).  A *script* `{k: action}` says what the k-th
host command after `mark()` returns instead of the regular answer:

    {"kind": "rf_status", "word": w}       RF commands: 32 bit communication status word w, no data
    {"kind": "status_byte", "value": s}    other commands: command status byte s
    {"kind": "link", "fault": name, ...}   host-link fault, see LINK_FAULTS
"""
import collections
import errno
import os
import struct

from vf.ref import port100_frames as pf

ACK = pf.ACK
PN53X_ERROR_FRAME = bytes.fromhex("0000ff01ff7f8100")      # "syntax error" frame of the PN53x family framing
SHORT_ERROR_FRAME = bytes.fromhex("0000ffffff")            # header only

CMD_NAMES = {
    0x00: "InSetRF", 0x02: "InSetProtocol", 0x04: "InCommRF", 0x06: "SwitchRF", 0x10: "MaintainFlash",
    0x12: "ResetDevice", 0x20: "GetFirmwareVersion", 0x22: "GetPDDataVersion", 0x24: "GetProperty",
    0x26: "InGetProtocol", 0x28: "GetCommandType", 0x2A: "SetCommandType", 0x30: "InSetRCT", 0x32: "InGetRCT",
    0x34: "GetPDData", 0x36: "ReadRegister", 0x40: "TgSetRF", 0x42: "TgSetProtocol", 0x44: "TgSetAuto",
    0x46: "TgSetRFOff", 0x48: "TgCommRF", 0x50: "TgGetProtocol", 0x60: "TgSetRCT", 0x62: "TgGetRCT",
    0xF0: "Diagnose",
}
RF_COMMANDS = (0x04, 0x48)

# communication status word bits (InCommRF / TgCommRF)
STATUS_BITS = collections.OrderedDict([
    ("PROTOCOL_ERROR", 0x00000001), ("PARITY_ERROR", 0x00000002), ("CRC_ERROR", 0x00000004),
    ("COLLISION_ERROR", 0x00000008), ("OVERFLOW_ERROR", 0x00000010), ("TEMPERATURE_ERROR", 0x00000040),
    ("RECEIVE_TIMEOUT_ERROR", 0x00000080), ("CRYPTO1_ERROR", 0x00000100), ("RFCA_ERROR", 0x00000200),
    ("RF_OFF_ERROR", 0x00000400), ("TRANSMIT_TIMEOUT_ERROR", 0x00000800), ("RECEIVE_LENGTH_ERROR", 0x80000000),
])
# InSetRF communication type numbers -> bit rate / technology
IN_COMM_TYPE = {1: "212F", 2: "424F", 3: "106A", 4: "212A", 5: "424A", 7: "106B", 8: "212B", 9: "424B"}
# TgCommRF response communication type
TG_COMM_TYPE = {"106A": 0x0B, "212F": 0x0C, "424F": 0x0D}

LINK_FAULTS = (
    # faults where the transport itself raises IOError are named io-...
    "io-timeout@write", "io-eio@write", "io-enodev@write",          # write() itself fails
    "io-timeout@ack", "io-eio@ack", "io-enodev@ack",                 # nothing at all / error on the first read ("no ACK")
    "io-timeout@rsp", "io-eio@rsp", "io-enodev@rsp",                 # ACK, then silence / error on the second read
    "no-ack",                                               # the response frame arrives without a preceding ACK
    "ack-ack",                                              # a second ACK instead of the response
    "short-ack",                                            # ACK frame cut to `cut` bytes
    "short-frame",                                          # response frame cut to `cut` bytes (1..len-1)
    "short-payload",                                        # well formed frame whose data is cut to `cut` bytes
    "bad-lcs", "bad-dcs", "bad-postamble", "bad-start",     # garbled frame: one framing byte wrong
    "bitflip",                                              # garbled frame: bit `bit` of byte `pos` inverted
    "extra-bytes",                                          # frame followed by junk in the same transfer
    "surplus",                                              # *well formed* response frame (LEN, LCS, DCS right) whose
                                                            # payload has `n` more octets than the command's layout
    "error-frame", "error-frame-7f", "error-frame@ack",     # error frame instead of response / instead of ACK
    "wrong-rsp-code", "wrong-direction",                    # D7 code+3 / D6 code+1
    "garbage", "garbage@ack",                               # bytes that are no frame
    "raw",                                                  # `frames`: the transfers the reads return, verbatim
)

SURPLUS_LENGTHS = (1, 2, 5)

# the faults where the transport itself fails: errno values nfc.clf.transport.USB.write()/read() can raise
# (ETIMEDOUT, ENODEV, EIO - see the `except libusb...` clauses there)
IO_ERRNO = {"io-timeout": errno.ETIMEDOUT, "io-eio": errno.EIO, "io-enodev": errno.ENODEV}


def surplus_octets(n):
    return bytes((0xA5 + 17 * i) & 0xFF for i in range(n))


def faults_hard():
    """names of the host-link faults with a fault_phase()"""
    return [f for f in LINK_FAULTS if fault_phase(f)]


def fault_phase(name):
    """'write' | 'ack' | 'rsp' for the faults where the transport itself raises IOError while the host command is
    delivered or its answer fetched, i.e. where the harness *knows* that the host link is what failed:
      write  transport.write() raised: the chip never saw the command (and does not execute it)
      ack    transport.read() raised instead of returning the ACK frame (ETIMEDOUT = no ACK at all): the chip never
             acknowledged the command (and the simulated chip does not execute it)
      rsp    transport.read() raised after a correct ACK instead of returning the response frame: the chip never
             answered
    None for everything else (unexpected, garbled or cut frames are judged by the coarse clause only)."""
    if name.split("@")[0] not in IO_ERRNO or "@" not in name:
        return None
    return {"write": "write", "ack": "ack", "rsp": "rsp"}.get(name.split("@")[1])


# --------------------------------------------------------------------------------------------------------
# ISO/IEC 14443-3 CRC, Annex B: x^16 + x^12 + x^5 + 1, bits enter least significant first, register
# preset 6363h (CRC_A) / FFFFh (CRC_B, result inverted); transmitted low byte first.  Written as a plain
# bit-serial shift register over the message bits.
def _crc16_iso14443(data, preset):
    reg = preset
    for octet in bytes(data):
        for i in range(8):
            inbit = (octet >> i) & 1
            fb = (reg & 1) ^ inbit
            reg >>= 1
            if fb:
                reg ^= 0x8408          # reflected 0x1021
    return reg


def crc_a(data):
    reg = _crc16_iso14443(data, 0x6363)
    return bytes((reg & 0xFF, reg >> 8))


def crc_b(data):
    reg = _crc16_iso14443(data, 0xFFFF) ^ 0xFFFF
    return bytes((reg & 0xFF, reg >> 8))


def crc_selftest():
    # ISO/IEC 14443-3 Annex B examples
    assert crc_a(bytes.fromhex("0000")) == bytes.fromhex("a01e")
    assert crc_a(bytes.fromhex("1234")) == bytes.fromhex("26cf")
    assert crc_b(bytes.fromhex("000000")) == bytes.fromhex("ccc6")
    assert crc_b(bytes.fromhex("0faaff")) == bytes.fromhex("fcd1")
    assert crc_b(bytes.fromhex("0a123456")) == bytes.fromhex("2cf6")
    return True


def le32(w):
    return struct.pack("<L", w & 0xFFFFFFFF)


# --------------------------------------------------------------------------------------------------------
class RemoteCard:
    """A passive target in the field of the chip (the chip is initiator).

    kinds: T1T, T2T, T4A, DEPA (106A);  T4B (106B);  T3T212, T3T424, DEPF212, DEPF424.
    receive(brty, frame) -> None (silent) | (payload, has_crc): frames are given and returned without CRC;
    has_crc tells whether the card's frame carries a CRC on the air (SENS_RES, SDD_RES and the 4-bit T2T
    ACK/NAK do not)."""

    KINDS = ("T1T", "T2T", "T4A", "DEPA", "T4B", "T3T212", "T3T424", "DEPF212", "DEPF424")

    def __init__(self, kind, sel_res=None):
        assert kind in self.KINDS, kind
        self.kind = kind
        self.mute = 0               # number of following frames the card does not answer (it sees them)
        self.brty = {"T4B": "106B", "T3T212": "212F", "T3T424": "424F", "DEPF212": "212F",
                     "DEPF424": "424F"}.get(kind, "106A")
        self.uid = {"T1T": bytes.fromhex("b2565400"), "T2T": bytes.fromhex("04a1b2c3d4e5f6"),
                    "T4A": bytes.fromhex("5a6b7c8d"), "DEPA": bytes.fromhex("08c1d2e3")}.get(kind, b"")
        self.sens_res = {"T1T": bytes.fromhex("000c"), "T2T": bytes.fromhex("4400"),
                         "T4A": bytes.fromhex("0400"), "DEPA": bytes.fromhex("0400")}.get(kind)
        self.sel_res = {"T2T": 0x00, "T4A": 0x20, "DEPA": 0x40}.get(kind)
        if sel_res is not None and self.sel_res is not None:
            self.sel_res = sel_res & 0xFF   # a Type 2 Tag platform (command set of kind) that answers another SEL_RES
        self.idm = bytes.fromhex("01fe0a0b0c0d0e0f") if kind.startswith("DEPF") else bytes.fromhex("02fe112233445566")
        self.pmm = bytes.fromhex("00f0000002060300") if not kind.startswith("DEPF") else bytes(8)
        self.sys = bytes.fromhex("12fc") if not kind.startswith("DEPF") else bytes.fromhex("ffff")
        self.pupi = bytes.fromhex("e8253eec")
        self.seq = 0
        self.state = "idle"
        self.seen = []              # commands seen in the selected state

    def field_off(self):
        self.state = "idle"

    # ---- expected discovery result (for the harness) ---------------------------------------------------
    def expected_target(self):
        if self.kind == "T1T":
            return {"sens_res": self.sens_res, "rid_res": bytes.fromhex("1148") + self.uid}
        if self.brty == "106A":
            return {"sens_res": self.sens_res, "sdd_res": self.uid, "sel_res": bytes([self.sel_res])}
        if self.brty == "106B":
            return {"sensb_res": self._sensb_res()}
        return {"sensf_res": b"\x01" + self.idm + self.pmm + self.sys}

    def _sensb_res(self):
        return b"\x50" + self.pupi + bytes.fromhex("00000000") + bytes.fromhex("008185")

    def _cascade(self):
        """list of (4 uid-cl bytes, sel_res) per cascade level"""
        u = self.uid
        if len(u) == 4:
            return [(u, self.sel_res)]
        if len(u) == 7:
            return [(b"\x88" + u[0:3], 0x04), (u[3:7], self.sel_res)]
        return [(b"\x88" + u[0:3], 0x04), (b"\x88" + u[3:6], 0x04), (u[6:10], self.sel_res)]

    def needs_crc(self, brty, frame):
        """does this frame carry a CRC on the air?  Type A short frames (REQA/WUPA) and the anticollision frames
        (SEL NVB < 70h) do not; everything else does"""
        frame = bytes(frame)
        if brty == "106A" and frame:
            if frame in (b"\x26", b"\x52"):
                return False
            if frame[0] in (0x93, 0x95, 0x97) and len(frame) >= 2 and frame[1] < 0x70:
                return False
        return True

    def receive(self, brty, frame):
        frame = bytes(frame)
        if brty != self.brty or not frame:
            return None
        if self.mute > 0:
            self.mute -= 1
            return None
        if self.brty == "106A":
            return self._rx_a(frame)
        if self.brty == "106B":
            return self._rx_b(frame)
        return self._rx_f(frame)

    # ---- type A ----------------------------------------------------------------------------------------
    def _rx_a(self, f):
        if f in (b"\x26", b"\x52"):
            self.state = "ready"
            return self.sens_res, False
        if self.state == "idle":
            return None
        if self.kind == "T1T":
            self.state = "selected"
            if f[0] == 0x78 and len(f) == 7:
                return bytes.fromhex("1148") + self.uid, True
            return self._app(f), True
        if f[0] in (0x93, 0x95, 0x97) and len(f) >= 2 and self.state != "selected":
            level = (f[0] - 0x93) // 2
            casc = self._cascade()
            if level >= len(casc):
                return None
            cl, sak = casc[level]
            bcc = cl[0] ^ cl[1] ^ cl[2] ^ cl[3]
            if f[1] == 0x20:
                return cl + bytes([bcc]), False
            if f[1] == 0x70 and f[2:7] == cl + bytes([bcc]):
                if level == len(casc) - 1:
                    self.state = "selected"
                return bytes([sak]), True
            return None
        if self.state != "selected":
            return None
        if self.kind == "T2T":
            if f[0] == 0x30 and len(f) == 2:
                return self._app(f, 16), True
            if f[0] == 0xA2 and len(f) == 6:
                return b"\x0a", False           # 4-bit ACK
            return None                         # unknown command: the tag goes mute
        return self._app(f), True

    # ---- type B ----------------------------------------------------------------------------------------
    def _rx_b(self, f):
        if f[0] == 0x05 and len(f) == 3:
            self.state = "selected"
            return self._sensb_res(), True
        if self.state != "selected":
            return None
        return self._app(f), True

    # ---- type F ----------------------------------------------------------------------------------------
    def _rx_f(self, f):
        if f[0] != len(f) or len(f) < 2:
            return None
        if f[1] == 0x00 and len(f) == 6:
            if f[2:4] not in (b"\xff\xff", self.sys) and not (f[2] == 0xFF or f[3] == 0xFF):
                return None
            self.state = "selected"
            rsp = b"\x01" + self.idm + self.pmm
            if f[4] == 1:
                rsp += self.sys
            return bytes([len(rsp) + 1]) + rsp, True
        if self.state != "selected":
            return None
        body = self._app(f[1:])
        return bytes([len(body) + 1]) + body, True

    # ---- application level answer: identifies the command it answers -----------------------------------
    def _app(self, cmd, size=None):
        self.seq += 1
        self.seen.append(bytes(cmd))
        if len(self.seen) > 64:
            del self.seen[:32]
        body = bytes([(cmd[0] + 1) & 0xFF, self.seq & 0xFF, (self.seq >> 8) & 0xFF]) + bytes(cmd[:12])
        if size is not None:
            body = (body + bytes(size))[:size]
        return body


class RemoteInitiator:
    """A remote reader / P2P initiator in front of the chip (the chip is target).

    kinds: TT2, TT4 (106A card emulation), TT3-212, TT3-424, DEP-106A, DEP-212F, DEP-424F.
    tg_comm(params, transmit) -> (comm_type, activated, status, data): what the next TgCommRF reports.
    The activation frames follow the NFC Forum Digital protocol; in the exchange phase each command carries a
    sequence number so that a received command identifies itself."""

    KINDS = ("TT2", "TT4", "TT3-212", "TT3-424", "DEP-106A", "DEP-212F", "DEP-424F")

    def __init__(self, kind):
        assert kind in self.KINDS, kind
        self.kind = kind
        self.brty = {"TT3-212": "212F", "TT3-424": "424F", "DEP-212F": "212F", "DEP-424F": "424F"}.get(kind, "106A")
        self.step = 0
        self.seq = 0
        self.sent = []             # what the chip was asked to transmit
        self.idm = None
        self.mute = 0              # number of following receive windows in which the reader sends nothing

    def field_off(self):
        pass

    def _hdr_data(self, data, activated=3):
        return TG_COMM_TYPE[self.brty], activated, 0, bytes(data)

    def _dep_frame(self, body):
        body = bytes(body)
        if self.brty == "106A":
            return b"\xf0" + bytes([len(body) + 1]) + body
        return bytes([len(body) + 1]) + body

    def next_command(self):
        """exchange phase: the next command of this reader"""
        self.seq += 1
        tok = bytes([self.seq & 0xFF, (self.seq >> 8) & 0xFF, 0xC3])
        if self.kind == "TT2":
            return bytes([0x30, self.seq & 0x3F]) + tok
        if self.kind == "TT4":
            return bytes([0x02 | (self.seq & 1)]) + bytes.fromhex("00b00000") + tok
        if self.kind.startswith("TT3"):
            body = b"\x06" + (self.idm or bytes(8)) + bytes.fromhex("010b00018000") + tok
            return bytes([len(body) + 1]) + body
        return self._dep_frame(bytes.fromhex("d406") + bytes([self.seq & 3]) + tok)

    def tg_comm(self, params, transmit):
        if transmit:
            self.sent.append(bytes(transmit))
            if len(self.sent) > 64:
                del self.sent[:32]
        if params["recv_timeout"] == 0:
            return TG_COMM_TYPE[self.brty], 3, 0, b""           # send only
        if self.mute > 0:
            self.mute -= 1
            return TG_COMM_TYPE[self.brty], 3, STATUS_BITS["RECEIVE_TIMEOUT_ERROR"], b""
        step, self.step = self.step, self.step + 1
        k = self.kind
        if k == "TT2":
            if step == 0:
                return self._hdr_data(bytes.fromhex("3000"))
        elif k == "TT4":
            if step == 0:
                return self._hdr_data(bytes.fromhex("e080"))
            if step == 1:
                return self._hdr_data(bytes.fromhex("0200a4040007d276000085010100"))
        elif k.startswith("TT3"):
            nfcf = params.get("nfcf") or bytes(18)
            if step == 0:
                return self._hdr_data(bytes.fromhex("0600ffff0100"), activated=0)
            if step == 1:
                # the reader addresses the IDm it got in the SENSF_RES the chip was asked to transmit
                last = self.sent[-1] if self.sent else b""
                self.idm = last[2:10] if len(last) >= 10 else nfcf[0:8]
                body = b"\x06" + self.idm + bytes.fromhex("010b00018000")
                return self._hdr_data(bytes([len(body) + 1]) + body, activated=0)
        else:
            if step == 0:
                atr_req = bytes.fromhex("d400") + bytes.fromhex("01fe0102030405060708") + bytes.fromhex("00000032") \
                    + bytes.fromhex("46666d010111")
                return self._hdr_data(self._dep_frame(atr_req))
            if step == 1:
                return self._hdr_data(self._dep_frame(bytes.fromhex("d40600") + b"\x00\x00\x40"))
        return self._hdr_data(self.next_command(), activated=0 if k.startswith("TT3") else 3)


# --------------------------------------------------------------------------------------------------------
class Port100Sim:
    TYPE = "USB"

    def __init__(self, clock=None, card=None, initiator=None, leftover=(b"\x01\x02\x03\x04",), dumb=False):
        self.clock = clock
        self.card = card
        self.initiator = initiator
        self.dumb = dumb                      # answer RF commands with a fixed success, never parse payloads
        self.queue = collections.deque(leftover)
        self.closed = False
        self.n = 0                            # host commands received
        self.mark_n = 0
        self.script = {}
        self.cmdlog = []                      # (code, payload) since mark
        self.frames_checked = 0
        self.frame_errors = []                # (frame prefix, [rule names])
        self.host_acks = 0
        self.last_frame = None
        self.last_response = None             # the regular response frame of the last command (before faults)
        self.rf_log = collections.deque(maxlen=16)   # ("tx"|"rx", brty, bytes)
        self.rf_mangle = None                 # callable(raw card frame incl. CRC) -> bytes, type A/B only
        self.rf_on = False
        self.command_type = None
        self.in_rf = None
        self.in_proto = {}
        self.tg_rf = None
        self.tg_proto = {}
        self.keep_frames = False
        self.frames = []
        self.fault_applied = 0
        self.applied = []                     # (k, action) of the scripted faults delivered since mark()
        self.delivered = []                   # the transfers queued in answer to the last host command
        self.model_add_crc = True             # a card ignores a command that needs a CRC and was sent without
        self.no_crc_tx = 0                    # frames the chip transmitted without CRC although the card needs one
        self.rx_count = 0                     # frames received from the remote side (monotonic)
        self.persistent_pipe = False          # True: transfers the host did not read stay in the bulk-in pipe when the
                                              # next command is written (default: every command starts with an empty pipe)

    manufacturer_name = "SONY"
    product_name = "RC-S380/S (simulated)"

    # ---- harness side ----------------------------------------------------------------------------------
    def mark(self, script=None):
        self.mark_n = self.n
        self.script = dict(script or {})
        self.cmdlog = []
        self.applied = []
        if not self.persistent_pipe:
            self.queue.clear()

    def commands_since_mark(self):
        return self.n - self.mark_n

    def names_since_mark(self):
        return [CMD_NAMES.get(c, "%02Xh" % c) for c, _ in self.cmdlog]

    def _tick(self, s):
        if self.clock is not None and s > 0:
            self.clock.advance(s)

    # ---- transport interface ---------------------------------------------------------------------------
    def close(self):
        self.closed = True

    def read(self, timeout=0):
        if self.closed:
            return None
        if not self.queue:
            self._tick(timeout / 1000.0 if timeout else 0.001)
            raise IOError(errno.ETIMEDOUT, os.strerror(errno.ETIMEDOUT))
        item = self.queue.popleft()
        if isinstance(item, BaseException):
            raise item
        if len(item) == 0:          # nfc.clf.transport.USB.read() turns a zero length transfer into EIO
            raise IOError(errno.EIO, os.strerror(errno.EIO))
        return bytearray(item)

    def write(self, frame, timeout=0):
        if self.closed:
            return
        frame = bytes(frame)
        self.last_frame = frame
        if self.keep_frames:
            self.frames.append(frame)
        errors, info = pf.check_command_frame(frame)
        self.frames_checked += 1
        if errors and len(self.frame_errors) < 100:
            self.frame_errors.append((frame[:48], errors))
        if info["kind"] == "ack":
            self.host_acks += 1
            self.queue.clear()
            return
        data = info["data"]
        if len(data) < 2:
            self.queue.clear()        # unintelligible: the device stays silent
            return
        code, payload = data[1], data[2:]
        self.n += 1
        k = self.n - self.mark_n
        act = self.script.get(k)
        if len(self.cmdlog) < 256:
            self.cmdlog.append((code, payload))
        self._tick(0.0005)
        if not self.persistent_pipe:
            self.queue.clear()
        self.delivered = []
        if act is not None and act["kind"] == "link" and fault_phase(act["fault"]) == "write":
            self.fault_applied += 1
            self.applied.append((k, act))
            self.last_response = None
            raise self._ioerror(act["fault"].split("@")[0])
        if act is not None and act["kind"] == "link" and fault_phase(act["fault"]) == "ack":
            # the command got lost on the way: no ACK, no execution, no response
            self.fault_applied += 1
            self.applied.append((k, act))
            self.last_response = None
            if act["fault"] != "io-timeout@ack":
                self.queue.append(self._ioerror(act["fault"].split("@")[0]))
            return
        if act is not None and act["kind"] == "rf_status" and code in RF_COMMANDS:
            self.fault_applied += 1
            self.applied.append((k, act))
            rsp = self._rf_status_response(code, payload, act["word"])
        elif act is not None and act["kind"] == "status_byte" and code not in RF_COMMANDS:
            self.fault_applied += 1
            self.applied.append((k, act))
            rsp = bytes([act["value"] & 0xFF])
        else:
            rsp = self.execute(code, payload)
        good = pf.response(code, rsp)
        self.last_response = good
        if act is not None and act["kind"] == "link":
            self.fault_applied += 1
            self.applied.append((k, act))
            self.delivered = list(self._link_fault(act, code, rsp, good))
        else:
            self.delivered = [ACK, good]
        self.queue.extend(self.delivered)

    # ---- faults ----------------------------------------------------------------------------------------
    def _rf_status_response(self, code, payload, word):
        if word & 0x80:
            if code == 0x04 and len(payload) >= 2:
                self._tick(struct.unpack("<H", payload[0:2])[0] * 1e-4)
            if code == 0x48 and len(payload) >= 33:
                self._tick(struct.unpack("<H", payload[31:33])[0] * 1e-3)
        if code == 0x04:
            return le32(word)
        brty = self.initiator.brty if self.initiator is not None else "106A"
        return bytes([TG_COMM_TYPE[brty], 0, 3]) + le32(word)

    @staticmethod
    def _ioerror(name):
        return IOError(IO_ERRNO[name], os.strerror(IO_ERRNO[name]))

    def _link_fault(self, act, code, rsp, good):
        f = act["fault"]
        data = bytes((pf.DEVICE_TO_HOST, (code + 1) & 0xFF)) + bytes(rsp)
        if f == "raw":                     # the harness dictates the transfers verbatim
            return [bytes(x) for x in act["frames"]]
        if f == "io-timeout@rsp":
            return [ACK]
        if f in ("io-eio@rsp", "io-enodev@rsp"):
            return [ACK, self._ioerror(f.split("@")[0])]
        if f == "no-ack":
            return [good]
        if f == "ack-ack":
            return [ACK, ACK]
        if f == "short-ack":
            return [ACK[:act["cut"]], good]
        if f == "short-frame":
            return [ACK, good[:act["cut"]]]
        if f == "short-payload":
            return [ACK, pf.encode(data[:act["cut"]])]
        if f in ("bad-lcs", "bad-dcs", "bad-postamble", "bad-start", "bitflip"):
            m = bytearray(good)
            if f == "bad-lcs":
                m[7] ^= act.get("xor", 0x01)
            elif f == "bad-dcs":
                m[-2] ^= act.get("xor", 0x01)
            elif f == "bad-postamble":
                m[-1] ^= act.get("xor", 0xFF)
            elif f == "bad-start":
                m[2] ^= act.get("xor", 0x01)
            else:
                m[act["pos"] % len(m)] ^= 1 << (act["bit"] & 7)
            return [ACK, bytes(m)]
        if f == "extra-bytes":
            return [ACK, good + bytes(act.get("junk", b"\x55\xaa"))]
        if f == "surplus":
            return [ACK, pf.encode(data + surplus_octets(act["n"]))]
        if f == "error-frame":
            return [ACK, SHORT_ERROR_FRAME]
        if f == "error-frame-7f":
            return [ACK, PN53X_ERROR_FRAME]
        if f == "error-frame@ack":
            return [PN53X_ERROR_FRAME]
        if f == "wrong-rsp-code":
            return [ACK, pf.encode(bytes((pf.DEVICE_TO_HOST, (code + 3) & 0xFF)) + bytes(rsp))]
        if f == "wrong-direction":
            return [ACK, pf.encode(bytes((pf.HOST_TO_DEVICE, (code + 1) & 0xFF)) + bytes(rsp))]
        if f == "garbage":
            return [ACK, bytes(act.get("bytes", b"\xaa\x55\x00\xff\x12"))]
        if f == "garbage@ack":
            return [bytes(act.get("bytes", b"\xaa\x55\x00\xff\x12")), good]
        raise ValueError("unknown link fault %r" % (f,))

    # ---- the chip --------------------------------------------------------------------------------------
    def execute(self, code, p):
        if code == 0x20:
            return bytes.fromhex("1101")
        if code == 0x22:
            return bytes.fromhex("0001")
        if code == 0x28:
            return (1).to_bytes(8, "big")
        if code == 0x12:
            return b""
        if self.dumb:
            if code == 0x04:
                return le32(0) + b"\x08"
            if code == 0x48:
                return bytes([0x0B, 0, 0]) + le32(0)
            return b"\x00"
        if code == 0x2A:
            if len(p) != 1:
                return b"\x01"
            self.command_type = p[0]
            return b"\x00"
        if code == 0x06:
            if len(p) != 1 or p[0] > 1:
                return b"\x01"
            self.rf_on = bool(p[0])
            if not self.rf_on:
                for r in (self.card, self.initiator):
                    if r is not None:
                        r.field_off()
            return b"\x00"
        if code == 0x00:
            if len(p) != 4:
                return b"\x01"
            self.in_rf = tuple(p)
            self.rf_on = True
            return b"\x00"
        if code in (0x02, 0x42):
            if len(p) % 2:
                return b"\x01"
            d = self.in_proto if code == 0x02 else self.tg_proto
            for i in range(0, len(p), 2):
                d[p[i]] = p[i + 1]
            return b"\x00"
        if code == 0x04:
            if len(p) < 2:
                return le32(STATUS_BITS["PROTOCOL_ERROR"])
            return self._in_comm_rf(struct.unpack("<H", p[0:2])[0], p[2:])
        if code == 0x40:
            if len(p) != 2:
                return b"\x01"
            self.tg_rf = tuple(p)
            return b"\x00"
        if code == 0x48:
            return self._tg_comm_rf(p)
        return b"\x00"

    def _in_comm_rf(self, timeout, data):
        brty = IN_COMM_TYPE.get(self.in_rf[1]) if self.in_rf else None
        self.rf_log.append(("tx", brty, bytes(data)))
        rsp = None
        if self.card is not None and brty is not None and self.rf_on:
            data = bytes(data)
            deliver = True
            if self.model_add_crc and not self.in_proto.get(1, 1) and self.card.needs_crc(brty, data):
                # InSetProtocol add_crc = 0: the chip transmits the host's octets as they are.  A card accepts them
                # only if the host supplied a correct CRC itself; otherwise the frame is a transmission error for
                # the card and it stays silent.
                crc = crc_b if brty.endswith("B") or self.card.kind == "T1T" else crc_a
                if len(data) > 2 and crc(data[:-2]) == data[-2:]:
                    data = data[:-2]
                else:
                    deliver = False
                    self.no_crc_tx += 1
            if deliver:
                rsp = self.card.receive(brty, data)
        if rsp is None:
            self._tick(timeout * 1e-4)
            return le32(STATUS_BITS["RECEIVE_TIMEOUT_ERROR"])
        payload, has_crc = rsp
        payload = bytes(payload)
        self.rf_log.append(("rx", brty, payload))
        self.rx_count += 1
        check_crc = self.in_proto.get(2, 1)
        if not has_crc:
            if self.rf_mangle is not None and getattr(self.rf_mangle, "no_crc_frames", False):
                payload = bytes(self.rf_mangle(payload))
            if check_crc:
                return le32(STATUS_BITS["CRC_ERROR"])     # e.g. the 4-bit ACK/NAK of a Type 2 Tag
            return le32(0) + b"\x08" + payload
        crc = crc_b if brty.endswith("B") else crc_a
        raw = payload + crc(payload)
        if self.rf_mangle is not None:
            raw = bytes(self.rf_mangle(raw))
        if not check_crc:
            return le32(0) + b"\x08" + raw
        if len(raw) < 2 or crc(raw[:-2]) != raw[-2:]:
            return le32(STATUS_BITS["CRC_ERROR"])
        return le32(0) + b"\x08" + raw[:-2]

    def _tg_comm_rf(self, p):
        if len(p) < 33:
            return bytes([0x0B, 0, 0]) + le32(STATUS_BITS["PROTOCOL_ERROR"])
        guard, send_to, mdaa, nfca, nfcf, mf_halted, arae, recv_to = struct.unpack("<HHB6s18sBBH", p[:33])
        tx = bytes(p[33:])
        if tx:
            self.rf_log.append(("tx", None, tx))
        ini = self.initiator
        if ini is None:
            self._tick(recv_to * 1e-3)
            return bytes([0x0B, 0, 0]) + le32(STATUS_BITS["RECEIVE_TIMEOUT_ERROR"])
        comm, activated, status, data = ini.tg_comm(
            {"mdaa": bool(mdaa), "nfca": nfca, "nfcf": nfcf, "recv_timeout": recv_to, "guard_time": guard}, tx)
        if status & 0x80:
            self._tick(recv_to * 1e-3)
        if data:
            self.rf_log.append(("rx", ini.brty, bytes(data)))
            self.rx_count += 1
        return bytes([comm, 0, activated]) + le32(status) + bytes(data)


# --------------------------------------------------------------------------------------------------------
def open_driver(sim):
    """the real driver through its own init() on the simulated transport, under a real ContactlessFrontend"""
    import nfc.clf
    import nfc.clf.rcs380
    dev = nfc.clf.rcs380.init(sim)
    dev._path = "usb:sim:rcs380"
    clf = nfc.clf.ContactlessFrontend()
    clf.device = dev
    return clf, dev
