"""WorldDevice: a self-contained simulated contactless *world* behind the nfc.clf.device.Device interface.

Used under a real frontend:   clf = nfc.clf.ContactlessFrontend(); clf.device = WorldDevice(spec, clock)

The device is written from the Device interface documentation (nfc/clf/device.py docstrings) and from the
protocol frame formats (NFC Digital / ISO 18092 NFC-DEP / LLCP / T1T-T4T), not from the frontend code.
`spec` is a JSON-able dict (so that a witness case replays exactly):

  {"entities": [ENTITY, ...],             things in the field, answered in this order when several match
   "unsupported": ["212A", ...],          bit rates for which sense_* raises nfc.clf.UnsupportedTargetError
   "no_listen": ["ttb", ...],             listen_* methods this device does not support (UnsupportedTargetError)
   "fail": {"at": k, "kind": "ioerror-perm" | "ioerror-once" | "kbd"}}   host link failure at the k-th driver call

  ENTITY (common keys: "appear_at": number of discovery calls (sense_*/listen_*) before it becomes visible,
                       "sessions": how many times it can be activated before it leaves for good):
    {"e": "tag", "type": "t1t"|"t2t"|"t2t-nxp"|"t3t"|"t3t-std"|"t4a"|"t4b"|"t4a-dep", "leave_after": n|None}
         a minimal tag; leaves the field (stops answering, cannot be sensed) after n answered commands
    {"e": "p2p-target", "tech": "106A"|"212F"|"424F"|"acm", "end": "disc"|"silent"|"never", "after": n}
         scripted NFC-DEP Target + LLCP peer: answers ATR/PSL/DEP/DSL/RLS, exchanges SYMM PDUs, after n
         information exchanges sends an LLCP DISC / goes silent
    {"e": "p2p-initiator", "tech": "106A"|"212F"|"424F", "acm": bool, "end": ..., "after": n}
         scripted NFC-DEP Initiator that activates us in listen_dep and drives the symmetry exchange
    {"e": "reader", "tech": "212F"|"424F"|"106A", "cmds": [..names..]}
         a reader/writer that activates us in listen_ttf (listen_tta) with a first command, sends the listed
         further commands and then switches its field off (BrokenLinkError)
    {"e": "multi", "tech": "106A"|"212F"|"424F", "leave_after": n|None, "end": ..., "after": n}
         a multi-protocol device: tag platform and NFC-DEP Target behind one discovery response (class Multi)

Every driver call is appended to `dev.calls` (class Call: n, op, target object, data, timeout, result/exception,
`fresh` = the target argument of an exchange is the object returned by the most recent successful discovery).
A `sink` callable receives the same records so that a harness can interleave them with its own events.
Time: the device advances the virtual clock (never sleeps).
"""
import errno
import os

import nfc
import nfc.clf
import nfc.clf.device


class Bound(BaseException):
    """run-away guard (BaseException: none of nfcpy's handlers may swallow it)"""


class Call(object):
    __slots__ = ("n", "op", "target", "data", "timeout", "result", "exc", "fresh", "t", "entity")

    def __init__(self, n, op, target=None, data=None, timeout=None, t=0.0):
        self.n, self.op, self.target, self.data, self.timeout, self.t = n, op, target, data, timeout, t
        self.result = None
        self.exc = None
        self.fresh = None
        self.entity = None          # the entity that answered a discovery

    def brief(self):
        d = {"n": self.n, "op": self.op}
        if self.target is not None:
            d["brty"] = getattr(self.target, "brty", None)
        if self.data is not None:
            d["data"] = bytes(self.data).hex()
        if self.exc is not None:
            d["exc"] = self.exc
        elif self.result is not None:
            r = self.result
            d["result"] = bytes(r).hex() if isinstance(r, (bytes, bytearray)) else str(r)
        if self.fresh is not None:
            d["fresh"] = self.fresh
        return d


SYMM = b"\x00\x00"
DISC = b"\x01\x40"          # LLCP DISC dsap=0 ssap=0
DM = b"\x01\xC0\x00"        # LLCP DM   dsap=0 ssap=0 reason 0
# general bytes: LLCP magic + VERSION 1.3, MIUX 120 (MIU 248), WKS 0003h, LTO 500 ms
PAX_GB = b"Ffm" + b"\x01\x01\x13" + b"\x02\x02\x00\x78" + b"\x03\x02\x00\x03" + b"\x04\x01\x32"


def dep_unframe(frame, f0):
    """NFC-DEP transport frame -> payload starting with D4/D5 xx, or None when malformed"""
    if frame is None:
        return None
    frame = bytes(frame)
    if f0:
        if not frame or frame[0] != 0xF0:
            return None
        frame = frame[1:]
    if not frame or frame[0] != len(frame) or len(frame) < 3:
        return None
    return frame[1:]


def dep_frame(payload, f0):
    frame = bytes([len(payload) + 1]) + bytes(payload)
    return bytearray((b"\xF0" if f0 else b"") + frame)


def dep_split(pdu):
    """DEP_REQ/DEP_RES payload -> (type nibble, pni, header flag bytes (did/nad), information bytes)"""
    pfb = pdu[2]
    idx = 3
    hdr = b""
    if pfb & 0x04:
        hdr += pdu[idx:idx + 1]
        idx += 1
    if pfb & 0x08:
        hdr += pdu[idx:idx + 1]
        idx += 1
    return pfb >> 4, pfb & 3, (pfb & 0x0C, hdr), bytes(pdu[idx:])


# ------------------------------------------------------------------------------------------------
# entities
# ------------------------------------------------------------------------------------------------
class Entity(object):
    role = "poll"           # found by sense_* ("poll") or acts in listen_* ("listen")

    def __init__(self, spec, index):
        self.spec = spec
        self.appear_at = spec.get("appear_at", 0)
        self.sessions = spec.get("sessions", 1000)
        self.gone = False
        self.uidx = index + 1

    def visible(self, dev):
        return (not self.gone) and self.sessions > 0 and dev.discoveries > self.appear_at

    def power_cycle(self):
        pass


class Tag(Entity):
    """minimal tags: enough for nfc.tag.activate() to give a tag object and for the presence check"""

    def __init__(self, spec, index):
        Entity.__init__(self, spec, index)
        self.type = spec["type"]
        self.leave_after = spec.get("leave_after")
        self.answered = 0
        self.halted = False
        self.selected = False
        u = self.uidx
        if self.type == "t1t":
            self.brty = "106A"
            self.uid = bytes([0x10 + u, 0x22, 0x33, 0x44, 0x55, 0x66, 0x00])
            self.mem = bytearray(self.uid + b"\x00" + b"\xE1\x10\x0E\x00\x03\x00\xFE" + bytes(105))
        elif self.type in ("t2t", "t2t-nxp"):
            self.brty = "106A"
            first = 0x04 if self.type == "t2t-nxp" else 0x05
            self.uid = bytes([first, 0xA0 + u, 0x12, 0x34, 0x56, 0x78, 0x9A])
            self.mem = bytearray(64)
            self.mem[0:3] = self.uid[0:3]
            self.mem[4:8] = self.uid[3:7]
            self.mem[12:16] = b"\xE1\x10\x06\x00"
            self.mem[16:19] = b"\x03\x00\xFE"
        elif self.type in ("t3t", "t3t-std"):
            self.brty = spec.get("brty", "212F")
            ic = 0x01 if self.type == "t3t-std" else 0x7F        # RC-S915 (FeliCa Standard) / unlisted IC
            self.idm = bytes([0x02, 0x10 + u, 0x11, 0x22, 0x33, 0x44, 0x55, 0x66])
            self.pmm = bytes([0x00, ic, 0x4B, 0x02, 0x4F, 0x49, 0x93, 0xFF])
            self.sys = b"\x12\xFC"
        elif self.type in ("t4a", "t4a-dep"):
            self.brty = "106A"
            self.uid = bytes([0x11 * u & 0xFF or 0x11, 0x5A, 0xC3, 0x7E])
            self.sel_res = 0x60 if self.type == "t4a-dep" else 0x20
            self.bn = 1
        elif self.type == "t4b":
            self.brty = "106B"
            self.pupi = bytes([0xB0 + u, 0x01, 0x02, 0x03])
            self.bn = 1
        else:
            raise ValueError("unknown tag type %r" % self.type)

    def power_cycle(self):
        self.halted = False
        self.selected = False
        if hasattr(self, "bn"):
            self.bn = 1

    # -- discovery -----------------------------------------------------------------------------
    def sense(self, dev, op, target):
        if target.brty != self.brty or target.atr_req is not None:
            return None
        t = self.type
        self.halted = False
        if t == "t1t" and op == "sense_tta":
            if target.sel_req:
                return None
            return nfc.clf.RemoteTarget("106A", sens_res=bytearray(b"\x00\x0C"),
                                        rid_res=bytearray(b"\x11\x48" + self.uid[0:4]))
        if t in ("t2t", "t2t-nxp") and op == "sense_tta":
            if target.sel_req and bytes(target.sel_req) != self.uid:
                return None
            return nfc.clf.RemoteTarget("106A", sens_res=bytearray(b"\x44\x00"), sel_res=bytearray(b"\x00"),
                                        sdd_res=bytearray(self.uid))
        if t in ("t4a", "t4a-dep") and op == "sense_tta":
            if target.sel_req and bytes(target.sel_req) != self.uid:
                return None
            self.selected = False
            return nfc.clf.RemoteTarget("106A", sens_res=bytearray(b"\x04\x00"), sel_res=bytearray([self.sel_res]),
                                        sdd_res=bytearray(self.uid))
        if t == "t4b" and op == "sense_ttb":
            afi = target.sensb_req[0] if target.sensb_req else 0
            if afi != 0:
                return None
            self.selected = False
            # 50 PUPI(4) APPDATA(4) PROTOCOL(3): bit rates 00, max frame 256 + ISO 14443-4, FWI 4
            return nfc.clf.RemoteTarget("106B", sensb_res=bytearray(b"\x50" + self.pupi + b"\x00\x00\x00\x00"
                                                                    + b"\x00\x81\x40"))
        if t in ("t3t", "t3t-std") and op == "sense_ttf":
            req = bytes(target.sensf_req) if target.sensf_req else b"\x00\xFF\xFF\x01\x00"
            if len(req) != 5 or req[0] != 0:
                return None
            if not all(a in (b, 0xFF) for a, b in zip(req[1:3], self.sys)):
                return None
            res = b"\x01" + self.idm + self.pmm + (self.sys if req[3] == 1 else b"")
            return nfc.clf.RemoteTarget(self.brty, sensf_res=bytearray(res))
        return None

    # -- commands ------------------------------------------------------------------------------
    def exchange(self, dev, target, data, timeout):
        if self.gone or self.halted or data is None:
            return None
        if self.leave_after is not None and self.answered >= self.leave_after:
            self.gone = True
            return None
        rsp = self.command(bytes(data))
        if rsp is not None:
            self.answered += 1
        return rsp

    def command(self, cmd):
        t = self.type
        if not cmd:
            return None
        if t == "t1t":
            if cmd[0] == 0x78 and len(cmd) == 7:
                return b"\x11\x48" + self.uid[0:4]
            if len(cmd) >= 7 and cmd[-4:] != self.uid[0:4]:
                return None
            if cmd[0] == 0x00 and len(cmd) == 7:
                return b"\x11\x48" + bytes(self.mem[0:120])
            if cmd[0] == 0x01 and len(cmd) == 7:
                return bytes([cmd[1], self.mem[cmd[1] & 0x7F]])
            if cmd[0] == 0x53 and len(cmd) == 7:
                self.mem[cmd[1] & 0x7F] = cmd[2]
                return bytes([cmd[1], cmd[2]])
            return None
        if t in ("t2t", "t2t-nxp"):
            if cmd[0] == 0x30 and len(cmd) == 2 and cmd[1] < 16:
                m = bytes(self.mem) * 2
                return m[cmd[1] * 4: cmd[1] * 4 + 16]
            if cmd[0] == 0xA2 and len(cmd) == 6 and 4 <= cmd[1] < 16:
                self.mem[cmd[1] * 4: cmd[1] * 4 + 4] = cmd[2:6]
                return b"\x0A"
            self.halted = True            # a Type 2 Tag goes mute on anything it does not understand
            return None
        if t in ("t3t", "t3t-std"):
            if cmd[0] != len(cmd) or len(cmd) < 2:
                return None
            if cmd[1] == 0x00 and len(cmd) == 6:
                if not all(a in (b, 0xFF) for a, b in zip(cmd[2:4], self.sys)):
                    return None
                r = b"\x01" + self.idm + self.pmm + (self.sys if cmd[4] == 1 else b"")
                return bytes([len(r) + 1]) + r
            if cmd[2:10] != self.idm:
                return None
            if cmd[1] == 0x04 and len(cmd) == 10:
                r = b"\x05" + self.idm + b"\x00"
                return bytes([len(r) + 1]) + r
            if cmd[1] == 0x06:
                r = b"\x07" + self.idm + b"\xFF\xA1"            # no such service
                return bytes([len(r) + 1]) + r
            return None
        if t in ("t4a", "t4a-dep", "t4b"):
            if not self.selected:
                if t != "t4b" and cmd[0] == 0xE0 and len(cmd) == 2:
                    self.selected = True
                    self.bn = 1
                    return b"\x05\x78\x00\x40\x02"              # ATS: FSCI 8, TA 00, FWI 4 / SFGI 0, TC 02
                if t == "t4b" and cmd[0] == 0x1D and cmd[1:5] == self.pupi and len(cmd) >= 9:
                    self.selected = True
                    self.bn = 1
                    return b"\x00"
                if t == "t4a-dep" and cmd[0] == 0xF0:
                    return None                                 # the NFC-DEP side of this device is not modelled
                return None
            pcb = cmd[0]
            if pcb & 0xE2 == 0x02 and not pcb & 0x08:           # I-block without CID
                self.bn ^= 1                                    # rule D
                return bytes([0x02 | self.bn]) + b"\x6A\x82"    # file or application not found
            if pcb & 0xE6 == 0xA2:                              # R-block
                if pcb & 0x10 and (pcb & 1) != self.bn:         # R(NAK), other block number -> R(ACK) (rule 12)
                    return bytes([0xA2 | self.bn])
                return bytes([0xA2 | self.bn])
            if pcb == 0xC2:
                self.selected = False
                return b"\xC2"
            return None
        return None


class P2PTarget(Entity):
    """NFC-DEP Target with an LLCP peer behind it (we are the Initiator)."""

    def __init__(self, spec, index):
        Entity.__init__(self, spec, index)
        self.tech = spec.get("tech", "106A")
        self.end = spec.get("end", "never")
        self.after = spec.get("after", 3)
        self.sel_res = spec.get("sel_res", 0x40)
        self.nfcid3 = bytes([0x01, 0xFE, 0x30 + self.uidx, 0x02, 0x03, 0x04, 0x05, 0x06, 0x53, 0x54])
        self.power_cycle()

    def power_cycle(self):
        if getattr(self, "active", False):
            self.sessions -= 1
        self.active = False
        self.silent = False
        self.n_inf = 0
        self.last = None

    def atr_res(self, did):
        return b"\xD5\x01" + self.nfcid3 + bytes([did, 0, 0, 0x08, 0x32]) + PAX_GB

    def sense(self, dev, op, target):
        if self.tech == "acm":
            if op != "sense_dep" or target.brty not in ("106A", "212F", "424F"):
                return None
            req = bytes(target.atr_req)
            self.active = True
            return nfc.clf.RemoteTarget(target.brty, atr_req=target.atr_req,
                                        atr_res=bytearray(self.atr_res(req[12])))
        if target.atr_req is not None or target.brty != self.tech:
            return None
        if self.tech == "106A" and op == "sense_tta":
            uid = b"\x08" + self.nfcid3[2:5]
            if target.sel_req and bytes(target.sel_req) != uid:
                return None
            return nfc.clf.RemoteTarget("106A", sens_res=bytearray(b"\x01\x01"), sdd_res=bytearray(uid),
                                        sel_res=bytearray([self.sel_res]))
        if self.tech in ("212F", "424F") and op == "sense_ttf":
            req = bytes(target.sensf_req) if target.sensf_req else b"\x00\xFF\xFF\x01\x00"
            if len(req) != 5 or req[0] != 0 or req[1:3] != b"\xFF\xFF":
                return None
            res = b"\x01" + self.nfcid3[0:8] + bytes(8) + (b"\xFF\xFF" if req[3] == 1 else b"")
            return nfc.clf.RemoteTarget(self.tech, sensf_res=bytearray(res))
        return None

    def exchange(self, dev, target, data, timeout):
        f0 = target.brty == "106A"
        pdu = dep_unframe(data, f0)
        if pdu is None or self.silent or pdu[0] != 0xD4:
            return None
        code = pdu[1]
        if code == 0x00 and len(pdu) >= 16:                     # ATR_REQ
            self.active = True
            self.n_inf = 0
            return dep_frame(self.atr_res(pdu[12]), f0)
        if not self.active:
            return None
        if code == 0x04 and len(pdu) == 5:                      # PSL_REQ
            return dep_frame(b"\xD5\x05" + pdu[2:3], f0)
        if code == 0x06 and len(pdu) >= 3:                      # DEP_REQ
            typ, pni, (flags, hdr), inf = dep_split(pdu)
            if typ == 0x8:                                      # attention
                return dep_frame(b"\xD5\x07" + bytes([0x80 | flags]) + hdr, f0)
            if typ == 0x5:                                      # NAK: send the last response again
                return self.last
            if typ == 0x1:                                      # chained information: acknowledge
                self.last = dep_frame(b"\xD5\x07" + bytes([0x40 | flags | pni]) + hdr, f0)
                return self.last
            if typ == 0x0:
                self.n_inf += 1
                llcp = self.next_llcp(inf)
                if llcp is None:
                    return None
                self.last = dep_frame(b"\xD5\x07" + bytes([flags | pni]) + hdr + llcp, f0)
                return self.last
            return None
        if code in (0x08, 0x0A) and len(pdu) <= 3:              # DSL_REQ / RLS_REQ
            self.active = False
            self.sessions -= 1
            return dep_frame(bytes([0xD5, code + 1]) + pdu[2:3], f0)
        return None

    def next_llcp(self, inf):
        if inf == DISC:
            return DM
        if self.n_inf >= self.after:
            if self.end == "disc":
                return DISC
            if self.end == "silent":
                self.silent = True
                self.active = False
                self.sessions -= 1
                return None
        return SYMM


class P2PInitiator(Entity):
    """NFC-DEP Initiator with an LLCP peer behind it (we are the Target, activated in listen_dep)."""
    role = "listen"

    def __init__(self, spec, index):
        Entity.__init__(self, spec, index)
        self.tech = spec.get("tech", "106A")
        self.acm = bool(spec.get("acm", False))
        self.end = spec.get("end", "never")
        self.after = spec.get("after", 3)
        self.nfcid3 = bytes([0x01, 0xFE, 0x40 + self.uidx, 0x12, 0x13, 0x14, 0x15, 0x16, 0x00, 0x00])
        self.power_cycle()

    def power_cycle(self):
        if getattr(self, "active", False):
            self.sessions -= 1
        self.active = False
        self.closing = False
        self.n_inf = 0
        self.pni = 0
        self.last = None

    def listen(self, dev, op, target, timeout):
        if op != "listen_dep":
            return None
        res = nfc.clf.LocalTarget(self.tech)
        res.atr_req = bytearray(b"\xD4\x00" + self.nfcid3 + b"\x00\x00\x00\x32" + PAX_GB)
        res.atr_res = bytearray(target.atr_res)
        if not self.acm:
            if self.tech == "106A":
                res.sens_res = bytearray(target.sens_res)
                res.sdd_res = bytearray(target.sdd_res)
                res.sel_res = bytearray(target.sel_res)
            else:
                res.sensf_req = bytearray(b"\x00\xFF\xFF\x00\x00")
                res.sensf_res = bytearray(target.sensf_res)
        self.pni = 0
        self.n_inf = 0
        self.closing = False
        self.active = True
        res.dep_req = bytearray(b"\xD4\x06\x00" + SYMM)
        self.last = dep_frame(res.dep_req, self.tech == "106A")
        return res

    def _end_session(self):
        if self.active:
            self.active = False
            self.sessions -= 1

    def exchange(self, dev, target, data, timeout):
        """returns the next request frame | None (nothing comes: time-out) | "off" (field switched off)"""
        f0 = target.brty == "106A"
        if not self.active:
            return "off"
        if data is None:
            # we did not get a response to the last request: release when closing, else attention
            if self.closing:
                self._end_session()
                return dep_frame(b"\xD4\x0A", f0)
            return dep_frame(b"\xD4\x06\x80", f0)
        pdu = dep_unframe(data, f0)
        if pdu is None or pdu[0] != 0xD5:
            return None
        if pdu[1] in (0x09, 0x0B):
            self._end_session()
            return "off"
        if pdu[1] != 0x07 or len(pdu) < 3:
            return None
        typ, pni, (flags, hdr), inf = dep_split(pdu)
        if typ == 0x8:                                          # attention response: retransmit
            return self.last
        if typ == 0x0 and pni == self.pni:
            self.n_inf += 1
            if inf == DISC or self.closing:
                self.closing = True
                self._end_session()
                return dep_frame(b"\xD4\x0A", f0)               # RLS_REQ
            llcp = SYMM
            if self.n_inf >= self.after:
                if self.end == "disc":
                    llcp = DISC
                    self.closing = True
                elif self.end == "silent":
                    self._end_session()
                    return "off"
            self.pni = (self.pni + 1) & 3
            self.last = dep_frame(b"\xD4\x06" + bytes([self.pni]) + llcp, f0)
            return self.last
        if typ == 0x1 and pni == self.pni:                      # chained response: acknowledge
            self.pni = (self.pni + 1) & 3
            self.last = dep_frame(b"\xD4\x06" + bytes([0x40 | self.pni]), f0)
            return self.last
        return None


class Reader(Entity):
    """A reader/writer that discovers and drives our card emulation."""
    role = "listen"

    def __init__(self, spec, index):
        Entity.__init__(self, spec, index)
        self.tech = spec.get("tech", "212F")
        self.cmds = list(spec.get("cmds", ["rr", "poll"]))
        self.first = spec.get("first", "poll")
        self.power_cycle()

    def power_cycle(self):
        if getattr(self, "active", False):
            self.sessions -= 1
        self.active = False
        self.queue = []
        self.idm = None

    def make(self, name):
        idm = self.idm
        if name == "poll":
            return b"\x06\x00\xFF\xFF\x01\x00"
        if name == "rr":
            return b"\x0A\x04" + idm
        if name == "read":                                       # read block 0 of service 000Bh
            return b"\x10\x06" + idm + b"\x01\x0B\x00\x01\x80\x00"
        if name == "rsc":
            return b"\x0A\x0C" + idm
        if name == "other":                                      # a command for some other card
            return b"\x0A\x04" + bytes(8)
        if name == "badlen":
            return b"\x0B\x04" + idm
        raise ValueError(name)

    def listen(self, dev, op, target, timeout):
        if self.tech in ("212F", "424F") and op == "listen_ttf" and target.brty == self.tech:
            self.idm = bytes(target.sensf_res[1:9])
            self.queue = list(self.cmds)
            self.active = True
            first = self.make(self.first)
            return nfc.clf.LocalTarget(self.tech, sensf_req=bytearray(b"\x00\xFF\xFF\x00\x03"),
                                       sensf_res=bytearray(target.sensf_res), tt3_cmd=bytearray(first[1:]))
        if self.tech == "106A" and op == "listen_tta" and target.brty == "106A":
            self.active = True
            self.queue = []
            res = nfc.clf.LocalTarget("106A", sens_res=bytearray(target.sens_res),
                                      sdd_res=bytearray(target.sdd_res), sel_res=bytearray(target.sel_res))
            if target.sel_res[0] & 0x20:
                res.tt4_cmd = bytearray(b"\xE0\x80")
            else:
                res.tt2_cmd = bytearray(b"\x30\x00")
            return res
        return None

    def exchange(self, dev, target, data, timeout):
        if not self.active:
            return "off"
        if not self.queue:
            self.active = False
            self.sessions -= 1
            return "off"
        name = self.queue.pop(0)
        if name == "timeout":
            return None
        return bytearray(self.make(name))


class Multi(Entity):
    """A multi-protocol device (what a phone with card emulation and peer-to-peer presents): one discovery
    response, a tag platform AND an NFC-DEP Target with an LLCP peer behind it.

      tech 106A        SEL_RES 60h: ISO-DEP (Type 4A Tag, answers RATS) and NFC-DEP (answers ATR_REQ)
      tech 212F/424F   answers SENSF_REQ for system code 12FCh as Type 3 Tag (NFCID2 02FEh ...) and for the
                       wildcard FFFFh as NFC-DEP Target (NFCID2 01FEh ...) - NFC Digital: the NFCID2 prefix tells
                       the protocol the device is configured for
    Frames are dispatched by their format: NFC-DEP transport frames ([F0] LEN D4 ..) go to the peer side, all
    others to the tag side.  `leave_after` (tag side: answered commands) and `end`/`after`/`sessions` (peer side)
    have the meaning they have for the single protocol entities."""

    def __init__(self, spec, index):
        Entity.__init__(self, spec, index)
        self.tech = spec.get("tech", "106A")
        if self.tech == "106A":
            tspec = {"e": "tag", "type": "t4a-dep"}
        else:
            tspec = {"e": "tag", "type": "t3t", "brty": self.tech}
        if spec.get("leave_after") is not None:
            tspec["leave_after"] = spec["leave_after"]
        self.tag = Tag(tspec, index)
        pspec = {"e": "p2p-target", "tech": self.tech, "sel_res": 0x60}
        for k in ("end", "after", "sessions"):
            if k in spec:
                pspec[k] = spec[k]
        self.p2p = P2PTarget(pspec, index)

    def visible(self, dev):
        return Entity.visible(self, dev) and not self.tag.gone and self.p2p.sessions > 0

    def power_cycle(self):
        self.tag.power_cycle()
        self.p2p.power_cycle()

    def sense(self, dev, op, target):
        if target.atr_req is not None or target.brty != self.tech:
            return None
        if self.tech == "106A":
            if op != "sense_tta":
                return None
            found = self.tag.sense(dev, op, target)         # UID of the tag side, SEL_RES 60h
            return found
        if op != "sense_ttf":
            return None
        req = bytes(target.sensf_req) if target.sensf_req else b"\x00\xFF\xFF\x01\x00"
        if len(req) == 5 and req[0] == 0 and req[1:3] == b"\xFF\xFF":
            return self.p2p.sense(dev, op, target)
        return self.tag.sense(dev, op, target)

    def exchange(self, dev, target, data, timeout):
        if data is not None:
            d = bytes(data)
            # (after a PSL_REQ to 212/424 kbps the F0 start byte is no longer used)
            if (d[0:1] == b"\xF0" and d[2:3] == b"\xD4") or (d[1:2] == b"\xD4" and d[0] == len(d)):
                return self.p2p.exchange(dev, target, data, timeout)
        return self.tag.exchange(dev, target, data, timeout)


ENTITY_CLASSES = {"tag": Tag, "p2p-target": P2PTarget, "p2p-initiator": P2PInitiator, "reader": Reader,
                  "multi": Multi}


# ------------------------------------------------------------------------------------------------
class WorldDevice(nfc.clf.device.Device):
    def __init__(self, spec=None, clock=None, sink=None, bound=6000):
        from vf.core.vclock import VClock
        self.spec = spec or {}
        self.clock = clock or VClock()
        self.sink = sink
        self.bound = bound
        self.calls = []
        self.entities = [ENTITY_CLASSES[e["e"]](e, i) for i, e in enumerate(self.spec.get("entities", []))]
        self.unsupported = set(self.spec.get("unsupported", ()))
        self.no_listen = set(self.spec.get("no_listen", ("ttb",)))
        self.fail = self.spec.get("fail")
        self.failed_for_good = False
        self.discoveries = 0
        self.field = False             # carrier switched on by a sense_* and not muted since
        self.last_found = None         # target object returned by the most recent successful discovery
        self.partner = None            # entity behind last_found
        self.closed = False
        self.leds = []
        self._path = "sim:world"
        self._vendor_name = "vf"
        self._device_name = "World"
        self._chipset_name = "sim"

    # -- bookkeeping -----------------------------------------------------------------------------
    def _call(self, op, target=None, data=None, timeout=None):
        c = Call(len(self.calls), op, target, None if data is None else bytes(data), timeout, self.clock.time())
        self.calls.append(c)
        self.clock.advance(0.002)      # every host command takes time (keeps time based terminate() conditions live)
        if self.sink:
            self.sink(c)
        if len(self.calls) > self.bound:
            c.exc = "Bound"
            raise Bound("more than %d driver calls" % self.bound)
        f = self.fail
        if self.failed_for_good:
            c.exc = "IOError"
            raise IOError(errno.ENODEV, os.strerror(errno.ENODEV))
        if f and c.n == f["at"]:
            if f["kind"] == "ioerror-perm":
                self.failed_for_good = True
                c.exc = "IOError"
                raise IOError(errno.ENODEV, os.strerror(errno.ENODEV))
            if f["kind"] == "ioerror-once":
                c.exc = "IOError"
                raise IOError(errno.EIO, os.strerror(errno.EIO))
            if f["kind"] == "kbd":
                c.exc = "KeyboardInterrupt"
                raise KeyboardInterrupt()
        return c

    def _raise(self, c, exc):
        c.exc = type(exc).__name__
        raise exc

    def _forget(self):
        self.last_found = None
        self.partner = None

    # -- Device interface ------------------------------------------------------------------------
    def close(self):
        self.closed = True

    def mute(self):
        self._call("mute")
        self.clock.advance(0.001)
        self.field = False
        self._forget()
        for e in self.entities:
            e.power_cycle()

    def _sense(self, op, tech, target):
        c = self._call(op, target)
        self._forget()
        self.discoveries += 1
        if not isinstance(target.brty, str) or not target.brty.endswith(tech) or target.brty in self.unsupported:
            self._raise(c, nfc.clf.UnsupportedTargetError("unsupported bitrate %s" % target.brty))
        if target.brty[:-1] not in ("106", "212", "424", "848"):
            self._raise(c, nfc.clf.UnsupportedTargetError("unsupported bitrate %s" % target.brty))
        self.field = True
        self.clock.advance(0.005)
        for e in self.entities:
            if e.role == "poll" and e.visible(self):
                found = e.sense(self, op, target)
                if found is not None:
                    self.last_found, self.partner = found, e
                    c.result, c.entity = found, e
                    return found
        return None

    def sense_tta(self, target):
        return self._sense("sense_tta", "A", target)

    def sense_ttb(self, target):
        return self._sense("sense_ttb", "B", target)

    def sense_ttf(self, target):
        return self._sense("sense_ttf", "F", target)

    def sense_dep(self, target):
        c = self._call("sense_dep", target)
        self._forget()
        self.discoveries += 1
        if "dep" in self.unsupported or target.brty in self.unsupported \
                or target.brty not in ("106A", "212F", "424F"):
            self._raise(c, nfc.clf.UnsupportedTargetError("no active mode at %s" % target.brty))
        self.field = True
        self.clock.advance(0.005)
        for e in self.entities:
            if e.role == "poll" and e.visible(self):
                found = e.sense(self, "sense_dep", target)
                if found is not None:
                    self.last_found, self.partner = found, e
                    c.result, c.entity = found, e
                    return found
        return None

    def _listen(self, op, target, timeout, need):
        c = self._call(op, target, timeout=timeout)
        self._forget()
        self.discoveries += 1
        self.field = False
        if op[7:] in self.no_listen:
            self._raise(c, nfc.clf.UnsupportedTargetError("%s is not supported" % op))
        for name, size in need:
            v = getattr(target, name)
            if v is None or (size and len(v) != size):
                self._raise(c, ValueError("%s is required (%s byte)" % (name, size or "n")))
        for e in self.entities:
            if e.role == "listen" and e.visible(self):
                found = e.listen(self, op, target, timeout)
                if found is not None:
                    self.clock.advance(min(timeout, 0.02))
                    self.last_found, self.partner = found, e
                    c.result, c.entity = found, e
                    return found
        self.clock.advance(max(0.0, timeout))
        return None

    def listen_tta(self, target, timeout):
        if target.brty != "106A":
            c = self._call("listen_tta", target, timeout=timeout)
            self._forget()
            self._raise(c, nfc.clf.UnsupportedTargetError("unsupported bitrate %s" % target.brty))
        return self._listen("listen_tta", target, timeout, (("sens_res", 2), ("sdd_res", 4), ("sel_res", 1)))

    def listen_ttb(self, target, timeout):
        return self._listen("listen_ttb", target, timeout, (("sensb_res", 0),))

    def listen_ttf(self, target, timeout):
        if target.brty not in ("212F", "424F"):
            c = self._call("listen_ttf", target, timeout=timeout)
            self._forget()
            self._raise(c, nfc.clf.UnsupportedTargetError("unsupported bitrate %s" % target.brty))
        return self._listen("listen_ttf", target, timeout, (("sensf_res", 19),))

    def listen_dep(self, target, timeout):
        return self._listen("listen_dep", target, timeout, (("sens_res", 2), ("sdd_res", 4), ("sel_res", 1),
                                                            ("sensf_res", 19), ("atr_res", 0)))

    def send_cmd_recv_rsp(self, target, data, timeout):
        c = self._call("send_cmd_recv_rsp", target, data, timeout)
        c.fresh = target is self.last_found and self.last_found is not None
        rsp = None
        if c.fresh and self.partner is not None and self.partner.role == "poll":
            rsp = self.partner.exchange(self, target, data, timeout)
        if rsp is None:
            self.clock.advance(max(0.0005, timeout or 0))
            self._raise(c, nfc.clf.TimeoutError("no response"))
        self.clock.advance(0.001)
        c.result = bytes(rsp)
        return bytearray(rsp)

    def send_rsp_recv_cmd(self, target, data, timeout=None):
        c = self._call("send_rsp_recv_cmd", target, data, timeout)
        c.fresh = target is self.last_found and self.last_found is not None
        cmd = "off"
        if c.fresh and self.partner is not None and self.partner.role == "listen":
            cmd = self.partner.exchange(self, target, data, timeout)
        if isinstance(cmd, str):
            self.clock.advance(0.002)
            self._raise(c, nfc.clf.BrokenLinkError("rf field is off"))
        if cmd is None or timeout == 0:
            self.clock.advance(max(0.0005, timeout if timeout else 0.1))
            self._raise(c, nfc.clf.TimeoutError("no command"))
        self.clock.advance(0.001)
        c.result = bytes(cmd)
        return bytearray(cmd)

    def get_max_send_data_size(self, target):
        return 290

    def get_max_recv_data_size(self, target):
        return 290

    def turn_on_led_and_buzzer(self):
        self._call("led_on")
        self.leds.append("on")

    def turn_off_led_and_buzzer(self):
        self._call("led_off")
        self.leds.append("off")


def frontend(spec, clock=None, sink=None, bound=6000):
    """(clf, device): a real ContactlessFrontend over a fresh WorldDevice"""
    dev = WorldDevice(spec, clock, sink, bound)
    clf = nfc.clf.ContactlessFrontend()
    clf.device = dev
    return clf, dev


def patch_time(clock):
    """replace the `time` name of the nfc modules that wait or measure intervals on the connect()/sense() paths"""
    import nfc.dep
    import nfc.llcp.llc
    import nfc.tag.tt1
    import nfc.tag.tt2
    import nfc.tag.tt3
    import nfc.tag.tt4
    from vf.core import vclock
    mods = [nfc.clf, nfc.dep, nfc.llcp.llc, nfc.tag.tt1, nfc.tag.tt2, nfc.tag.tt3, nfc.tag.tt4]
    vclock.patch(mods, clock)
    return mods
