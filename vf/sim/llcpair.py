"""Two real nfc.llcp.llc.LogicalLinkController objects joined at PDU level.

* MACs are *instances of the real* nfc.dep.Initiator / nfc.dep.Target classes with per-instance method
  overrides (llc.terminate() tests type(mac) == nfc.dep.Initiator exactly; a subclass would skip DISC/deactivate).
* LockstepPair: single-threaded, strictly alternating link turns  collect() -> encode -> [wire] -> decode -> dispatch()
* ThreadedPair: both real run() loops in threads over a queue rendezvous (real time); the pipe can break the
  link at the k-th exchange (silence -> TimeoutError), raise IOError, or deliver arbitrary bytes.
Every frame on the wire is handed to wire observers: callable(direction 'A>B'|'B>A', encoded bytes).
"""
import queue
import threading
import time
import types

import nfc
import nfc.clf
import nfc.dep
import nfc.llcp
import nfc.llcp.llc as L
import nfc.llcp.pdu as P


def real_initiator():
    return nfc.dep.Initiator(clf=None)


def real_target():
    return nfc.dep.Target(clf=None)


def _bind(obj, **methods):
    for name, fn in methods.items():
        setattr(obj, name, types.MethodType(fn, obj))
    return obj


def probe_general_bytes(llc, role):
    """general bytes this controller would announce (activation attempt that 'finds nobody')"""
    got = {}
    if role == "initiator":
        mac = _bind(real_initiator(), activate=lambda self, target=None, **o: got.setdefault("gb", o.get("gbi")) and None)
    else:
        mac = _bind(real_target(), activate=lambda self, timeout=None, **o: got.setdefault("gb", o.get("gbt")) and None)
    llc.activate(mac)
    return bytes(got["gb"])


class LockstepPair:
    """A is NFC-DEP initiator, B is target.  Link turns are explicit: turn('A') sends what A collects to B."""

    def __init__(self, opts_a=None, opts_b=None, gb_for_a=None, gb_for_b=None, mac_miu=251):
        self.a = L.LogicalLinkController(**(opts_a or {}))
        self.b = L.LogicalLinkController(**(opts_b or {}))
        self.observers = []
        self.wire = []            # (direction, bytes)
        self.keep_wire = True
        gbt = probe_general_bytes(self.b, "target")
        gbi = probe_general_bytes(self.a, "initiator")
        self.gbi, self.gbt = gbi, gbt
        mi = _bind(real_initiator(),
                   activate=lambda s, target=None, **o: bytes(gb_for_a if gb_for_a is not None else gbt),
                   exchange=self._no_exchange, deactivate=lambda s, release=True: None)
        mt = _bind(real_target(),
                   activate=lambda s, timeout=None, **o: bytes(gb_for_b if gb_for_b is not None else gbi),
                   exchange=self._no_exchange, deactivate=lambda s, data=None: None)
        mi.rwt = mt.rwt = 0.001
        mi.miu = mt.miu = mac_miu
        self.ok_a = self.a.activate(mi)
        self.ok_b = self.b.activate(mt)
        if self.ok_a:
            self.a.link.ESTABLISHED = True
        if self.ok_b:
            self.b.link.ESTABLISHED = True
        # collect(delay) sleeps through time.sleep: irrelevant here (we call collect() without delay)

    @staticmethod
    def _no_exchange(self, data, timeout):
        raise nfc.clf.TimeoutError("lock-step pair has no run loop")

    def llc(self, end):
        return self.a if end == "A" else self.b

    def turn(self, src, mutate=None):
        """one transmission src -> other end; returns the collected PDU object (or None = SYMM turn)"""
        s, d = (self.a, self.b) if src == "A" else (self.b, self.a)
        p = s.collect()
        if p is None:
            return None
        enc = P.encode(p)
        direction = "A>B" if src == "A" else "B>A"
        for ob in self.observers:
            ob(direction, enc, p)
        if self.keep_wire:
            self.wire.append((direction, enc))
        if mutate is not None:
            enc = mutate(enc)
            if enc is None:
                return p
        q = P.decode(enc)
        d.dispatch(q)
        return p

    def pump(self, n=1):
        c = 0
        for _ in range(n):
            c += self.turn("A") is not None
            c += self.turn("B") is not None
        return c

    def pump_until(self, cond, limit=400, sleep=0.0005):
        """alternate link turns until cond() (used to let blocking connect()/resolve() helper threads finish)"""
        for _ in range(limit):
            if cond():
                return True
            self.pump()
            if sleep:
                time.sleep(sleep)
        return cond()


class Pipe:
    """queue rendezvous between an initiator MAC and a target MAC (real time)"""

    def __init__(self):
        self.i2t = queue.Queue()
        self.t2i = queue.Queue()
        self.gb = {}
        self.gb_ready = threading.Event()
        self.exchanges = 0           # initiator exchanges so far
        self.break_at = None         # int: from this exchange on the peer is silent (link disruption)
        self.ioerror_at = None       # int: initiator side raises IOError from this exchange on
        self.broken = False
        self.observers = []
        self.wire = []
        self.keep_wire = True
        self.lock = threading.Lock()
        self.deactivated = {"I": 0, "T": 0}
        self.inject_to_i = None      # callable(n, bytes) -> bytes : replace what the initiator receives
        self.inject_to_t = None

    def _obs(self, direction, data):
        with self.lock:
            if self.keep_wire:
                self.wire.append((direction, bytes(data)))
            for ob in self.observers:
                ob(direction, bytes(data), None)


def threaded_macs(pipe, mac_miu=251, activate_timeout=5.0):
    def i_activate(self, target=None, **o):
        pipe.gb["i"] = bytes(o.get("gbi") or b"")
        if not pipe.gb_ready.wait(activate_timeout):
            return None
        self.rwt, self.miu = 0.001, mac_miu
        return pipe.gb["t"]

    def i_exchange(self, data, timeout):
        with pipe.lock:
            pipe.exchanges += 1
            n = pipe.exchanges
        if pipe.ioerror_at is not None and n >= pipe.ioerror_at:
            pipe.broken = True
            raise IOError(5, "injected I/O error")
        if pipe.broken or (pipe.break_at is not None and n >= pipe.break_at):
            pipe.broken = True
            time.sleep(min(timeout, 0.002))
            raise nfc.clf.TimeoutError("link broken")
        pipe._obs("A>B", data)
        pipe.i2t.put(bytes(data))
        try:
            r = pipe.t2i.get(timeout=timeout)
        except queue.Empty:
            raise nfc.clf.TimeoutError
        if pipe.inject_to_i:
            r = pipe.inject_to_i(n, r)
        return bytearray(r)

    def i_deactivate(self, release=True):
        pipe.deactivated["I"] += 1

    def t_activate(self, timeout=None, **o):
        pipe.gb["t"] = bytes(o.get("gbt") or b"")
        t0 = time.time()
        while "i" not in pipe.gb:
            if time.time() - t0 > activate_timeout:
                return None
            time.sleep(0.0005)
        pipe.gb_ready.set()
        self.rwt, self.miu = 0.001, mac_miu
        return pipe.gb["i"]

    def t_exchange(self, data, timeout):
        if data is not None:
            if pipe.broken:
                time.sleep(min(timeout, 0.002))
                raise nfc.clf.TimeoutError("link broken")
            pipe._obs("B>A", data)
            pipe.t2i.put(bytes(data))
        try:
            r = pipe.i2t.get(timeout=timeout)
        except queue.Empty:
            raise nfc.clf.TimeoutError
        if pipe.inject_to_t:
            r = pipe.inject_to_t(pipe.exchanges, r)
        return bytearray(r)

    def t_deactivate(self, data=None):
        pipe.deactivated["T"] += 1

    mi = _bind(real_initiator(), activate=i_activate, exchange=i_exchange, deactivate=i_deactivate)
    mt = _bind(real_target(), activate=t_activate, exchange=t_exchange, deactivate=t_deactivate)
    return mi, mt


class ThreadedPair:
    """two real LLCs with their real run() loops in threads over a Pipe"""

    def __init__(self, opts_a=None, opts_b=None, before_start=None, mac_miu=251):
        self.pipe = Pipe()
        self.a = L.LogicalLinkController(**(opts_a or {}))
        self.b = L.LogicalLinkController(**(opts_b or {}))
        self.mi, self.mt = threaded_macs(self.pipe, mac_miu)
        self.term_a = self.term_b = False
        self.run_exc = {}
        if before_start:
            before_start(self)          # e.g. start SNEP servers (they bind before activation)
        self.ta = threading.Thread(target=self._run, args=("A", self.a, self.mi), name="runA", daemon=True)
        self.tb = threading.Thread(target=self._run, args=("B", self.b, self.mt), name="runB", daemon=True)

    def _run(self, name, llc, mac):
        try:
            if llc.activate(mac):
                llc.run(terminate=(lambda: self.term_a) if name == "A" else (lambda: self.term_b))
        except BaseException as e:      # SystemExit from the IOError path is documented behaviour of run()
            self.run_exc[name] = e

    def start(self, timeout=5.0):
        self.ta.start()
        self.tb.start()
        t0 = time.time()
        while not (self.a.link.ESTABLISHED and self.b.link.ESTABLISHED):
            if time.time() - t0 > timeout or not (self.ta.is_alive() and self.tb.is_alive()):
                return False
            time.sleep(0.0005)
        return True

    def join(self, timeout=10.0):
        self.ta.join(timeout)
        self.tb.join(timeout)
        return not (self.ta.is_alive() or self.tb.is_alive())


def has_pending_connect(llc, listen_socket):
    """True when a CONNECT PDU waits in the listening socket's queue (accept() will then not block)"""
    tco = listen_socket._tco
    return len(tco.recv_queue) > 0


def lockstep_connect(lp, client_end="A", addr=40, client_opts=None, server_opts=None, backlog=1):
    """establish one data link connection in a LockstepPair; returns (client_socket, accepted_socket, listen_socket).
    client_opts / server_opts: {"miu": SO_RCVMIU value, "rw": SO_RCVBUF value}"""
    ca, sa = lp.llc(client_end), lp.llc("B" if client_end == "A" else "A")
    srv = nfc.llcp.Socket(sa, nfc.llcp.DATA_LINK_CONNECTION)
    if server_opts:
        if "miu" in server_opts:
            srv.setsockopt(nfc.llcp.SO_RCVMIU, server_opts["miu"])
        if "rw" in server_opts:
            srv.setsockopt(nfc.llcp.SO_RCVBUF, server_opts["rw"])
    srv.bind(addr)
    srv.listen(backlog)
    cli = nfc.llcp.Socket(ca, nfc.llcp.DATA_LINK_CONNECTION)
    if client_opts:
        if "miu" in client_opts:
            cli.setsockopt(nfc.llcp.SO_RCVMIU, client_opts["miu"])
        if "rw" in client_opts:
            cli.setsockopt(nfc.llcp.SO_RCVBUF, client_opts["rw"])
    res = {}

    def do_connect():
        try:
            cli.connect(addr)
            res["ok"] = True
        except Exception as e:
            res["err"] = e
    th = threading.Thread(target=do_connect, daemon=True)
    th.start()
    if not lp.pump_until(lambda: has_pending_connect(sa, srv), limit=200):
        raise RuntimeError("CONNECT never arrived")
    acc = srv.accept()
    if not lp.pump_until(lambda: not th.is_alive(), limit=200):
        raise RuntimeError("connect() did not return")
    if "err" in res:
        raise res["err"]
    return cli, acc, srv
