"""SimTagDevice: a simulated tag placed *under a real nfc.clf.ContactlessFrontend*.

The real sense()/exchange()/lock/target handling of the frontend and the real nfc.tag.activate() dispatch
run on top of it.  Tag models (vf/sim/t1t.py, t2t.py, t3t.py, t4t.py) implement:

    class Model:
        brty = "106A" | "106B" | "212F" | "424F"
        def target(self)           -> nfc.clf.RemoteTarget as the discovery answers of this tag say
                                      (sens_res/sdd_res/sel_res/rid_res | sensb_res | sensf_res), or None (mute)
        def command(self, data)    -> bytes response, or None when the tag stays silent (-> TimeoutError)
        def power_cycle(self)      -> field was switched off/on: volatile protocol state is reset
    A model announces every command that changed its persistent memory by calling self.on_state_change()
    (attribute set by the device; used for the "lose the field after the k-th state changing command" cut).
"""
import nfc
import nfc.clf
import nfc.clf.device


class SimTagDevice(nfc.clf.device.Device):
    def __init__(self, model, max_send=290, max_recv=290):
        self.model = model
        self.max_send, self.max_recv = max_send, max_recv
        self.log = []                 # (n, command bytes, response bytes | exception name | None)
        self.n_commands = 0           # commands that reached exchange() (including lost ones)
        self.n_delivered = 0          # commands the tag model saw
        self.state_changes = 0
        self.cut_after = None         # int: the tag leaves the field after this many state changing commands
        self.dead = False
        self.script = None            # callable(n, data) -> None | ("cmd_lost", exc) | ("rsp_lost", exc) | ("replace", bytes)
        self.command_bound = None     # int: raise Bound when exceeded (non-termination guard)
        self.muted = 0
        self.sense_calls = 0
        self.closed = False
        model.on_state_change = self._state_change
        self._path = "sim:tag"
        self._vendor_name = "vf"
        self._product_name = "SimTag"
        self._chipset_name = "sim"

    class Bound(Exception):
        pass

    def _state_change(self):
        self.state_changes += 1
        if self.cut_after is not None and self.state_changes >= self.cut_after:
            self.dead = True

    def arm_cut(self, k):
        """the tag leaves the field right after the k-th state changing command from now (k=0: now)"""
        self.cut_after = self.state_changes + k
        if k == 0:
            self.dead = True

    # ---- Device interface --------------------------------------------------------------------
    def close(self):
        self.closed = True

    def mute(self):
        self.muted += 1
        self.model.power_cycle()

    def _sense(self, target, kind):
        self.sense_calls += 1
        if self.dead or self.model.brty[-1] != kind:
            return None
        if target.brty != self.model.brty and not getattr(self.model, "any_bitrate", False):
            return None
        sense = getattr(self.model, "sense", None)
        if sense is not None:
            return sense(target)
        return self.model.target()

    def sense_tta(self, target):
        return self._sense(target, "A")

    def sense_ttb(self, target):
        return self._sense(target, "B")

    def sense_ttf(self, target):
        return self._sense(target, "F")

    def sense_dep(self, target):
        return None

    def listen_tta(self, target, timeout):
        return None

    listen_ttb = listen_ttf = listen_dep = listen_tta

    def send_cmd_recv_rsp(self, target, data, timeout):
        n = self.n_commands
        self.n_commands += 1
        if self.command_bound is not None and self.n_commands > self.command_bound:
            raise SimTagDevice.Bound("more than %d commands" % self.command_bound)
        data = bytes(data) if data is not None else None
        if self.dead:
            self.log.append((n, data, "dead"))
            raise nfc.clf.TimeoutError("tag left the field")
        act = self.script(n, data) if self.script else None
        if act and act[0] == "cmd_lost":
            self.log.append((n, data, "cmd_lost:" + act[1].__name__))
            raise act[1]("injected")
        self.n_delivered += 1
        was_dead = self.dead
        rsp = self.model.command(data)
        if self.dead and not was_dead and self.cut_after is not None:
            # the field is lost right after the tag committed this command: the response is not received
            self.log.append((n, data, "cut"))
            raise nfc.clf.TimeoutError("tag left the field")
        if act and act[0] == "rsp_lost":
            self.log.append((n, data, "rsp_lost:" + act[1].__name__))
            raise act[1]("injected")
        if act and act[0] == "replace":
            rsp = act[1]
        if rsp is None:
            self.log.append((n, data, None))
            raise nfc.clf.TimeoutError("no response")
        self.log.append((n, data, bytes(rsp)))
        return bytearray(rsp)

    def send_rsp_recv_cmd(self, target, data, timeout):
        raise nfc.clf.TimeoutError

    def get_max_send_data_size(self, target):
        return self.max_send

    def get_max_recv_data_size(self, target):
        return self.max_recv

    def turn_on_led_and_buzzer(self):
        pass

    def turn_off_led_and_buzzer(self):
        pass


def frontend(device):
    clf = nfc.clf.ContactlessFrontend()
    clf.device = device
    return clf


def activate(model, **dev_opts):
    """fresh frontend + fresh device over the (persistent) model -> (clf, device, tag or None)"""
    import nfc.tag
    dev = SimTagDevice(model, **{k: v for k, v in dev_opts.items() if k in ("max_send", "max_recv")})
    for k in ("cut_after", "script", "command_bound"):
        if k in dev_opts:
            setattr(dev, k, dev_opts[k])
    model.power_cycle()
    clf = frontend(dev)
    target = clf.sense(nfc.clf.RemoteTarget(model.brty))
    if target is None:
        return clf, dev, None
    tag = nfc.tag.activate(clf, target)
    return clf, dev, tag
