"""Type 4 Tag card model: an ISO/IEC 14443-4 PICC on top of an ISO/IEC 7816-4 NDEF file system.

Written from the specifications (ISO/IEC 14443-3/-4, ISO/IEC 7816-4, NFC Forum Type 4 Tag Operation), *not* from
nfcpy's expectations.  Frames at this level carry no CRC (SimTagDevice passes INF as nfcpy drivers do).

Activation
  Type A: RATS `E0 (FSDI<<4|CID)` -> ATS  TL T0 [TA(1)] [TB(1)] [TC(1)] historical bytes
          T0: b5 TA present, b6 TB present, b7 TC present, b4..b1 FSCI; TB(1) = FWI<<4 | SFGI; absent T0: FSCI 2,
          absent TB(1): FWI 4, SFGI 0
  Type B: SENSB_RES 50h NFCID0(4) appdata(4) bitrates(1) FSCI<<4|protocol type(1) FWI<<4|ADC|FO(1) [SFGI<<4|RFU(1)]
          the 4th protocol info byte is the "extended ATQB" of ISO/IEC 14443-3 7.9.4 (13 byte answer), which a PICC may
          send when the REQB/WUPB PARAM byte announces extended ATQB support (b5); it does not move FSCI or FWI
          ATTRIB `1D NFCID0 P1 P2(FSDI low nibble) P3 P4(CID)` [higher layer INF] -> MBLI<<4|CID [higher layer response]
Block protocol (14443-4 section 7.5.4, PICC rules; CID and NAD are not supported -> such blocks are ignored)
  rule C  block number := 1 at activation
  rule D  I-block received (any number)          -> toggle, then answer
  rule E  R(ACK) with number != own received      -> toggle, then continue chaining (rule 13)
  rule 9  S(WTX) request may be sent instead of an I-block or R(ACK); after the S(WTX) response the answer follows
          (7.3: request INF = power level indication b8-b7 | WTXM b6-b1, response INF = 00 | the same WTXM; wtx_power /
          wtx_strict select what the card sends and whether it insists on b8-b7 = 00 in the response)
  rule 10 I-block without chaining received       -> I-block
  rule 11 R(ACK)/R(NAK) with number == own        -> last block is retransmitted
  rule 12 R(NAK) with number != own               -> R(ACK)
  rule 13 R(ACK) with number != own, PICC chaining-> next I-block of the chain
  S(DESELECT) -> S(DESELECT), halt.  Anything malformed or not allowed in the current state -> no answer.
File system
  SELECT by name (A4 04 00) NDEF application D2760000850101 (v2) / ...00 (v1), with or without Le
  SELECT by file id (A4 00 0C | A4 00 00), READ BINARY (B0, Le 00 = 256), UPDATE BINARY (D6),
  READ/UPDATE BINARY with offset data object (B1/D7, mapping version 3.0), short and extended length fields
  MLe/MLc enforcement, access conditions of the CC's file control TLV, the CC file is read-only.
Every executed APDU is logged with its response (exactly-once checks); every UPDATE BINARY that was applied calls
self.on_state_change().
"""
import struct

import nfc.clf

from vf.ref import t4_files as ref

FSC_TABLE = (16, 24, 32, 40, 48, 64, 96, 128, 256)


def exc_tag_sig(e):
    """mechanism signature of an exception: type @ innermost frame inside nfc/tag (file:function), no line numbers.
    (exceptions injected by the simulated device are raised below nfc.clf, which says nothing about the mechanism)"""
    import traceback
    best = None
    for f in traceback.extract_tb(e.__traceback__):
        fn = f.filename.replace("\\", "/")
        if "/nfc/tag/" in fn and not fn.startswith("/verif/"):
            best = "%s:%s" % (fn[fn.rfind("/nfc/") + 1:], f.name)
    name = type(e).__name__
    if isinstance(e, struct.error):          # the message only holds constants of the format string: keeps unpack sites apart
        name = "struct.error(%s)" % str(e).replace("/", "-")
    return "%s@%s" % (name, best or "?")


def fs_of(fsi):
    return FSC_TABLE[fsi] if fsi <= 8 else 256


def build_ats(fsci=8, fwi=4, sfgi=0, ta=0x00, tb=True, tc=0x00, hist=b"\x80", t0=True):
    """ATS bytes; ta/tc: int value or None (absent); tb: bool; t0=False gives the one byte ATS `01`"""
    if not t0:
        return b"\x01"
    body = bytearray([fsci | (0x10 if ta is not None else 0) | (0x20 if tb else 0) | (0x40 if tc is not None else 0)])
    if ta is not None:
        body.append(ta)
    if tb:
        body.append(fwi << 4 | sfgi)
    if tc is not None:
        body.append(tc)
    body += bytes(hist)
    return bytes([len(body) + 1]) + bytes(body)


def build_sensb(nfcid0, fsci=8, fwi=4, sfgi=None, appdata=bytes(4), bitrates=0x00, proto=0x01, adc_fo=0x05, rfu=0):
    """ATQB / SENSB_RES: basic form (12 bytes) or, with sfgi given, the extended form (13 bytes, ISO/IEC 14443-3 7.9.4)"""
    out = b"\x50" + bytes(nfcid0)[:4] + bytes(appdata)[:4] + bytes([bitrates, fsci << 4 | proto & 15, fwi << 4 | adc_fo & 15])
    if sfgi is not None:
        out += bytes([sfgi << 4 | rfu & 15])
    return out


class T4TCard(object):
    def __init__(self, kind="A", fsci=8, fwi=4, sfgi=0, ats=None, ats_opts=None, sensb_res=None, attrib_res=b"\x00",
                 uid=None, apps=("v2",), files=None, access=None, mle=255, mlc=255, eof="6282", select_fci=None,
                 resp_chunk=None, ext_apdu=True, odo=True, strict_fsc=False, le_less_read="6700", ext_atqb=False,
                 upd_limit=None, upd_beyond="std", p1b8="6A82", sfi=None, read_cap=None, read_page=None):
        self.kind = kind
        self.brty = "106" + kind
        self.fsci, self.fwi, self.sfgi = fsci, fwi, sfgi
        self.fsc = fs_of(fsci)
        if kind == "A":
            self.uid = bytes(uid or bytes.fromhex("04832F9A272D80"))
            self.ats = bytes(ats) if ats is not None else build_ats(fsci, fwi, sfgi, **(ats_opts or {}))
        else:
            self.uid = bytes(uid or bytes.fromhex("30702A1C"))
            self.sensb_res = (bytes(sensb_res) if sensb_res is not None else
                              build_sensb(self.uid, fsci, fwi, sfgi if ext_atqb else None))
            self.attrib_res = bytes(attrib_res) if attrib_res is not None else None
        self.apps = set(apps)
        self.files = {k: bytearray(v) for k, v in (files or {}).items()}      # persistent memory
        self.access = dict(access or {})         # fid -> (read, write) access condition bytes; default from the CC
        self.mle, self.mlc = mle, mlc            # what the card enforces
        self.eof = eof                           # READ BINARY beyond the end: "6282" partial+warning, "9000" partial,
        #                                          "6700", "6CXX"
        self.le_less_read = le_less_read         # READ BINARY without Le: "6700" or "9000" (no data)
        self.select_fci = select_fci             # bytes returned by SELECT by name when Le is present
        self.resp_chunk = resp_chunk             # INF bytes per response block (default: min(FSD, FSC) - 3)
        self.ext_apdu, self.odo, self.strict_fsc = ext_apdu, odo, strict_fsc
        # UPDATE BINARY range check.  upd_limit: fid -> number of bytes of the EF the card lets UPDATE BINARY reach (a card
        # that enforces the maximum NDEF file size of its CC although the EF is physically larger); default: the physical
        # EF size, i.e. bytes behind the declared maximum size are silently writable (legal: the CC value is a promise to the
        # reader, not a property of the EF).  upd_beyond: status word of a refused update, "std" = 6B00 when the offset lies
        # behind the end and 6700 when offset + Lc reaches behind it; or a fixed "6A84" / "6B00" / "6700" as seen on products
        self.upd_limit = dict(upd_limit or {})
        self.upd_beyond = upd_beyond
        # READ/UPDATE BINARY (B0/D6) with bit 8 of P1 set.  ISO/IEC 7816-4: bits 8..6 of P1 = 100 -> bits 5..1 are a short EF
        # identifier (0 = the current EF, otherwise the EF becomes the current one) and P2 is the offset (0..255), so only
        # offsets 0000h..7FFFh of a file can be expressed in P1-P2.  p1b8: "sfi" = that rule (self.sfi: short id -> fid),
        # "6A82" = the card knows no short identifiers (file not found), "6B00" = wrong parameters P1-P2,
        # "offset" = a card that takes P1-P2 as a 16 bit offset (not ISO, seen on products)
        self.p1b8 = p1b8
        self.sfi = {int(k): v for k, v in (sfi or {}).items()}
        # short reads: a card may return fewer bytes than Le (Le is an upper bound).  read_cap: at most that many bytes per
        # READ BINARY; read_page: a READ BINARY never crosses a multiple of read_page (page-wise memory access)
        self.read_cap, self.read_page = read_cap, read_page
        # hooks
        self.responder = None      # callable(apdu) -> response bytes | None (fall through to the file system)
        self.apdu_script = None    # callable(n, apdu) -> response bytes | "mute" | None   (n-th executed APDU)
        self.wtx_fn = None         # callable(card, answer_block, round) -> WTXM (0: none) for the block about to be sent
        # S(WTX) INF byte (ISO/IEC 14443-4 7.3): request  b8-b7 power level indication (00 = not supported), b6-b1 WTXM 1..59;
        # response b8-b7 = 00 (other values RFU), b6-b1 the same WTXM.  wtx_power: the power level indication this card puts
        # into its requests.  wtx_strict: True = the whole response INF byte must equal the WTXM (a response with b8-b7 != 00
        # is an RFU coding -> protocol error -> no answer); False = a card that ignores b8-b7 of the response
        self.wtx_power = 0
        self.wtx_strict = True
        # callable(card, block) -> None (normal protocol engine) | "mute" | bytes: a card that deliberately breaks the
        # block protocol for this block (storm / misbehaving cards); never set by default
        self.block_hook = None
        self.on_state_change = lambda: None
        self.reset_logs()
        self.power_cycle()

    # ---- persistence / logs ---------------------------------------------------------------------
    def snapshot(self):
        return {k: bytes(v) for k, v in self.files.items()}

    def restore(self, snap):
        self.files = {k: bytearray(v) for k, v in snap.items()}

    def reset_logs(self):
        self.apdu_log = []       # (apdu, response | None)
        self.read_log = []       # (fid, offset, n) of served READ BINARY
        self.short_served = 0    # READ BINARY answered 9000 with fewer bytes than Le although the file holds more
        self.p1b8_reads = []     # (P1, offset used | None, status) of every READ BINARY (B0) received with bit 8 of P1 set
        self.write_log = []      # (fid, offset, data) of applied UPDATE BINARY
        self.update_cmds = []    # (selected fid, offset, lc, status) of every UPDATE BINARY seen
        self.blocks = {"I": 0, "I_chain": 0, "RACK": 0, "RNAK": 0, "SWTX": 0, "SDESEL": 0, "ignored": 0,
                       "retransmit": 0, "tx_I": 0, "tx_I_chain": 0, "tx_RACK": 0, "tx_SWTX": 0}
        self.oversize = []       # lengths of received blocks with len+2 > FSC
        self.max_rx_block = 0
        self.answer_no = 0       # answers composed since the last reset (WTX positions refer to this)
        self.wtx_bad = 0
        self.wtx_rsp_pl_bits = 0  # S(WTX) responses received with b8-b7 != 00 (RFU coding of the response INF byte)
        self.wtx_accepted = []   # WTXM of every accepted S(WTX) response

    def power_cycle(self):
        self.activated = False
        self.halted = False
        self.bn = 1              # rule C
        self.last = None
        self.rx = bytearray()
        self.tx = []
        self.wtx_pending = None
        self.sel_app = None
        self.sel_file = None
        self.fsd = 256
        self.cid = 0
        self.last_ins = None
        self.resp_block_no = 0       # 1 = first block of the current response, 2.. = chain continuation

    # ---- discovery ----------------------------------------------------------------------------
    def target(self):
        if self.kind == "A":
            return nfc.clf.RemoteTarget("106A", sens_res=bytearray(b"\x44\x03"), sdd_res=bytearray(self.uid),
                                        sel_res=bytearray(b"\x20"))
        return nfc.clf.RemoteTarget("106B", sensb_res=bytearray(self.sensb_res))

    # ---- frame entry ----------------------------------------------------------------------------
    def command(self, data):
        if data is None or len(data) == 0 or self.halted:
            return None
        data = bytes(data)
        if not self.activated:
            return self._activation(data)
        return self._block(data)

    def _activation(self, data):
        if self.kind == "A":
            if len(data) == 2 and data[0] == 0xE0:
                self.fsd = fs_of(data[1] >> 4)
                self.cid = data[1] & 15
                self.activated = True
                return self.ats if len(self.ats) else None
            return None
        if len(data) >= 9 and data[0] == 0x1D and data[1:5] == self.uid[:4]:
            self.fsd = fs_of(data[6] & 15)
            self.cid = data[8] & 15
            self.activated = True
            return self.attrib_res
        return None

    # ---- ISO/IEC 14443-4 block handling ---------------------------------------------------------
    def _block(self, data):
        pcb = data[0]
        n = len(data)
        if self.block_hook is not None:
            r = self.block_hook(self, data)
            if r is not None:
                return None if isinstance(r, str) else bytes(r)
        self.max_rx_block = max(self.max_rx_block, n)
        if n + 2 > self.fsc:
            self.oversize.append(n)
            if self.strict_fsc:
                self.blocks["ignored"] += 1
                return None
        if pcb & 0xE2 == 0x02:                      # I-block 000c CN1b
            if pcb & 0x0C:
                self.blocks["ignored"] += 1
                return None
            return self._iblock(pcb, data[1:])
        if pcb & 0xE6 == 0xA2:                      # R-block 101a C01b
            if pcb & 0x08 or n != 1:
                self.blocks["ignored"] += 1
                return None
            return self._rblock(pcb)
        if pcb & 0xC7 == 0xC2:                      # S-block 11xx C010
            kind = pcb & 0x30
            if kind == 0x30:
                return self._wtx_response(data)
            if kind == 0x00 and n == 1:
                self.blocks["SDESEL"] += 1
                self.activated = False
                self.halted = True
                return bytes([0xC2])
        self.blocks["ignored"] += 1
        return None

    def _chunk_size(self):
        if self.resp_chunk:
            return max(1, min(self.resp_chunk, self.fsd - 3))
        return min(self.fsd, self.fsc) - 3

    def _next_iblock(self):
        c = self.tx.pop(0)
        self.resp_block_no += 1
        more = bool(self.tx)
        self.blocks["tx_I_chain" if more else "tx_I"] += 1
        return bytes([0x02 | self.bn | (0x10 if more else 0)]) + c

    def _send(self, out, rnd=0):
        """the answer block `out` is due; an S(WTX) request may go out first (rule 9)"""
        if rnd == 0:
            self.answer_no += 1
        wtxm = self.wtx_fn(self, out, rnd) if self.wtx_fn else 0
        if wtxm:
            self.wtx_pending = (out, rnd, wtxm)
            self.blocks["tx_SWTX"] += 1
            out = bytes([0xF2, (self.wtx_power & 3) << 6 | wtxm & 0x3F])
        self.last = out
        return out

    def _iblock(self, pcb, inf):
        self.blocks["I_chain" if pcb & 0x10 else "I"] += 1
        self.wtx_pending = None
        self.tx = []
        self.bn ^= 1                                # rule D
        self.rx += inf
        if pcb & 0x10:                              # PCD chaining: acknowledge (rule 2/ scenario 5)
            self.blocks["tx_RACK"] += 1
            return self._send(bytes([0xA2 | self.bn]))
        apdu = bytes(self.rx)
        self.rx = bytearray()
        if len(apdu) == 0:                          # empty I-block: answered by an empty I-block, nothing is executed
            rsp = b""
        else:
            rsp = self._execute(apdu)
            if rsp is None:
                self.last = None
                return None
        m = self._chunk_size()
        self.tx = [rsp[i:i + m] for i in range(0, len(rsp), m)] or [b""]
        self.resp_block_no = 0
        return self._send(self._next_iblock())

    def _rblock(self, pcb):
        nak = bool(pcb & 0x10)
        self.blocks["RNAK" if nak else "RACK"] += 1
        if (pcb & 1) == self.bn:                    # rule 11
            if self.last is None:
                return None
            self.blocks["retransmit"] += 1
            return self.last
        if nak:                                     # rule 12
            self.blocks["tx_RACK"] += 1
            self.last = bytes([0xA2 | self.bn])
            return self.last
        if self.tx and self.wtx_pending is None:    # rule E + rule 13
            self.bn ^= 1
            return self._send(self._next_iblock())
        self.blocks["ignored"] += 1
        return None

    def _wtx_response(self, data):
        self.blocks["SWTX"] += 1
        if self.wtx_pending is None:
            self.blocks["ignored"] += 1
            return None
        out, rnd, wtxm = self.wtx_pending
        if len(data) == 2 and data[1] & 0xC0:
            self.wtx_rsp_pl_bits += 1
        if len(data) != 2 or data[0] != 0xF2 or (data[1] & 0x3F) != (wtxm & 0x3F) or (self.wtx_strict and data[1] & 0xC0):
            self.wtx_bad += 1
            return None
        self.wtx_pending = None
        self.wtx_accepted.append(wtxm & 0x3F)
        return self._send(out, rnd + 1)

    # ---- APDU execution -------------------------------------------------------------------------
    def _execute(self, apdu):
        n = len(self.apdu_log)
        rsp = None
        self.last_ins = apdu[1] if len(apdu) > 1 else None
        if self.responder is not None:
            rsp = self.responder(apdu)
        if rsp is None and self.apdu_script is not None:
            rsp = self.apdu_script(n, apdu)
        if isinstance(rsp, str):                    # "mute"
            self.apdu_log.append((apdu, None))
            return None
        if rsp is None:
            rsp = self._iso7816(apdu)
        rsp = bytes(rsp)
        self.apdu_log.append((apdu, rsp))
        return rsp

    @staticmethod
    def parse_apdu(apdu, ext_ok=True):
        """-> (lc, data, le, extended) with lc/le None when absent; le as a number Ne (00 -> 256 / 65536); None: malformed"""
        body = apdu[4:]
        if len(body) == 0:
            return (None, b"", None, False)
        if len(body) == 1:
            return (None, b"", body[0] or 256, False)
        if body[0] != 0:
            lc = body[0]
            if len(body) == 1 + lc:
                return (lc, body[1:], None, False)
            if len(body) == 2 + lc:
                return (lc, body[1:1 + lc], body[-1] or 256, False)
            return None
        if not ext_ok or len(body) < 3:
            return None
        if len(body) == 3:
            return (None, b"", struct.unpack(">H", body[1:3])[0] or 65536, True)
        lc = struct.unpack(">H", body[1:3])[0]
        if lc == 0:
            return None
        if len(body) == 3 + lc:
            return (lc, body[3:], None, True)
        if len(body) == 5 + lc:
            return (lc, body[3:3 + lc], struct.unpack(">H", body[-2:])[0] or 65536, True)
        return None

    def _acc(self, fid):
        if fid in self.access:
            return self.access[fid]
        if fid == ref.CC_FID:
            return (0x00, 0xFF)
        try:
            cc = ref.parse_cc(self.files[ref.CC_FID], strict=False)
            if cc["fid"] == fid:
                return (cc["rd"], cc["wr"])
        except (ref.RefError, KeyError, struct.error):
            pass
        return (0x00, 0x00)

    def _iso7816(self, apdu):
        if len(apdu) < 4:
            return b"\x67\x00"
        cla, ins, p1, p2 = apdu[:4]
        parsed = self.parse_apdu(apdu, self.ext_apdu)
        if cla != 0x00:
            return b"\x6E\x00"
        if parsed is None:
            if ins == 0xD6:
                self.update_cmds.append((self.sel_file, p1 << 8 | p2, None, 0x6700))
            return b"\x67\x00"
        lc, data, le, _ext = parsed
        if ins == 0xA4:
            return self._select(p1, p2, lc, data, le)
        if ins == 0xB0:
            return self._read_binary(p1 << 8 | p2, p1, le)
        if ins == 0xD6:
            sw = self._update_binary(p1 << 8 | p2, p1, lc, data)
            return struct.pack(">H", sw)
        if ins in (0xB1, 0xD7) and self.odo:
            return self._odo(ins, p1, p2, lc, data, le)
        return b"\x6D\x00"

    def _select(self, p1, p2, lc, data, le):
        if p1 == 0x04:
            if lc is None:
                return b"\x67\x00"
            if p2 not in (0x00, 0x0C):
                return b"\x6A\x86"
            for name, aid in (("v2", ref.AID_V2), ("v1", ref.AID_V1)):
                if data == aid and name in self.apps:
                    self.sel_app, self.sel_file = name, None
                    if self.select_fci and le is not None and p2 == 0x00:
                        return bytes(self.select_fci)[:le] + b"\x90\x00"
                    return b"\x90\x00"
            return b"\x6A\x82"
        if p1 == 0x00:
            if p2 not in (0x00, 0x0C):
                return b"\x6A\x86"
            if lc != 2:
                return b"\x67\x00"
            fid = struct.unpack(">H", data)[0]
            if self.sel_app is None or fid not in self.files:
                return b"\x6A\x82"
            self.sel_file = fid
            return b"\x90\x00"
        return b"\x6A\x86"

    def _read(self, off, ne):
        """-> (data, sw)"""
        if self.sel_file is None:
            return b"", 0x6986
        if ne > self.mle:
            return b"", 0x6700
        f = self.files[self.sel_file]
        if self._acc(self.sel_file)[0] != 0x00:
            return b"", 0x6982
        if off >= len(f):
            return b"", 0x6B00
        part = bytes(f[off:off + ne])
        sw = 0x9000
        short = ne
        if self.read_cap:
            short = min(short, self.read_cap)
        if self.read_page:
            short = min(short, self.read_page - off % self.read_page)
        if short < ne and len(part) >= short:
            # fewer bytes than Le although the file holds more: plain 9000 (the reader asks again for the rest)
            part = part[:short]
            self.short_served += 1
            self.read_log.append((self.sel_file, off, len(part)))
            return part, sw
        if len(part) < ne:
            if self.eof == "6700":
                return b"", 0x6700
            if self.eof == "6CXX":
                return b"", 0x6C00 | (len(part) & 255)
            sw = 0x6282 if self.eof == "6282" else 0x9000
        self.read_log.append((self.sel_file, off, len(part)))
        return part, sw

    def _p1b8(self, p1, p2):
        """bit 8 of P1 set -> (offset, None) or (None, status word)"""
        if self.p1b8 == "offset":
            return p1 << 8 | p2, None
        if self.p1b8 == "sfi":
            if p1 & 0x60:
                return None, 0x6A86
            sid = p1 & 0x1F
            if sid:
                if self.sel_app is None or self.sfi.get(sid) not in self.files:
                    return None, 0x6A82
                self.sel_file = self.sfi[sid]
            return p2, None
        return None, int(self.p1b8, 16)             # default 6A82: short EF identifier addressing, no such file

    def _read_binary(self, off, p1, le):
        if p1 & 0x80:
            off, sw = self._p1b8(p1, off & 0xFF)
            if sw is not None:
                self.p1b8_reads.append((p1, None, sw))
                return struct.pack(">H", sw)
        if le is None:
            return b"\x67\x00" if self.le_less_read == "6700" else b"\x90\x00"
        part, sw = self._read(off, le)
        if p1 & 0x80:
            self.p1b8_reads.append((p1, off, sw))
        return part + struct.pack(">H", sw)

    def _update(self, off, data):
        fid = self.sel_file
        if fid is None:
            return 0x6986
        if len(data) == 0 or len(data) > self.mlc:
            return 0x6700
        if fid == ref.CC_FID or self._acc(fid)[1] != 0x00:
            return 0x6982
        f = self.files[fid]
        end = min(len(f), self.upd_limit.get(fid, len(f)))
        if off > end or off + len(data) > end:
            if self.upd_beyond == "std":
                return 0x6B00 if off > end else 0x6700
            return int(self.upd_beyond, 16)
        f[off:off + len(data)] = data
        self.write_log.append((fid, off, bytes(data)))
        self.on_state_change()
        return 0x9000

    def _update_binary(self, off, p1, lc, data):
        woff = off
        sw = None
        if p1 & 0x80:
            woff, sw = self._p1b8(p1, off & 0xFF)
        if sw is not None:
            pass
        elif lc is None:
            sw = 0x6700
        else:
            sw = self._update(woff, data)
        self.update_cmds.append((self.sel_file, off, lc, sw))
        return sw

    @staticmethod
    def _ber_len(n):
        if n < 128:
            return bytes([n])
        if n < 256:
            return bytes([0x81, n])
        return bytes([0x82]) + struct.pack(">H", n)

    def _odo(self, ins, p1, p2, lc, data, le):
        """READ/UPDATE BINARY with offset data object 54h (3 byte offset) and discretionary data object 53h"""
        if (p1, p2) != (0, 0):
            return b"\x6A\x86"
        if lc is None or len(data) < 5 or data[0] != 0x54 or data[1] != 0x03:
            return b"\x6A\x80"
        off = int.from_bytes(data[2:5], "big")
        rest = data[5:]
        if ins == 0xB1:
            if rest:
                return b"\x6A\x80"
            if le is None:
                return b"\x67\x00"
            # Le counts the bytes of the returned data object; give back what fits
            want = max(0, le - (2 if le <= 129 else (3 if le <= 258 else 4)))
            part, sw = self._read(off, want) if want else (b"", 0x6700)
            if sw not in (0x9000, 0x6282):
                return struct.pack(">H", sw)
            return b"\x53" + self._ber_len(len(part)) + part + struct.pack(">H", sw)
        if len(rest) < 2 or rest[0] != 0x53:
            return b"\x6A\x80"
        if rest[1] < 128:
            ln, body = rest[1], rest[2:]
        elif rest[1] == 0x81 and len(rest) >= 3:
            ln, body = rest[2], rest[3:]
        elif rest[1] == 0x82 and len(rest) >= 4:
            ln, body = struct.unpack(">H", rest[2:4])[0], rest[4:]
        else:
            return b"\x6A\x80"
        if ln != len(body):
            return b"\x6A\x80"
        sw = self._update(off, body)
        self.update_cmds.append((self.sel_file, off, ln, sw))
        return struct.pack(">H", sw)


# ---- building cards from JSON-able layout descriptors ------------------------------------------------------------
def make_card(lay, msg=b"", guard=0):
    """layout dict -> T4TCard with a well-formed CC and an NDEF file of exactly lay['fsize'] (+ guard) bytes

    lay: kind A|B, fsci, fwi, ver (10h/20h/30h), tlv (4|6), mle, mlc, fsize, fid, rd, wr, eof, fill, tail (bytes),
         decoy (bool: a second, unrelated EF next to the NDEF file), fci (bytes), chunk (response INF size),
         enforce ("physical" | "declared": where UPDATE BINARY is range checked), beyond_sw ("std" | "6A84" | "6B00" | "6700")
    """
    tlv = lay.get("tlv", 4)
    fid = lay.get("fid", 0xE104)
    cc = ref.build_cc(lay.get("ver", 0x20), lay["mle"], lay["mlc"], fid, lay["fsize"], lay.get("rd", 0), lay.get("wr", 0),
                      tlv=tlv)
    nf = ref.build_ndef_file(lay["fsize"], msg, tlv=tlv, fill=lay.get("fill", 0), tail=lay.get("tail"))
    if guard:
        nf += bytes([0xEE]) * guard
    files = {ref.CC_FID: cc, fid: nf}
    if lay.get("decoy"):
        files[(fid + 1) & 0xFFFF if (fid + 1) & 0xFFFF not in files else 0xE1FE] = bytearray(b"\xDC" * 24)
    ver = lay.get("ver", 0x20) >> 4
    card = T4TCard(kind=lay.get("kind", "A"), fsci=lay.get("fsci", 8), fwi=lay.get("fwi", 4),
                   apps=("v1",) if ver == 1 else (("v2", "v1") if lay.get("both_aids") else ("v2",)),
                   files=files, mle=lay["mle"], mlc=lay["mlc"], eof=lay.get("eof", "6282"),
                   select_fci=lay.get("fci"), resp_chunk=lay.get("chunk"), odo=(ver >= 3),
                   access={fid: (lay.get("rd", 0), lay.get("wr", 0))},
                   upd_limit={fid: lay["fsize"]} if lay.get("enforce") == "declared" else None,
                   upd_beyond=lay.get("beyond_sw", "std"))
    card.ndef_fid = fid
    card.declared_size = lay["fsize"]
    return card


# ---- conformance self-test: transcripts of /repo/tests/test_tag_tt4.py replayed against the card side ------------------
def selftest():
    """-> list of failure strings (empty = the card model agrees with the literal transcripts of the repository's tests)"""
    H = bytes.fromhex
    bad = []

    def expect(name, got, want):
        if got != want:
            bad.append("%s: got %s, want %s" % (name, None if got is None else bytes(got).hex(), want.hex()))

    # ATS of test_init_T4A / TestType4Tag.tag: 06 75 77 81 02 80
    expect("ats", build_ats(5, 8, 1, ta=0x77, tb=True, tc=0x02, hist=b"\x80"), H("067577810280"))
    # SENSB_RES layout of test_init_T4B (FSCI / FWI nibbles at [10] and [11])
    c = T4TCard(kind="B", fsci=8, fwi=8)
    expect("sensb", c.sensb_res[:5] + c.sensb_res[9:], H("5030702A1C") + H("008185"))
    # extended ATQB: one more protocol info byte behind the basic form, nothing else moves
    c = T4TCard(kind="B", fsci=2, fwi=8, sfgi=4, ext_atqb=True)
    expect("sensb-ext", c.sensb_res, H("5030702A1C") + bytes(4) + H("00218540"))
    # test_is_present: R(NAK) block number 0 on a fresh card -> R(ACK) with the card's number 1
    c = T4TCard(kind="A", fsci=5, fwi=8)
    c.responder = lambda apdu: H("0203")
    expect("rats", c.command(H("E080")), c.ats)
    expect("presence", c.command(H("B2")), H("A3"))
    # test_send_less_than_miu: block numbers 0, 1, 0
    expect("i0", c.command(H("0201")), H("020203"))
    expect("i1", c.command(H("030102")), H("030203"))
    expect("i2", c.command(H("020102030405")), H("020203"))
    # test_send_more_than_miu: chained I-block acknowledged, block number toggles per block
    c.power_cycle()
    c.command(H("E080"))
    expect("chain-ack", c.command(H("120102030405")), H("A2"))
    expect("chain-last", c.command(H("0306")), H("030203"))
    # test_send_retransmit_after_ack / R(NAK) rules: lost I-block -> R(NAK)(0) -> R(ACK)(1); lost response -> retransmission
    c.power_cycle()
    c.command(H("E080"))
    expect("rule12", c.command(H("B2")), H("A3"))
    expect("after-rule12", c.command(H("020102")), H("020203"))
    expect("rule11", c.command(H("B2")), H("020203"))
    # test_send_recv_waiting_time_ext
    c.power_cycle()
    c.command(H("E080"))
    c.wtx_fn = lambda card, out, rnd: 2 if rnd == 0 else 0
    expect("wtx-req", c.command(H("020102")), H("F202"))
    expect("wtx-rsp", c.command(H("F202")), H("020203"))
    c.wtx_fn = None
    # test_recv_more_with_no_error: card chaining 12.. / 13.. / 02.., reader acknowledges with A3, A2
    c = T4TCard(kind="A", fsci=5, fwi=8, resp_chunk=2)
    c.responder = lambda apdu: H("010203040506")
    c.command(H("E080"))
    expect("pc0", c.command(H("020102")), H("120102"))
    expect("pc1", c.command(H("A3")), H("130304"))
    expect("pc1-again", c.command(H("A3")), H("130304"))
    expect("pc2", c.command(H("A2")), H("020506"))
    n = len(c.apdu_log)
    if n != 1:
        bad.append("executions: %d" % n)
    return bad


if __name__ == "__main__":
    import sys
    res = selftest()
    print("t4t card model self-test:", "ok" if not res else res)
    sys.exit(1 if res else 0)
