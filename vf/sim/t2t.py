"""NFC Forum Type 2 Tag memory model (spec level: NFC Forum T2T Operation / Digital Protocol, NXP MF0ICU1, MF0ICU2,
NTAG203, NTAG21x, MF0ULx1, NT3H1x01 data sheets).  Nothing here is derived from nfcpy.

Memory is a linear byte array, address = sector * 1024 + page * 4 (pages are 4 bytes, a sector has 256 pages).

Commands
    30 pp            READ   -> 16 bytes = pages pp..pp+3; at the end of the readable memory of the sector the read
                               continues at page 0 (roll-over); 1-byte NAK when pp is not a readable page
    A2 pp d0 d1 d2 d3  WRITE -> ACK 0Ah (NAK: invalid page, locked, not authenticated)
    C2 FF            SECTOR SELECT packet 1 -> ACK (only tags with more than one sector), then
    ss 00 00 00      packet 2: *silence* for more than 1 ms means success, NAK when the sector does not exist
    1A 00 / AF ...   Ultralight C 3DES mutual authentication
    60               GET_VERSION (NTAG21x, Ultralight EV1, NTAG I2C)
    1B pwd           PWD_AUTH -> PACK | NAK         (NTAG21x, EV1)
    3C 00            READ_SIG -> 32 bytes           (NTAG21x, EV1)
    3A s e           FAST_READ -> (e-s+1)*4 bytes   (NTAG21x, EV1, NTAG I2C)
    39 02            READ_CNT -> 3 bytes            (NTAG213/215/216)
    50 00            HALT (no answer, tag is idle)
    anything else    the tag returns to IDLE: no answer, and no answer to anything until it is activated again
                     (personality "ntag203" answers NAK 00h before going idle, that is how readers tell it apart)

One-way bits: static lock bytes (page 2 bytes 2,3), OTP/CC page 3, dynamic lock bytes are OR-written.  Pages 0, 1
and bytes 0, 1 of page 2 cannot be written.  Pages locked by static/dynamic lock bits answer NAK when `enforce_locks`.
Configuration that real products load at power-on (AUTH0, PROT, keys, passwords) is taken over at power_cycle().

The model calls self.on_state_change() (installed by SimTagDevice) after every acknowledged WRITE.
"""
import random

import nfc.clf

ACK = b"\x0A"
NAK_ARG = b"\x00"       # invalid argument (page address)
NAK_AUTH = b"\x04"      # authentication counter overflow / not authenticated (NTAG: 00 as well; both are NAKs)
NAK_WRITE = b"\x05"     # EEPROM write error

DEFAULT_ULC_KEYMEM = b"BREAKMEIFYOUCAN!"      # memory image of the factory key 49454D4B41455242214E4143554F5946

# name: pages, dynamic lock page (or None), configuration page (or None), GET_VERSION, CC size byte, class expected
PRODUCTS = {
    "ul":       dict(pages=16, dynlock=None, cfg=None, version=None, cc2=0x06),
    "ulc":      dict(pages=48, dynlock=40, cfg=None, version=None, cc2=0x12),
    "ntag203":  dict(pages=42, dynlock=40, cfg=None, version=None, cc2=0x12),
    "ntag210":  dict(pages=20, dynlock=None, cfg=16, version=bytes.fromhex("0004040101000B03"), cc2=0x06),
    "ntag212":  dict(pages=41, dynlock=36, cfg=37, version=bytes.fromhex("0004040101000E03"), cc2=0x10),
    "ntag213":  dict(pages=45, dynlock=40, cfg=41, version=bytes.fromhex("0004040201000F03"), cc2=0x12),
    "ntag215":  dict(pages=135, dynlock=130, cfg=131, version=bytes.fromhex("0004040201001103"), cc2=0x3E),
    "ntag216":  dict(pages=231, dynlock=226, cfg=227, version=bytes.fromhex("0004040201001303"), cc2=0x6D),
    "ul11":     dict(pages=20, dynlock=None, cfg=16, version=bytes.fromhex("0004030101000B03"), cc2=0x06),
    "ul21":     dict(pages=41, dynlock=36, cfg=37, version=bytes.fromhex("0004030101000E03"), cc2=0x10),
    "i2c1k":    dict(pages=1024, dynlock=226, cfg=None, version=bytes.fromhex("0004040502011303"), cc2=0x6D),
    "i2c2k":    dict(pages=1024, dynlock=256 + 224, cfg=None, version=bytes.fromhex("0004040502011503"), cc2=0xEA),
}
NTAG21X = ("ntag210", "ntag212", "ntag213", "ntag215", "ntag216", "ul11", "ul21")
NTAGI2C = ("i2c1k", "i2c2k")


def _des3():
    from pyDes import triple_des, CBC      # third-party primitive, not part of nfcpy
    return triple_des, CBC


class T2TModel(object):
    brty = "106A"

    def __init__(self, mem, kind="generic", valid=None, enforce_locks=True, nak_idle=True, version=None,
                 sens_res=b"\x44\x00", sel_res=b"\x00", seed=1, otp_or=True, signature=None, uid_len=7):
        """mem: physical memory image (multiple of 4 bytes).  valid: optional list of bools, one per page.
        uid_len: 4 | 7 | 10 - size of the identifier the tag presents in the anticollision (single / double / triple
        size NFCID1); the memory layout is the same for all of them"""
        assert len(mem) % 4 == 0 and len(mem) >= 16
        self.mem = bytearray(mem)
        self.kind = kind
        self.prod = PRODUCTS.get(kind)
        self.npages = len(self.mem) // 4
        self.valid = list(valid) if valid is not None else None
        self.enforce_locks = enforce_locks
        self.nak_idle = nak_idle
        self.otp_or = otp_or
        self.version = version if version is not None else (self.prod or {}).get("version")
        self.sens_res = bytes(sens_res)
        self.sel_res = bytes(sel_res)
        self.uid_len = uid_len
        self.signature = signature if signature is not None else bytes(range(0x40, 0x60))
        self.rng = random.Random(seed)
        self.nsectors = (self.npages + 255) // 256
        self.on_state_change = lambda: None
        self.reads = []              # (sector, page) of every answered READ since clear_logs()
        self.writes = []             # (sector, page, data) of every acknowledged WRITE
        self.write_cmds = []         # (sector, page, acknowledged) of every WRITE command the tag received
        self.naks = 0
        self.unknown = 0
        self.power_cycles = 0
        self.sector_resets = 0       # power cycles that happened while a sector other than 0 was selected
        self.power_cycle()

    # ------------------------------------------------------------------ life cycle
    def clone(self):
        m = T2TModel(self.mem, self.kind, self.valid, self.enforce_locks, self.nak_idle, self.version,
                     self.sens_res, self.sel_res, 1, self.otp_or, self.signature, self.uid_len)
        return m

    def clear_logs(self):
        self.reads, self.writes, self.write_cmds = [], [], []

    def power_cycle(self):
        self.power_cycles += 1
        if getattr(self, "sector", 0) != 0:
            self.sector_resets += 1
        self.idle = False
        self.sector = 0
        self.sector_pending = False
        self.authenticated = False
        self.auth_rndb = None
        self.auth_iv = None
        # configuration loaded at power-on
        self.auth0 = None
        self.prot_read = False
        if self.kind == "ulc":
            self.auth0 = self.mem[42 * 4]
            self.prot_read = (self.mem[43 * 4] & 1) == 0
            km = bytes(self.mem[44 * 4:48 * 4])
            self.key = km[7::-1] + km[15:7:-1]
        elif self.kind in NTAG21X:
            c = self.prod["cfg"] * 4
            self.auth0 = self.mem[c + 3]
            self.prot_read = bool(self.mem[c + 4] & 0x80)
            self.cfglck = bool(self.mem[c + 4] & 0x40)
            self.pwd = bytes(self.mem[c + 8:c + 12])
            self.pack = bytes(self.mem[c + 12:c + 14])

    # ------------------------------------------------------------------ discovery
    @property
    def uid(self):
        if self.uid_len == 4:
            return bytes(self.mem[0:4])
        if self.uid_len == 10:
            return bytes(self.mem[0:3] + self.mem[4:8]) + bytes([self.mem[0] ^ 0x5A, self.mem[1] ^ 0xA5, self.mem[2] ^ 0x33])
        return bytes(self.mem[0:3] + self.mem[4:8])

    def target(self):
        return nfc.clf.RemoteTarget("106A", sens_res=bytearray(self.sens_res), sel_res=bytearray(self.sel_res),
                                    sdd_res=bytearray(self.uid))

    def sense(self, target):
        if target.sel_req and bytes(target.sel_req) != self.uid:
            return None
        return self.target()

    # ------------------------------------------------------------------ helpers
    def _nak(self, code=NAK_ARG):
        self.naks += 1
        if self.nak_idle:
            self.idle = True
        return bytes(code)

    def _page_exists(self, lp):
        """lp: linear page number (sector * 256 + page)"""
        if lp < 0 or lp >= self.npages:
            return False
        if self.valid is not None and not self.valid[lp]:
            return False
        return True

    def _readable(self, lp):
        if not self._page_exists(lp):
            return False
        if self.kind == "ulc" and lp >= 44:
            return False
        if self.auth0 is not None and self.prot_read and not self.authenticated and lp >= self.auth0:
            return False
        return True

    def _locked(self, lp):
        """True when a static or (product specific) dynamic lock bit makes the page read-only"""
        m = self.mem
        if 3 <= lp <= 15:
            bits = m[10] | m[11] << 8
            return bool(bits >> lp & 1)
        p = self.prod
        if not p or p["dynlock"] is None or lp < 16:
            return False
        d = p["dynlock"] * 4
        bits = m[d] | m[d + 1] << 8 | m[d + 2] << 16
        k = self.kind
        if k == "ulc" or k == "ntag203":
            # byte 0: bit1..3 -> pages 16-19, 20-23, 24-27, bit5..7 -> 28-31, 32-35, 36-39; byte 1: bit4..7 -> 41..43
            if 16 <= lp <= 39:
                grp = (lp - 16) // 4
                bit = (1, 2, 3, 5, 6, 7)[grp]
                return bool(m[d] >> bit & 1)
            if k == "ulc" and 41 <= lp <= 43:
                return bool(m[d + 1] >> (4 + lp - 41) & 1)
            if k == "ulc" and 44 <= lp <= 47:
                return bool(m[d + 1] >> 7 & 1)
            if k == "ntag203" and lp == 41:
                return bool(m[d + 1] >> 4 & 1)
            return False
        if k in ("ntag212", "ntag213", "ul21"):
            if 16 <= lp < p["dynlock"]:
                return bool(bits >> ((lp - 16) // 2) & 1)
            return False
        if k in ("ntag215", "ntag216", "i2c1k"):
            if 16 <= lp < p["dynlock"]:
                return bool(bits >> ((lp - 16) // 16) & 1)
            return False
        return False

    def _read4(self, lp):
        out = bytearray(self.mem[lp * 4:lp * 4 + 4])
        if self.kind in NTAG21X:
            c = self.prod["cfg"]
            if lp == c + 2:
                out = bytearray(4)                    # PWD reads as zero
            elif lp == c + 3:
                out[0:2] = b"\0\0"                    # PACK reads as zero
        return out

    # ------------------------------------------------------------------ command interpreter
    def frame_error(self):
        """the tag received a frame it cannot decode (the command was damaged on the air).  While it waits for
        SECTOR SELECT packet 2 anything but a valid packet 2 ends the wait: the NAK is not heard by the reader and
        the tag *stays in the sector it was in*.  In every other state the (lenient) tag ignores the frame.
        Not called by SimTagDevice; fault scripts that model "command damaged" (as opposed to "command never
        reached the tag") call it when they drop a command."""
        if self.sector_pending:
            self.sector_pending = False
            self.naks += 1
            self.pending_aborts = getattr(self, "pending_aborts", 0) + 1

    def command(self, data):
        if data is None:
            return None
        data = bytes(data)
        if self.idle or not data:
            return None
        if self.sector_pending:
            self.sector_pending = False
            if data == b"\xC2\xFF":                    # reader repeated packet 1 (lenient: start over)
                self.sector_pending = True
                return ACK
            if len(data) == 4:
                if self._sector_exists(data[0]):
                    self.sector = data[0]
                    return None                        # passive acknowledge
                return self._nak()
            return self._nak()
        c = data[0]
        if self.auth_rndb is not None and c != 0xAF:
            self.auth_rndb = None
        if c == 0x30 and len(data) == 2:
            return self._cmd_read(data[1])
        if c == 0xA2 and len(data) == 6:
            sector = self.sector
            rsp = self._cmd_write(data[1], data[2:6])
            self.write_cmds.append((sector, data[1], rsp == ACK))
            return rsp
        if c == 0xC2 and data == b"\xC2\xFF" and self.nsectors > 1:
            self.sector_pending = True
            return ACK
        if c == 0x50 and len(data) == 2:
            self.idle = True
            return None
        if self.kind == "ulc":
            if c == 0x1A and len(data) == 2:
                return self._ulc_auth1()
            if c == 0xAF and len(data) == 17:
                return self._ulc_auth2(data[1:])
        if self.version is not None and c == 0x60 and len(data) == 1:
            return bytes(self.version)
        if self.kind in NTAG21X:
            if c == 0x1B and len(data) == 5:
                if data[1:5] == self.pwd:
                    self.authenticated = True
                    return self.pack
                self.authenticated = False
                return self._nak(NAK_AUTH)
            if c == 0x3C and data == b"\x3C\x00":
                return self.signature
            if c == 0x39 and data == b"\x39\x02" and self.kind in ("ntag213", "ntag215", "ntag216"):
                return b"\0\0\0"
        if (self.kind in NTAG21X or self.kind in NTAGI2C) and c == 0x3A and len(data) == 3:
            return self._cmd_fast_read(data[1], data[2])
        # unknown command: back to IDLE
        self.unknown += 1
        self.idle = True
        if self.kind == "ntag203":
            self.naks += 1
            return NAK_ARG
        return None

    def _sector_exists(self, s):
        if self.kind == "i2c1k":
            return s in (0, 3)
        if self.kind == "i2c2k":
            return s in (0, 1, 3)
        return s < self.nsectors

    def _cmd_read(self, page):
        base = self.sector * 256
        lp = base + page
        if not self._readable(lp):
            return self._nak()
        out = bytearray()
        p = page
        for _ in range(4):
            if p > 255 or not self._readable(base + p):
                p = 0                                   # roll-over to the first page (of the sector)
            out += self._read4(base + p)
            p += 1
        self.reads.append((self.sector, page))
        return bytes(out)

    def _cmd_fast_read(self, start, end):
        base = self.sector * 256
        if end < start or any(not self._readable(base + p) for p in range(start, end + 1)):
            return self._nak()
        out = bytearray()
        for p in range(start, end + 1):
            out += self._read4(base + p)
        return bytes(out)

    def _cmd_write(self, page, d):
        lp = self.sector * 256 + page
        m = self.mem
        if not self._page_exists(lp) or lp < 2:
            return self._nak()
        if self.auth0 is not None and not self.authenticated and lp >= self.auth0:
            return self._nak(NAK_AUTH if self.kind in NTAG21X else NAK_ARG)
        a = lp * 4
        d = bytearray(d)
        if lp == 2:
            m[10] |= d[2]
            m[11] |= d[3]
        elif lp == 3:
            if self.enforce_locks and self._locked(3):
                return self._nak()
            if self.otp_or:
                for i in range(4):
                    m[a + i] |= d[i]
            else:
                m[a:a + 4] = d
        else:
            if self.enforce_locks and self._locked(lp):
                return self._nak()
            p = self.prod
            if p and p["dynlock"] == lp:
                n = 2 if self.kind in ("ulc", "ntag203") else 3
                for i in range(n):
                    m[a + i] |= d[i]
            elif self.kind in ("ulc", "ntag203") and lp == 41:
                old = m[a] | m[a + 1] << 8
                new = d[0] | d[1] << 8
                if new < old:
                    return self._nak()
                m[a:a + 2] = d[0:2]
            elif self.kind in NTAG21X and lp in (p["cfg"], p["cfg"] + 1) and self.cfglck:
                return self._nak()
            elif self.kind in NTAGI2C and self.valid is not None and not self.valid[lp]:
                return self._nak()
            else:
                m[a:a + 4] = d
        self.writes.append((self.sector, page, bytes(d)))
        self.on_state_change()
        return ACK

    # ------------------------------------------------------------------ Ultralight C authentication
    def _ulc_auth1(self):
        triple_des, CBC = _des3()
        self.authenticated = False
        self.auth_rndb = bytes(self.rng.randrange(256) for _ in range(8))
        ek = triple_des(self.key, CBC, b"\0" * 8).encrypt(self.auth_rndb)
        self.auth_iv = ek
        return b"\xAF" + ek

    def _ulc_auth2(self, ct):
        triple_des, CBC = _des3()
        if self.auth_rndb is None:
            self.unknown += 1
            return self._nak()
        rndb, self.auth_rndb = self.auth_rndb, None
        pt = triple_des(self.key, CBC, self.auth_iv).decrypt(ct)
        rnda, rndb2 = pt[0:8], pt[8:16]
        if rndb2 != rndb[1:] + rndb[:1]:
            return self._nak()
        self.authenticated = True
        return b"\x00" + triple_des(self.key, CBC, ct[8:16]).encrypt(rnda[1:] + rnda[:1])


# ---------------------------------------------------------------------------------------------------------------
def product_image(kind, rng=None, uid=None, ndef=True):
    """factory-like memory image of an NXP product (CC written, empty NDEF TLV) -> (bytearray mem, valid list|None)"""
    p = PRODUCTS[kind]
    npages = p["pages"]
    mem = bytearray(npages * 4)
    uid = bytes(uid) if uid else bytes([0x04] + [(rng.randrange(256) if rng else 0x11 * i) & 0xFF for i in range(1, 7)])
    mem[0:3] = uid[0:3]
    mem[3] = 0x88 ^ uid[0] ^ uid[1] ^ uid[2]
    mem[4:8] = uid[3:7]
    mem[8] = uid[3] ^ uid[4] ^ uid[5] ^ uid[6]
    mem[9] = 0x48
    valid = None
    if ndef:
        mem[12:16] = bytes([0xE1, 0x10, p["cc2"], 0x00])
        mem[16:19] = b"\x03\x00\xFE"
    if kind == "ulc":
        mem[42 * 4] = 0x30
        mem[43 * 4] = 0x00
        mem[44 * 4:48 * 4] = DEFAULT_ULC_KEYMEM
    if kind in NTAG21X:
        c = p["cfg"] * 4
        mem[c:c + 16] = bytes([0x04, 0x00, 0x00, 0xFF, 0x00, 0x05, 0x00, 0x00,
                               0xFF, 0xFF, 0xFF, 0xFF, 0x00, 0x00, 0x00, 0x00])
    if kind in NTAGI2C:
        valid = [False] * npages
        if kind == "i2c1k":
            for lp in list(range(0, 227)) + [232, 233] + [768 + 248, 768 + 249]:
                valid[lp] = True
        else:
            for lp in list(range(0, 256)) + list(range(256, 256 + 225)) + [256 + 232, 256 + 233] + \
                    [768 + 248, 768 + 249]:
                valid[lp] = True
    return mem, valid


def product_model(kind, rng=None, uid=None, ndef=True, **kw):
    mem, valid = product_image(kind, rng, uid, ndef)
    return T2TModel(mem, kind, valid=valid, **kw)
