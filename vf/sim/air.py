"""Lock-step air: a deterministic half-duplex RF medium between an NFC initiator and an NFC target.

Two clf-like endpoints are joined by a rendezvous with *strict hand-off*: the initiator-side code and the
target-side code run in two threads, but exactly one of them runs at any time (binary-semaphore baton), so a run is
a deterministic function of (workload, fault script).  Time is the virtual clock (`vf.core.vclock.VClock`); nobody
sleeps: when both sides wait, the clock jumps to the earliest deadline and that side gets its TimeoutError
(a tiny discrete-event simulator).

    air = Air(mode="active", script={3: "l", 7: "c"})
    air.run(target_main, initiator_main)        # two callables; target is started first and parked in listen()
    air.initiator   clf-like: sense(*targets, **opts), exchange(data, timeout), max_send/recv_data_size
    air.target      clf-like: listen(target, timeout), exchange(data, timeout)
    air.initiator_device() / air.target_device()   the same as nfc.clf.device.Device objects that can be put
                                                   under a real ContactlessFrontend (frontend(dev))
    air.log         every frame put on the air: Frame(n, dir 'I>T'|'T>I', data, brty, t, fault, rx, heard, p)

What the endpoints do is what a contactless *driver* does (the part of the stack below nfc.dep): `listen()`
answers ATR_REQ with the ATR_RES it was given, answers PSL_REQ/DSL_REQ/RLS_REQ and returns a LocalTarget with the
first DEP_REQ (compare nfc/clf/udp.py:listen_dep); `sense()` sends the ATR_REQ of an active-mode target or reports
the passive-mode target that is listening.  NFC-DEP above it (LR, DID, NAD, PNI, chaining, ATN/NAK recovery, RWT,
bit-rate change) is always the real nfc.dep code.

Fault script: {frame index relative to air.script_base: fault} or callable(rel_index, Frame) -> fault
    "d" deliver | "l" lose | "c" corrupt (receiver gets nfc.clf.TransmissionError)
    ("t", n) truncate to n bytes, delivered as a good frame | ("r", bytes|callable(air, frame)) replace
    "s" stale: replaced by the most recent different frame sent in the same direction (a replayed frame)
`air.arm()` sets script_base to the current frame count (e.g. after activation).

Optional timing model (off by default, nothing changes for callers that do not ask for it):
    Air(honour_deadline=True)  a frame whose transmission *starts* after the receiver's deadline is not heard
                               (Frame.late), the receiver gets its TimeoutError first, as with a real receiver
    Air(rx_latency=s | {"I": s, "T": s})  host latency: the receiving side's clock reads s seconds more when the
                               received frame is handed to the caller (driver / USB latency after the end of the frame)
    air.think(air.T, seconds)  the side spends time outside exchange(): it yields like a waiting side, is woken at
                               the end of the time and does not hear frames meanwhile (the peer's time-outs fire at
                               their own virtual time, as in a discrete-event simulation)
`party.last` (air.I.last / air.T.last) names the last thing the endpoint's exchange did: "frame", "send-only",
or the name of the exception it raised.

Verdict helpers never use wall-clock time: `AirOverrun` (frame bound exceeded) is logical non-progress;
`AirStall` (a real-time wait on the baton expired) means the machinery is stuck -> inconclusive.
Both derive from BaseException so that no `except Exception` in the code under observation can swallow them.
"""
import threading

import nfc
import nfc.clf
import nfc.clf.device

from vf.core.vclock import VClock

LR_TABLE = (64, 128, 192, 254)
BITRATE = {"106A": 106e3, "212F": 212e3, "424F": 424e3}
INF = float("inf")


class AirAbort(BaseException):
    pass


class AirOverrun(AirAbort):
    """more frames than air.max_frames: the conversation makes no logical progress"""


class AirStall(AirAbort):
    """real-time watchdog on the baton: machinery problem, inconclusive"""


# ------------------------------------------------------------------------------------------------
# wire format (written from ISO/IEC 18092 / NFC Digital Protocol frame formats, not from nfc.dep)
# ------------------------------------------------------------------------------------------------
def frame_body(body, brty):
    f = bytearray([len(body) + 1]) + bytearray(body)
    if brty == "106A":
        f.insert(0, 0xF0)
    return f


def unframe(frame, brty):
    """-> transport data bytes (CMD0 CMD1 ...) or None when SB/LEN do not fit the bit rate"""
    f = bytes(frame)
    if brty == "106A":
        if len(f) < 1 or f[0] != 0xF0:
            return None
        f = f[1:]
    if len(f) < 1 or f[0] != len(f):
        return None
    return f[1:]


_CMD = {(0xD4, 0): "ATR_REQ", (0xD5, 1): "ATR_RES", (0xD4, 4): "PSL_REQ", (0xD5, 5): "PSL_RES",
        (0xD4, 6): "DEP_REQ", (0xD5, 7): "DEP_RES", (0xD4, 8): "DSL_REQ", (0xD5, 9): "DSL_RES",
        (0xD4, 10): "RLS_REQ", (0xD5, 11): "RLS_RES"}


class Parsed(object):
    """independent reading of one frame at a given bit rate"""
    __slots__ = ("ok", "kind", "sub", "mi", "pni", "did", "nad", "data", "tdlen", "framing", "pp", "brs", "fsl")

    def __init__(self, frame, brty):
        self.ok = False
        self.kind = "?"
        self.sub = self.pni = self.did = self.nad = self.pp = self.brs = self.fsl = None
        self.mi = False
        self.data = b""
        f = bytes(frame)
        # framing: "sb" = F0 LEN .., "len" = LEN .., "bad"
        if len(f) >= 2 and f[0] == 0xF0 and f[1] == len(f) - 1:
            self.framing = "sb"
        elif len(f) >= 1 and f[0] == len(f):
            self.framing = "len"
        else:
            self.framing = "bad"
        body = unframe(f, brty)
        self.tdlen = None if body is None else len(body)       # == LEN - 1
        if body is None or len(body) < 2:
            return
        self.kind = _CMD.get((body[0], body[1]), "?")
        k = self.kind
        if k in ("ATR_REQ", "ATR_RES"):
            i = 15 if k == "ATR_REQ" else 16
            if len(body) > i:
                self.did = body[12]
                self.pp = body[i]
                self.data = body[i + 1:]
                self.ok = True
        elif k == "PSL_REQ":
            if len(body) == 5:
                self.did, self.brs, self.fsl = body[2], body[3], body[4]
                self.ok = True
        elif k in ("PSL_RES", "DSL_REQ", "DSL_RES", "RLS_REQ", "RLS_RES"):
            self.did = body[2] if len(body) > 2 else None
            self.ok = len(body) <= 3
        elif k in ("DEP_REQ", "DEP_RES"):
            if len(body) < 3:
                return
            pfb = body[2]
            i = 3
            t = pfb >> 5
            if t == 0:
                self.sub, self.mi = "INF", bool(pfb & 0x10)
            elif t == 2:
                self.sub = "NAK" if pfb & 0x10 else "ACK"
            elif t == 4:
                self.sub = "RTOX" if pfb & 0x10 else "ATN"
            else:
                self.sub = "?"
            self.pni = pfb & 3
            if pfb & 0x04:
                if len(body) <= i:
                    return
                self.did = body[i]
                i += 1
            if pfb & 0x08:
                if len(body) <= i:
                    return
                self.nad = body[i]
                i += 1
            self.data = body[i:]
            self.ok = self.sub != "?"

    @property
    def lr(self):
        return None if self.pp is None else LR_TABLE[(self.pp >> 4) & 3]

    @property
    def label(self):
        if self.kind in ("DEP_REQ", "DEP_RES"):
            return "%s-%s" % ("req" if self.kind == "DEP_REQ" else "res",
                              "I++" if (self.sub == "INF" and self.mi) else self.sub)
        return self.kind


class Frame(object):
    __slots__ = ("n", "dir", "data", "brty", "t", "fault", "rx", "heard", "p", "late")

    def __init__(self, n, dir, data, brty, t):
        self.n, self.dir, self.data, self.brty, self.t = n, dir, bytes(data), brty, t
        self.fault = "d"
        self.rx = None          # bytes the receiver got (None: nothing / TransmissionError)
        self.heard = False      # a receiver was waiting when the frame was on the air
        self.late = False       # honour_deadline: the frame started after the receiver's deadline (not heard)
        self.p = Parsed(self.data, brty)

    def __repr__(self):
        return "<%d %s %s %s %s%s>" % (self.n, self.dir, self.brty, self.p.label, self.data[:12].hex(),
                                       "" if self.fault == "d" else " !" + str(self.fault))


# ------------------------------------------------------------------------------------------------
class _Party(object):
    def __init__(self, name):
        self.name = name
        self.state = "idle"           # idle | run | wait | done
        self.sem = threading.Semaphore(0)
        self.deadline = None
        self.result = None            # ("frame", bytes) | ("exc", exception)
        self.error = None             # exception that ended the thread's main function
        self.thread = None
        self.last = None              # "frame" | "send-only" | exception class name (last exchange of this end)
        self.thinking = False         # parked by Air.think(): not listening, woken (not timed out) at its deadline


class Air(object):
    def __init__(self, mode="active", script=None, clock=None, max_frames=2000, stall_s=30.0, airtime=True,
                 brty="106A", honour_deadline=False, rx_latency=None):
        """mode: 'active' (sense answers an atr_req target), 'passive-A', 'passive-F' (sense reports the listening
        target at 106A / 212F+424F), brty: bit rate the air starts with (set by sense / by the harness)"""
        assert mode in ("active", "passive-A", "passive-F")
        self.mode = mode
        self.clock = clock or VClock()
        self.script = script
        self.script_base = 0
        self.max_frames = max_frames
        self.stall_s = stall_s
        self.airtime = airtime
        self.brty = brty
        self.log = []
        self.aborted = None
        self.I = _Party("I")
        self.T = _Party("T")
        self._main = threading.Semaphore(0)
        self.initiator = InitiatorEnd(self)
        self.target = TargetEnd(self)
        self.observers = []           # callable(Frame) after the fault was decided
        self._pending_brty = None
        self.rf_off_when_initiator_done = False
        self.unheard = 0
        self.honour_deadline = honour_deadline
        self.rx_latency = rx_latency
        self.late = 0
        self._ticks = 0
        self._seen_ticks = -1

    # -- public helpers ------------------------------------------------------------------------
    def arm(self, script=None):
        """fault script positions count from the next frame"""
        if script is not None:
            self.script = script
        self.script_base = len(self.log)

    def initiator_device(self):
        return AirDevice(self, "I")

    def target_device(self):
        return AirDevice(self, "T")

    def run(self, target_main, initiator_main):
        """run both sides to completion in lock-step; returns (initiator_error, target_error): exceptions that
        escaped the two main functions (None when they returned).  Raises AirStall when the baton got stuck."""
        self._start(self.T, target_main)          # target first: runs until it is parked in listen()/exchange()
        self._wait_main()
        self._start(self.I, initiator_main)
        self._wait_main()
        for p in (self.I, self.T):
            if isinstance(p.error, AirStall):
                raise p.error
        if self.aborted == "stall":
            raise AirStall("baton stuck")
        return self.I.error, self.T.error

    # -- threads -------------------------------------------------------------------------------
    def _start(self, party, fn):
        party.state = "run"

        def main():
            try:
                fn()
            except BaseException as e:       # noqa  (recorded, the harness judges it)
                party.error = e
            finally:
                party.state = "done"
                try:
                    self._dispatch(party)
                except AirAbort:
                    pass
        party.thread = threading.Thread(target=main, name="air-" + party.name, daemon=True)
        party.thread.start()

    def _wait_main(self):
        while not self._main.acquire(timeout=self.stall_s):
            ticks = self._ticks
            if ticks != self._seen_ticks:       # the two sides are still handing the baton to each other
                self._seen_ticks = ticks
                continue
            self.aborted = "stall"
            for p in (self.I, self.T):      # let parked threads die
                p.result = ("exc", AirStall("baton stuck (main)"))
                p.sem.release()
            raise AirStall("baton stuck: a side neither finished nor reached the air within %.0f s real time"
                           % self.stall_s)

    def _dispatch(self, me):
        """called by the running thread after it changed its own state to wait/done: choose who runs next"""
        nxt = None
        parked = me.state == "wait"     # decided before the baton is passed: the peer may run (and change
        self._ticks += 1                # me.state back to "run") before this thread executes its next statement
        waiting = [p for p in (self.I, self.T) if p.state == "wait"]
        if self.aborted:
            for p in waiting:
                if p.result is None or p.result[0] != "exc" or not isinstance(p.result[1], AirAbort):
                    p.result = ("exc", AirOverrun(self.aborted) if self.aborted != "stall" else AirStall("stall"))
        ready = [p for p in waiting if p.result is not None]
        if ready:
            nxt = ready[0]
        elif waiting and self.I.state == "idle":
            nxt = None                      # target parked, initiator not started yet -> main
        elif waiting:
            nxt = min(waiting, key=lambda p: (INF if p.deadline is None else p.deadline, p.name))
            if nxt.deadline is None:
                # nobody will ever send again
                if nxt is self.T:
                    nxt.result = ("exc", nfc.clf.BrokenLinkError("air: initiator gone"))
                else:
                    nxt.result = ("exc", nfc.clf.TimeoutError("air: no response"))
            else:
                if nxt.deadline > self.clock.now:
                    self.clock.now = nxt.deadline
                if nxt.thinking:
                    nxt.result = ("wake", None)
                elif nxt is self.T and self.rf_off_when_initiator_done and self.I.state == "done":
                    nxt.result = ("exc", nfc.clf.BrokenLinkError("air: rf off"))
                else:
                    nxt.result = ("exc", nfc.clf.TimeoutError("air: timeout"))
        if nxt is None:
            self._main.release()
        elif nxt is not me:
            nxt.state = "run"
            nxt.sem.release()
        if parked:
            if nxt is not me:
                if not me.sem.acquire(timeout=self.stall_s):
                    self.aborted = "stall"
                    raise AirStall("baton stuck: peer thread neither finished nor reached the air within %.0f s"
                                   % self.stall_s)
            me.state = "run"
            kind, val = me.result
            me.result = None
            me.deadline = None
            if kind == "exc":
                raise val
            if kind == "wake":
                return None
            return bytearray(val)

    # -- the medium ----------------------------------------------------------------------------
    def _transmit(self, sender, data):
        """put one frame on the air; the fault script decides what the peer's receiver gets"""
        if self.aborted:
            raise AirOverrun(self.aborted)
        if len(self.log) >= self.max_frames:
            self.aborted = "frame bound %d exceeded" % self.max_frames
            raise AirOverrun(self.aborted)
        rcv = self.T if sender is self.I else self.I
        fr = Frame(len(self.log), "I>T" if sender is self.I else "T>I", data, self.brty, self.clock.now)
        self.log.append(fr)
        if self.airtime:
            self.clock.now += (len(fr.data) + 2) * 8 / BITRATE.get(self.brty, 106e3)
        rel = fr.n - self.script_base
        fault = "d"
        if self.script is not None and rel >= 0:
            if callable(self.script):
                fault = self.script(rel, fr) or "d"
            else:
                fault = self.script.get(rel, "d")
        if isinstance(fault, list):
            fault = tuple(fault)
        fr.fault = fault
        fr.heard = rcv.state == "wait" and rcv.result is None and not rcv.thinking
        if fr.heard and self.honour_deadline and rcv.deadline is not None and fr.t > rcv.deadline:
            fr.heard = False                # the receiver's time-out comes first (dispatcher delivers it)
            fr.late = True
            self.late += 1
        if not fr.heard:
            self.unheard += 1
        if fr.heard and fault != "l":
            if fault == "d":
                rx = fr.data
            elif fault == "c":
                rx = None
            elif fault == "s":
                rx = fr.data
                for old in reversed(self.log[self.script_base:-1]):
                    if old.dir == fr.dir and old.data != fr.data and old.brty == fr.brty:
                        rx = old.data
                        break
            elif fault[0] == "t":
                rx = fr.data[:fault[1]]
            elif fault[0] == "r":
                rx = fault[1](self, fr) if callable(fault[1]) else bytes(fault[1])
            else:
                raise ValueError("unknown fault %r" % (fault,))
            fr.rx = rx
            if rx is None:
                rcv.result = ("exc", nfc.clf.TransmissionError("air: corrupted frame"))
            else:
                rcv.result = ("frame", rx)
        # bit rate change: takes effect after the PSL_RES that answers a PSL_REQ
        p = fr.p
        if p.kind == "PSL_REQ" and p.ok:
            self._pending_brty = ("106A", "212F", "424F")[min(2, (p.brs >> 3) & 7)]
        elif p.kind == "PSL_RES" and self._pending_brty:
            self.brty, self._pending_brty = self._pending_brty, None
        elif p.kind != "PSL_RES":
            self._pending_brty = None
        for ob in self.observers:
            ob(fr)
        return fr

    def think(self, me, seconds):
        """the side `me` (air.I / air.T, called from its own thread) spends `seconds` outside exchange()"""
        if me.state != "run":
            raise RuntimeError("air: %s thinks in a thread that does not hold the baton" % me.name)
        if self.aborted:
            raise AirOverrun(self.aborted)
        if seconds <= 0:
            return
        me.deadline = self.clock.now + seconds
        me.result = None
        me.thinking = True
        me.state = "wait"
        try:
            self._dispatch(me)
        finally:
            me.thinking = False

    def _exchange(self, me, data, timeout, wait=True):
        if me.state != "run":
            raise RuntimeError("air: %s endpoint used by a thread that does not hold the baton" % me.name)
        if data is not None:
            self._transmit(me, data)
        elif self.aborted:
            raise AirOverrun(self.aborted)
        if not wait:
            me.last = "send-only"
            return None
        me.deadline = None if timeout is None else self.clock.now + max(0.0, timeout)
        me.result = None
        me.state = "wait"
        try:
            rx = self._dispatch(me)
        except BaseException as e:
            me.last = type(e).__name__
            raise
        me.last = "frame"
        lat = self.rx_latency
        if lat:
            lat = lat.get(me.name, 0) if isinstance(lat, dict) else lat
            if lat > 0:
                self.clock.now += lat
        return rx


# ------------------------------------------------------------------------------------------------
class InitiatorEnd(object):
    """what nfc.dep.Initiator needs from a ContactlessFrontend"""
    max_send_data_size = 290
    max_recv_data_size = 290

    def __init__(self, air):
        self.air = air
        self.sense_calls = 0

    def exchange(self, data, timeout):
        if timeout is not None and timeout <= 0:
            # a driver sends and does not wait (nfc/clf/udp.py: send_cmd_recv_rsp)
            return self.air._exchange(self.air.I, data, timeout, wait=False)
        return self.air._exchange(self.air.I, data, timeout)

    def sense(self, *targets, **options):
        self.sense_calls += 1
        for _ in range(max(1, options.get("iterations", 1))):
            for t in targets:
                found = self._sense_one(t, len(targets) == 1)
                if found is not None:
                    return found
        return None

    def _sense_one(self, t, single):
        air = self.air
        lt = air.target.listening            # LocalTarget the other side listens with, or None
        if t.atr_req is not None:
            if air.mode != "active":
                if single:
                    raise nfc.clf.UnsupportedTargetError("air: no active communication mode")
                return None
            air.brty = t.brty
            try:
                rsp = self.exchange(frame_body(t.atr_req, t.brty), 1.0)
            except nfc.clf.CommunicationError:
                return None
            body = unframe(rsp, t.brty)
            if body is None or body[0:2] != b"\xD5\x01" or len(body) < 17:
                return None
            return nfc.clf.RemoteTarget(t.brty, atr_req=bytearray(t.atr_req), atr_res=bytearray(body))
        if lt is None:
            return None
        if t.brty == "106A" and air.mode == "passive-A":
            air.brty = "106A"
            return nfc.clf.RemoteTarget("106A", sens_res=bytearray(lt.sens_res), sdd_res=bytearray(lt.sdd_res),
                                        sel_res=bytearray(lt.sel_res))
        if t.brty in ("212F", "424F") and air.mode == "passive-F":
            air.brty = t.brty
            return nfc.clf.RemoteTarget(t.brty, sensf_res=bytearray(lt.sensf_res))
        return None


class TargetEnd(object):
    """what nfc.dep.Target needs from a ContactlessFrontend"""
    max_send_data_size = 290
    max_recv_data_size = 290

    def __init__(self, air):
        self.air = air
        self.listening = None

    def exchange(self, data, timeout):
        if timeout is not None and timeout <= 0:
            # send only (nfc/clf/udp.py: send_rsp_recv_cmd returns None when the timeout is zero)
            return self.air._exchange(self.air.T, data, timeout, wait=False)
        return self.air._exchange(self.air.T, data, timeout)

    def listen(self, target, timeout):
        """NFC-DEP target activation as a driver performs it: ATR_REQ -> ATR_RES [PSL_REQ -> PSL_RES] DEP_REQ"""
        air = self.air
        assert target.atr_res is not None, "air: only NFC-DEP listen is simulated"
        atr_res = bytearray(target.atr_res)
        deadline = air.clock.now + timeout
        self.listening = target
        atr_req = psl_req = psl_res = None
        send = None
        try:
            while True:
                remaining = deadline - air.clock.now
                if remaining <= 0:
                    return None
                try:
                    frame = air._exchange(air.T, send, remaining)
                except nfc.clf.TransmissionError:
                    send = None
                    continue                     # the receiver drops frames with a bad CRC
                except nfc.clf.CommunicationError:
                    return None
                send = None
                body = unframe(frame, air.brty)
                if body is None or len(body) < 2:
                    continue
                code = bytes(body[0:2])
                if code == b"\xD4\x00":
                    if 16 <= len(body) <= 64:
                        atr_req = bytearray(body)
                        send = frame_body(atr_res, air.brty)
                    continue
                if atr_req is None:
                    continue
                if code == b"\xD4\x04" and len(body) == 5 and psl_req is None:
                    psl_req = bytearray(body)
                    psl_res = bytearray(b"\xD5\x05") + psl_req[2:3]
                    send = frame_body(psl_res, air.brty)
                    continue
                if code in (b"\xD4\x08", b"\xD4\x0A"):
                    res = bytearray([0xD5, body[1] + 1]) + bytearray(body[2:3])
                    air._exchange(air.T, frame_body(res, air.brty), 0, wait=False)
                    return None
                if code == b"\xD4\x06":
                    lt = nfc.clf.LocalTarget(air.brty, atr_req=atr_req, atr_res=atr_res, dep_req=bytearray(body))
                    if psl_req is not None:
                        lt.psl_req, lt.psl_res = psl_req, psl_res
                    if air.mode == "passive-A":
                        lt.sens_res, lt.sdd_res, lt.sel_res = target.sens_res, target.sdd_res, target.sel_res
                    elif air.mode == "passive-F":
                        lt.sensf_res = target.sensf_res
                    return lt
        finally:
            self.listening = None


# ------------------------------------------------------------------------------------------------
class AirDevice(nfc.clf.device.Device):
    """the same endpoints behind the nfc.clf.device.Device interface, to run under a real ContactlessFrontend
    (patch nfc.clf.time to the air's clock as well: sense()/exchange() read the time there)"""

    def __init__(self, air, side):
        self.air, self.side = air, side
        self.end = air.initiator if side == "I" else air.target
        self._path = "sim:air:" + side
        self._vendor_name = "vf"
        self._product_name = "Air"
        self._chipset_name = "sim"
        self.muted = 0

    def close(self):
        pass

    def mute(self):
        self.muted += 1

    def sense_tta(self, target):
        return self.end._sense_one(target, False)

    def sense_ttf(self, target):
        return self.end._sense_one(target, False)

    def sense_ttb(self, target):
        return None

    def sense_dep(self, target):
        return self.end._sense_one(target, True)

    def listen_dep(self, target, timeout):
        return self.end.listen(target, timeout)

    def listen_tta(self, target, timeout):
        raise nfc.clf.UnsupportedTargetError("air: NFC-DEP only")

    listen_ttb = listen_ttf = listen_tta

    def send_cmd_recv_rsp(self, target, data, timeout):
        return self.end.exchange(data, timeout)

    def send_rsp_recv_cmd(self, target, data, timeout):
        return self.end.exchange(data, timeout)

    def get_max_send_data_size(self, target):
        return 290

    def get_max_recv_data_size(self, target):
        return 290

    def turn_on_led_and_buzzer(self):
        pass

    def turn_off_led_and_buzzer(self):
        pass


def frontend(device):
    clf = nfc.clf.ContactlessFrontend()
    clf.device = device
    return clf
