"""NFC Forum Type 1 Tag memory model (Topaz static memory, Topaz-512 / generic dynamic memory).

Written from the Type 1 Tag Operation / Digital Protocol command descriptions, not from nfcpy:

  RID       78 00 00 00 00 00 00            -> HR0 HR1 UID0 UID1 UID2 UID3
  RALL      00 00 00 UID0-3                 -> HR0 HR1 + bytes 0..119 (blocks 0..Eh)
  READ      01 ADD 00 UID0-3                -> ADD DAT                       (ADD = block<<3 | byte, bit 7 = 0)
  WRITE-E   53 ADD DAT UID0-3               -> ADD DAT'   erase, then write
  WRITE-NE  1A ADD DAT UID0-3               -> ADD DAT'   no erase: DAT' = old | DAT
  RSEG      10 ADDS 00*8 UID0-3             -> ADDS + 128 bytes              (ADDS = segment<<4; dynamic memory only)
  READ8     02 ADD8 00*8 UID0-3             -> ADD8 + 8 bytes                (dynamic memory only)
  WRITE-E8  54 ADD8 D0..D7 UID0-3           -> ADD8 + 8 bytes as stored
  WRITE-NE8 1B ADD8 D0..D7 UID0-3           -> ADD8 + 8 bytes as stored

Frames carry no CRC at this level.  Every command except RID carries UID0-3 and is ignored (no response) when
it does not match; a frame of the wrong length, an unknown opcode or an address outside the physical memory is
ignored as well (`beyond="silent"`; `beyond="mirror"` answers addresses beyond the physical memory with the
contents at address modulo memory size, which is what some silicon is reported to do - only used for the
robustness workload).

Write rules:
  * block 0 (UID) and block Dh (reserved for internal use) never change; the tag answers with the stored value
  * bytes in `oneway` (static lock bytes and OTP bytes 112..119, plus lock bytes a layout declares in dynamic
    memory) only ever gain bits: stored = stored | data for WRITE-E and WRITE-NE alike
  * LOCK0 (byte 112) bit n locks block n, LOCK1 (byte 113) bit n locks block 8+n (n = 0..6): writes to a locked
    block are not executed, the tag answers with the stored value
  * dynamic lock bits are stored but their locking effect is not modelled (documented simplification)

The model calls self.on_state_change() after every write command that the tag executed (the cut hook of
SimTagDevice) and records every write in `write_log`.
"""
import nfc.clf

OPNAMES = {0x78: "RID", 0x00: "RALL", 0x01: "READ", 0x53: "WRITE-E", 0x1A: "WRITE-NE",
           0x10: "RSEG", 0x02: "READ8", 0x54: "WRITE-E8", 0x1B: "WRITE-NE8"}


def opname(cmd):
    if not cmd:
        return "EMPTY"
    return OPNAMES.get(cmd[0], "OP%02X" % cmd[0])


class T1TModel:
    brty = "106A"

    def __init__(self, mem, hr0=0x11, hr1=0x48, oneway=None, dynamic=None, beyond="silent",
                 readonly_blocks=(0, 13), sens_res=b"\x00\x0c", rid_len=None):
        self.mem = bytearray(mem)
        assert len(self.mem) >= 120 and len(self.mem) % 8 == 0 and len(self.mem) <= 2048
        self.hr0, self.hr1 = hr0, hr1
        # a tag whose HR0 low nibble is 1 has the static memory map and only the byte level command set
        self.dynamic = (hr0 & 0x0F) != 1 if dynamic is None else bool(dynamic)
        self.oneway = set(range(112, 120)) if oneway is None else set(oneway)
        self.readonly_blocks = set(readonly_blocks)
        self.beyond = beyond
        self.sens_res = bytes(sens_res)
        self.rid_len = rid_len     # None: the regular 6 byte RID answer; n: cut to n bytes / padded with 00h to n bytes
        self.on_state_change = lambda: None
        self.write_log = []       # (opcode name, first byte address, unit length, executed, bytes before, bytes after)
        self.read_log = []        # (opcode name, first byte address, length)
        self.n_commands = 0
        self.power_cycles = 0

    # -- discovery ---------------------------------------------------------------------------------
    @property
    def uid(self):
        return bytes(self.mem[0:4])

    def rid_res(self):
        r = bytes([self.hr0, self.hr1]) + self.uid
        if self.rid_len is not None:       # (robustness workload only: RID answers of other lengths, well framed)
            r = (r + bytes(16))[:self.rid_len]
        return r

    def target(self):
        return nfc.clf.RemoteTarget("106A", sens_res=bytearray(self.sens_res), rid_res=bytearray(self.rid_res()))

    def power_cycle(self):
        self.power_cycles += 1     # no volatile protocol state in a Type 1 Tag

    # -- helpers -----------------------------------------------------------------------------------
    def snapshot(self):
        return bytes(self.mem)

    def restore(self, image):
        assert len(image) == len(self.mem)
        self.mem[:] = image

    def _locked(self, block):
        if block in self.readonly_blocks:
            return True
        if block == 14:
            return False           # lock/OTP block: always accepts writes, its bytes are one-way
        if block <= 7:
            return bool(self.mem[112] >> block & 1)
        if block <= 13:
            return bool(self.mem[113] >> (block - 8) & 1)
        return False

    def _store(self, opname_, start, data, erase):
        """write len(data) bytes at start; returns bytes as stored afterwards"""
        n = len(data)
        before = bytes(self.mem[start:start + n])
        block = start >> 3
        executed = not self._locked(block)
        if executed:
            for i in range(n):
                a = start + i
                if a in self.oneway or not erase:
                    self.mem[a] = self.mem[a] | data[i]
                else:
                    self.mem[a] = data[i]
        after = bytes(self.mem[start:start + n])
        self.write_log.append((opname_, start, n, executed, before, after))
        if executed:
            self.on_state_change()
        return after

    def _phys(self, addr, n):
        """first physical address for a read/write unit of n bytes at addr, or None when it does not exist"""
        if addr + n <= len(self.mem):
            return addr
        if self.beyond == "mirror":
            return addr % len(self.mem)
        return None

    # -- command interpreter -----------------------------------------------------------------------
    def command(self, data):
        self.n_commands += 1
        if data is None:
            return None
        d = bytes(data)
        if len(d) not in (7, 14):
            return None
        op = d[0]
        if op == 0x78:
            if len(d) != 7:
                return None
            return self.rid_res()
        if d[-4:] != self.uid:
            return None
        if len(d) == 7:
            add, dat = d[1], d[2]
            if op == 0x00:
                self.read_log.append(("RALL", 0, 120))
                return bytes([self.hr0, self.hr1]) + bytes(self.mem[0:120])
            if op in (0x01, 0x53, 0x1A):
                limit = 128 if self.dynamic else 120
                if add & 0x80 or add >= limit or add >= len(self.mem):
                    return None
                if op == 0x01:
                    self.read_log.append(("READ", add, 1))
                    return bytes([add, self.mem[add]])
                stored = self._store(OPNAMES[op], add, bytes([dat]), erase=(op == 0x53))
                return bytes([add]) + stored
            return None
        # 14 byte frames: dynamic memory command set
        if not self.dynamic:
            return None
        add, dat = d[1], d[2:10]
        if op == 0x10:
            if add & 0x0F:
                return None
            start = self._phys((add >> 4) * 128, 128)
            if start is None:
                return None
            self.read_log.append(("RSEG", (add >> 4) * 128, 128))
            return bytes([add]) + bytes(self.mem[start:start + 128])
        if op in (0x02, 0x54, 0x1B):
            start = self._phys(add * 8, 8)
            if start is None:
                return None
            if op == 0x02:
                self.read_log.append(("READ8", add * 8, 8))
                return bytes([add]) + bytes(self.mem[start:start + 8])
            stored = self._store(OPNAMES[op], start, dat, erase=(op == 0x54))
            return bytes([add]) + stored
        return None
