"""Independent validators / builders for the host-link frames of the PN53x family and the ACR122 envelope.

Written from the NXP PN532 user manual UM0701-02 (6.2.1 "Frames structure"), the PN533 user manual
UM0801-03 (same frame structure), the PN531 application note (normal frames only) and the USB CCID
specification rev 1.1 (6.1.4 PC_to_RDR_XfrBlock, 6.2.1 RDR_to_PC_DataBlock) plus the ACR122U API
("Direct Transmit" pseudo APDU  FF 00 00 00 Lc <PN532 frame D4 ..>, response <D5 ..> 90 00) - not from nfcpy.

Normal information frame        00 | 00 FF | LEN | LCS | TFI PD0..PDn | DCS | 00
    LEN  = number of bytes of the data field TFI..PDn (1..255)       LCS: (LEN + LCS) & FFh == 0
    TFI  = D4h host -> chip, D5h chip -> host                            DCS: (TFI + PD0 + .. + PDn + DCS) & FFh == 0
Extended information frame      00 | 00 FF | FF FF | LENM LENL | LCS | TFI PD0..PDn | DCS | 00
    length = LENM*256 + LENL,  (LENM + LENL + LCS) & FFh == 0   (PN532/PN533/RC-S956; the chip understands
    extended frames of any length, the PN531 has normal frames only)
ACK frame                       00 00 FF 00 FF 00
NACK frame                      00 00 FF FF 00 00
Error (syntax error) frame      00 00 FF 01 FF 7F 81 00          (a normal frame whose only data byte is 7Fh)

A frame check returns normally or raises FrameError(clause); `clauses(frame, ..)` returns *all* failing clauses
of a would-be information frame, which lets a monitor name the mechanism of a wrongly accepted frame.
"""
import struct

ACK = bytes.fromhex("0000FF00FF00")
NACK = bytes.fromhex("0000FFFF0000")
ERROR_FRAME = bytes.fromhex("0000FF01FF7F8100")

TFI_HOST = 0xD4
TFI_CHIP = 0xD5


class FrameError(Exception):
    def __init__(self, clause, text=""):
        Exception.__init__(self, "%s %s" % (clause, text))
        self.clause = clause


# ------------------------------------------------------------------------------------------------
# builders (used by the chipset simulator for what the *chip* sends)
def build_frame(data, extended=None):
    """data = TFI + PD0..PDn.  extended=None: the chip's rule (normal up to 255 bytes, extended above)"""
    data = bytes(data)
    if not 1 <= len(data) <= 0xFFFF:
        raise ValueError("data field length %d" % len(data))
    if extended is None:
        extended = len(data) > 255
    if extended:
        lenm, lenl = len(data) >> 8, len(data) & 0xFF
        head = bytes([0x00, 0x00, 0xFF, 0xFF, 0xFF, lenm, lenl, (-(lenm + lenl)) & 0xFF])
    else:
        if len(data) > 255:
            raise ValueError("normal frame cannot carry %d bytes" % len(data))
        head = bytes([0x00, 0x00, 0xFF, len(data), (-len(data)) & 0xFF])
    dcs = (-sum(data)) & 0xFF
    return head + data + bytes([dcs, 0x00])


def build_response(cmd, payload, extended=None):
    return build_frame(bytes([TFI_CHIP, (cmd + 1) & 0xFF]) + bytes(payload), extended)


def build_command(cmd, payload, extended=None):
    return build_frame(bytes([TFI_HOST, cmd]) + bytes(payload), extended)


# ------------------------------------------------------------------------------------------------
def split(frame, max_preamble=1):
    """structure of a byte string that claims to be exactly one frame.
    returns dict(kind='ack'|'nack'|'info', extended, length, lcs_ok, data, dcs, postamble, preamble_len, clauses)
    `clauses` lists every rule the byte string breaks ([] = well formed).  max_preamble = how many 00 bytes may
    precede the start code 00 FF (1 = the canonical single PREAMBLE byte; serial links allow more)."""
    f = bytes(frame)
    bad = []
    out = {"kind": None, "extended": False, "length": None, "data": b"", "dcs": None, "postamble": None,
           "preamble_len": 0, "clauses": bad, "tfi": None}
    # preamble + start code
    i = 0
    while i < len(f) and f[i] == 0x00:
        i += 1
    zeros = i
    if i >= len(f) or f[i] != 0xFF or zeros < 1:
        bad.append("startcode")
        return out
    out["preamble_len"] = zeros - 1            # the last 00 belongs to the start code
    if zeros - 1 < 1 or zeros - 1 > max_preamble:
        bad.append("preamble")
    i += 1                                       # past FF
    rest = f[i:]
    if len(rest) < 2:
        bad.append("truncated-header")
        return out
    ln, lcs = rest[0], rest[1]
    if (ln, lcs) == (0x00, 0xFF):
        out["kind"] = "ack"
        if rest[2:] != b"\x00":
            bad.append("postamble")
        return out
    if (ln, lcs) == (0xFF, 0x00):
        out["kind"] = "nack"
        if rest[2:] != b"\x00":
            bad.append("postamble")
        return out
    out["kind"] = "info"
    if (ln, lcs) == (0xFF, 0xFF):
        out["extended"] = True
        if len(rest) < 5:
            bad.append("truncated-header")
            return out
        lenm, lenl, lcs = rest[2], rest[3], rest[4]
        if (lenm + lenl + lcs) & 0xFF:
            bad.append("lcs")
        length = lenm << 8 | lenl
        body = rest[5:]
    else:
        if (ln + lcs) & 0xFF:
            bad.append("lcs")
        length = ln
        body = rest[2:]
    out["length"] = length
    if length < 1:
        bad.append("len-zero")
    if len(body) != length + 2:
        bad.append("len-mismatch")
        # best effort split for diagnostics: trust the number of bytes present
        n = max(0, len(body) - 2)
    else:
        n = length
    data = body[:n]
    out["data"] = data
    if data:
        out["tfi"] = data[0]
    tail = body[n:]
    if len(tail) >= 1:
        out["dcs"] = tail[0]
        if (sum(data) + tail[0]) & 0xFF:
            bad.append("dcs")
    else:
        bad.append("dcs")
    if len(tail) >= 2:
        out["postamble"] = tail[1]
        if tail[1] != 0x00 or len(tail) > 2:
            bad.append("postamble")
    else:
        bad.append("postamble")
    return out


def parse_frame(frame, max_preamble=1, allow_extended=True):
    """-> ('ack'|'nack', None) or ('info', data field bytes TFI..PDn); raises FrameError(first broken clause)"""
    s = split(frame, max_preamble)
    if s["clauses"]:
        raise FrameError(s["clauses"][0], bytes(frame)[:24].hex())
    if s["kind"] == "info" and s["extended"] and not allow_extended:
        raise FrameError("extended-not-supported")
    return s["kind"], (s["data"] if s["kind"] == "info" else None)


def check_host_command(frame, allow_extended=True, max_preamble=1, max_data=None):
    """a frame the host wrote: must be ACK (-> ('ack', None, None)) or an information frame with TFI D4h
    -> ('cmd', command code, parameter bytes).  max_data: largest data field (TFI..PDn) the chip accepts."""
    s = split(frame, max_preamble)
    if s["clauses"]:
        raise FrameError(s["clauses"][0], bytes(frame)[:24].hex())
    if s["kind"] == "ack":
        return "ack", None, None
    if s["kind"] == "nack":
        return "nack", None, None
    if s["extended"] and not allow_extended:
        raise FrameError("extended-not-supported")
    if not s["extended"] and s["length"] > 255:          # cannot happen by construction of split()
        raise FrameError("normal-too-long")
    data = s["data"]
    if data[0] != TFI_HOST:
        raise FrameError("tfi", "%02X" % data[0])
    if len(data) < 2:
        raise FrameError("no-command-code")
    if max_data is not None and len(data) > max_data:
        raise FrameError("too-long", str(len(data)))
    return "cmd", data[1], data[2:]


def response_clauses(frame, cmd):
    """all rules a byte string breaks as *the response to command code cmd* ([] = valid response)"""
    s = split(frame, 1)
    bad = list(s["clauses"])
    if s["kind"] != "info":
        bad.append("not-information-frame")
        return bad
    d = s["data"]
    if len(d) == 1 and d[0] == 0x7F and not bad:
        return ["error-frame"]                      # a well formed syntax error frame: valid frame, not a response
    if not d or d[0] != TFI_CHIP:
        bad.append("tfi")
    if len(d) < 2 or d[1] != (cmd + 1) & 0xFF:
        bad.append("code")
    return bad


def is_error_frame(frame):
    s = split(frame, 1)
    return not s["clauses"] and s["kind"] == "info" and s["data"] == b"\x7f"


def dcs_postamble_confused(frame):
    """True when the only thing wrong with an information frame is that DCS and POSTAMBLE are both off while
    their sum is what a correct frame would have (the signature of adding the postamble into the DCS check)"""
    s = split(frame, 1)
    if s["kind"] != "info" or not set(s["clauses"]) <= {"dcs", "postamble"} or not s["clauses"]:
        return False
    if s["dcs"] is None or s["postamble"] is None:
        return False
    return (sum(s["data"]) + s["dcs"] + s["postamble"]) & 0xFF == 0


# ------------------------------------------------------------------------------------------------
# CCID (USB Chip/Smart Card Interface Devices rev 1.1) bulk messages used by the ACR122U
CCID_XFRBLOCK = 0x6F
CCID_ICCPOWERON = 0x62
CCID_ESCAPE = 0x6B
CCID_DATABLOCK = 0x80
CCID_RDR_ESCAPE = 0x83


def ccid_parse_out(msg):
    """host -> reader bulk-out message: 10 byte header bMessageType dwLength(LE) bSlot bSeq + 3 message
    specific bytes, then abData of exactly dwLength bytes.  -> (type, slot, seq, specific3, abData)"""
    m = bytes(msg)
    if len(m) < 10:
        raise FrameError("ccid-header-short", m.hex())
    typ, length, slot, seq = struct.unpack_from("<BIBB", m, 0)
    if typ not in (CCID_XFRBLOCK, CCID_ICCPOWERON, CCID_ESCAPE):
        raise FrameError("ccid-type", "%02X" % typ)
    if len(m) - 10 != length:
        raise FrameError("ccid-dwLength", "%d != %d" % (length, len(m) - 10))
    if typ == CCID_ICCPOWERON and length != 0:
        raise FrameError("ccid-poweron-length")
    if typ == CCID_XFRBLOCK and m[8:10] != b"\x00\x00":
        raise FrameError("ccid-wLevelParameter")          # short APDU / character level: must be 0000h
    return typ, slot, seq, m[7:10], m[10:]


def ccid_build_datablock(data, slot=0, seq=0, status=0, error=0, chain=0):
    data = bytes(data)
    return struct.pack("<BIBBBBB", CCID_DATABLOCK, len(data), slot, seq, status, error, chain) + data


def ccid_datablock_clauses(msg):
    m = bytes(msg)
    bad = []
    if len(m) < 10:
        return ["ccid-header-short"], b""
    if m[0] != CCID_DATABLOCK:
        bad.append("ccid-type")
    if struct.unpack_from("<I", m, 1)[0] != len(m) - 10:
        bad.append("ccid-dwLength")
    return bad, m[10:]


def acr122_parse_command(abdata):
    """abData of an XfrBlock carrying a PN532 command for the ACR122U: FF 00 00 00 Lc D4 cmd params
    -> (cmd, params)"""
    a = bytes(abdata)
    if len(a) < 5 or a[0:4] != b"\xff\x00\x00\x00":
        raise FrameError("apdu-header", a[:5].hex())
    lc = a[4]
    if len(a) - 5 != lc:
        raise FrameError("apdu-Lc", "%d != %d" % (lc, len(a) - 5))
    if lc < 2:
        raise FrameError("apdu-no-command")
    if a[5] != TFI_HOST:
        raise FrameError("tfi", "%02X" % a[5])
    return a[6], a[7:]


def acr122_classify_apdu(abdata):
    """abData of a PC_to_RDR_XfrBlock sent to an ACR122U (ACR122U API v2.0x, "pseudo APDUs"):
        FF 00 48 00 00                   get firmware version           -> ("version", b"")
        FF 00 51 P2 00                   set PICC operating parameter   -> ("picc", P2)
        FF 00 40 P2 04 T1 T2 N BUZ       bi-colour LED and buzzer       -> ("led", P2 + 4 octets)
        FF 00 41 P2 00 / FF 00 52 P2 00  time-out / buzzer on detection -> ("timeout"|"buzzer", P2)
        FF 00 00 00 Lc D4 cmd ..         direct transmit                -> ("direct", (cmd, params))
    The length byte (P3: Lc for commands with data, Le = 00 for the others) must agree with the octets that follow.
    Raises FrameError(clause) for anything else."""
    a = bytes(abdata)
    if len(a) < 5 or a[0:2] != b"\xff\x00":
        raise FrameError("apdu-header", a[:5].hex())
    ins = a[2]
    if ins == 0x00:
        return "direct", acr122_parse_command(a)
    if ins == 0x48:
        if a != b"\xff\x00\x48\x00\x00":
            raise FrameError("apdu-Lc", a.hex())
        return "version", b""
    if ins in (0x51, 0x41, 0x52):
        if len(a) != 5 or a[4] != 0x00:
            raise FrameError("apdu-Lc", a[:12].hex())
        return {0x51: "picc", 0x41: "timeout", 0x52: "buzzer"}[ins], a[3:4]
    if ins == 0x40:
        if a[4] != 0x04 or len(a) != 9:
            raise FrameError("apdu-Lc", "%d != %d" % (a[4], len(a) - 5))
        return "led", a[3:4] + a[5:9]
    raise FrameError("apdu-ins", "%02X" % ins)


def acr122_response_clauses(msg, cmd):
    """all rules a bulk-in message breaks as the ACR122U answer to PN532 command cmd:
    RDR_to_PC_DataBlock whose abData is  D5 cmd+1 .. 90 00"""
    bad, data = ccid_datablock_clauses(msg)
    if len(data) < 4:
        bad.append("apdu-short")
        return bad
    if data[0] != TFI_CHIP:
        bad.append("tfi")
    if data[1] != (cmd + 1) & 0xFF:
        bad.append("code")
    if data[-2:] != b"\x90\x00":
        bad.append("sw")
    return bad


# ------------------------------------------------------------------------------------------------
def selftest():
    """literal frames from the manuals / the repository's transcripts; returns number of comparisons"""
    n = 0
    h = bytes.fromhex
    assert build_command(0x02, b"") == h("0000ff02fed4022a00"); n += 1           # UM0701 GetFirmwareVersion example
    assert build_response(0x02, h("32010607")) == h("0000ff06fad50332010607e800"); n += 1
    assert build_command(0x14, h("010000")) == h("0000ff05fbd4140100001700"); n += 1
    assert build_response(0x14, b"") == h("0000ff02fed5151600"); n += 1
    assert build_frame(b"\x7f") == ERROR_FRAME; n += 1
    assert parse_frame(ACK) == ("ack", None) and parse_frame(NACK) == ("nack", None); n += 2
    assert check_host_command(h("0000ff05fbd4003132339600")) == ("cmd", 0, b"123"); n += 1
    big = b"123" + bytes(256)
    ext = h("0000ffffff0105fad400") + big + h("9600")
    assert build_command(0, big) == ext and check_host_command(ext) == ("cmd", 0, big); n += 2
    assert response_clauses(h("0000ff05fbd5013435368b00"), 0) == []; n += 1
    for bad_frame, clause in [(h("0000ff04fbd5013435368b00"), "lcs"), (h("0000ff05fbd50134358b00"), "len-mismatch"),
                              (h("00000005fbd5013435368b00"), "startcode"), (h("0000ff05fbd5013435368a00"), "dcs"),
                              (h("0000ff05fbd6013435368a00"), "tfi"), (h("0000ff05fbd5023435368a00"), "code"),
                              (h("0000ff05fbd5013435368605"), "dcs"), (h("0000ff"), "truncated-header"),
                              (h("0000ff05fbd5013435368b0000"), "len-mismatch")]:
        assert clause in response_clauses(bad_frame, 0), (bad_frame.hex(), clause, response_clauses(bad_frame, 0)); n += 1
    assert dcs_postamble_confused(h("0000ff05fbd5013435368605")); n += 1
    assert not dcs_postamble_confused(h("0000ff05fbd5013435368a00")); n += 1
    assert response_clauses(ERROR_FRAME, 0) == ["error-frame"] and is_error_frame(ERROR_FRAME); n += 2
    # extended frame rule both sides of the switch
    for ln in (1, 2, 254, 255, 256, 257, 265):
        d = bytes([0xD5, 0x01]) + bytes(ln - 2) if ln >= 2 else b"\xd5"
        f = build_frame(d)
        s = split(f)
        assert not s["clauses"] and s["extended"] == (ln > 255) and s["length"] == ln; n += 1
        fe = build_frame(d, extended=True)
        assert not split(fe)["clauses"] and split(fe)["extended"]; n += 1
    # long preamble is a serial-link allowance only
    try:
        check_host_command(bytes(10) + h("0000ff02fed4022a00"))
        raise AssertionError("long preamble accepted as canonical")
    except FrameError as e:
        assert e.clause == "preamble"; n += 1
    assert check_host_command(bytes(10) + h("0000ff02fed4022a00"), max_preamble=32) == ("cmd", 2, b""); n += 1
    # CCID / ACR122U
    out = h("6f050000000000000000ff00480000")
    assert ccid_parse_out(out)[0] == CCID_XFRBLOCK and ccid_parse_out(out)[4] == h("ff00480000"); n += 1
    assert ccid_parse_out(h("62000000000000000000"))[0] == CCID_ICCPOWERON; n += 1
    cmd = h("6f0c0000000000000000ff00000007d4420102030405")
    assert acr122_parse_command(ccid_parse_out(cmd)[4]) == (0x42, h("0102030405")); n += 1
    rsp = ccid_build_datablock(h("d543009000"), error=0x81)
    assert rsp == h("8005000000000000 8100".replace(" ", "")) + h("d543009000"); n += 1
    assert acr122_response_clauses(rsp, 0x42) == []; n += 1
    for bad_msg, clause in [(h("800300000000000081"), "ccid-header-short"), (h("00030000000000008100343536"), "ccid-type"),
                            (h("80040000000000008100343536"), "ccid-dwLength"),
                            (h("80030000000000008100D50190"), "apdu-short"), (h("80040000000000008100D4019000"), "tfi"),
                            (h("80040000000000008100D5009000"), "code"), (h("80040000000000008100D5019100"), "sw"),
                            (h("80040000000000008100D5019001"), "sw")]:
        assert clause in acr122_response_clauses(bad_msg, 0), (bad_msg.hex(), clause); n += 1
    # ACR122U pseudo APDUs other than direct transmit: the length byte must agree with what follows
    assert acr122_classify_apdu(h("ff00480000")) == ("version", b""); n += 1
    assert acr122_classify_apdu(h("ff00517f00")) == ("picc", b"\x7f"); n += 1
    assert acr122_classify_apdu(h("ff00400e0400000000")) == ("led", h("0e00000000")); n += 1
    assert acr122_classify_apdu(h("ff00000002d402")) == ("direct", (0x02, b"")); n += 1
    for bad_apdu, clause in [(h("ff00400e0300000000"), "apdu-Lc"), (h("ff00400e04000000"), "apdu-Lc"), (h("ff00517f0000"), "apdu-Lc"),
                             (h("ff004800"), "apdu-header"), (h("ff00480001"), "apdu-Lc"), (h("ff00000003d402"), "apdu-Lc"),
                             (h("ff00990000"), "apdu-ins")]:
        try:
            acr122_classify_apdu(bad_apdu)
            raise AssertionError("accepted " + bad_apdu.hex())
        except FrameError as e:
            assert e.clause == clause, (bad_apdu.hex(), e.clause); n += 1
    return n
