"""FeliCa Lite / Lite-S session key, MAC and MAC_A - independent reference computation.

Written from the formulas of the FeliCa Lite (RC-S965) and FeliCa Lite-S (RC-S966) user's manuals, chapter
"Security": explicit single-block DES operations and XORs.  pyDes is used ONLY as the single-block DES primitive
(one 8-byte block, ECB); triple DES, chaining, byte reversal and key handling are spelled out here, so the result
does not share code with nfcpy's `generate_mac` (which uses pyDes' triple_des in CBC mode).

Conventions of the manuals
  * Every 8-byte quantity (CK1, CK2, RC1, RC2, SK1, SK2, each half of a data block, the MAC) takes part in the
    calculation in *reversed* byte order relative to its position in the 16-byte block as transferred by
    Read/Write Without Encryption ("wire order").  All functions below take and return WIRE order; reversal is
    done internally.
  * Card key block CK (87h) = CK1[8] || CK2[8]; random challenge block RC (80h) = RC1[8] || RC2[8].
  * 2-key triple DES: TDES(Ka,Kb; X) = E(Ka, D(Kb, E(Ka, X))).
  * Session key:  SK1 = TDES(CK1,CK2; RC1)            (CBC with IV 0, first block)
                  SK2 = TDES(CK1,CK2; RC2 xor SK1)    (second block)
  * MAC (block 81h, Lite and Lite-S) over the data blocks D1..Dn that precede the MAC block in the block list,
    each split in two 8-byte halves d1..d2n:
                  X0 = RC1;  Xi = TDES(SK1,SK2; di xor X(i-1));  MAC = X2n
  * MAC_A (block 91h, Lite-S):
      read : first plaintext block = block numbers of the list entries in front of MAC_A, 2 bytes each
             (number, 00h), unused positions FFh FFh (4 positions), then the data halves; keys (SK1,SK2); X0 = RC1.
      write: first plaintext block = WCNT[0] WCNT[1] WCNT[2] 00h BN 00h 91h 00h, then the two halves of the data
             block; keys swapped (SK2,SK1); X0 = RC1.
    The block 91h written by the reader carries MAC_A[8] || WCNT[3] || 00*5.
"""
import pyDes

_DES = {}


def _des(key):
    key = bytes(key)
    d = _DES.get(key)
    if d is None:
        if len(_DES) > 256:
            _DES.clear()
        d = _DES[key] = pyDes.des(key, pyDes.ECB)
    return d


def des_e(key, block):
    assert len(key) == 8 and len(block) == 8
    return bytes(_des(key).encrypt(bytes(block)))


def des_d(key, block):
    assert len(key) == 8 and len(block) == 8
    return bytes(_des(key).decrypt(bytes(block)))


def tdes2(ka, kb, block):
    """2-key triple DES encryption of one block (E-D-E)"""
    return des_e(ka, des_d(kb, des_e(ka, block)))


def xor(a, b):
    assert len(a) == len(b)
    return bytes(x ^ y for x, y in zip(a, b))


def rev(b):
    return bytes(b)[::-1]


_SK = {}


def session_key(ck_block, rc_block):
    """(SK1, SK2) in calculation order from the 16-byte CK and RC blocks in wire order"""
    ck_block, rc_block = bytes(ck_block), bytes(rc_block)
    assert len(ck_block) == 16 and len(rc_block) == 16
    hit = _SK.get((ck_block, rc_block))
    if hit is not None:
        return hit
    if len(_SK) > 64:
        _SK.clear()
    _SK[(ck_block, rc_block)] = hit = _session_key(ck_block, rc_block)
    return hit


def _session_key(ck_block, rc_block):
    ck1, ck2 = rev(ck_block[0:8]), rev(ck_block[8:16])
    rc1, rc2 = rev(rc_block[0:8]), rev(rc_block[8:16])
    sk1 = tdes2(ck1, ck2, rc1)
    sk2 = tdes2(ck1, ck2, xor(rc2, sk1))
    return sk1, sk2


def _chain(ka, kb, iv, halves):
    x = iv
    for h in halves:
        x = tdes2(ka, kb, xor(rev(h), x))
    return x


def _halves(data):
    data = bytes(data)
    assert len(data) % 8 == 0
    return [data[i:i + 8] for i in range(0, len(data), 8)]


def mac(ck_block, rc_block, data):
    """8-byte MAC (wire order, as found in bytes 0..7 of block 81h) over `data` (concatenated 16-byte blocks)"""
    sk1, sk2 = session_key(ck_block, rc_block)
    rc1 = rev(bytes(rc_block)[0:8])
    return rev(_chain(sk1, sk2, rc1, _halves(data)))


def mac_a_read(ck_block, rc_block, block_numbers, data):
    """Lite-S MAC_A for a read: block_numbers = numbers of the list entries in front of the MAC_A entry (<= 4)"""
    assert len(block_numbers) <= 4
    sk1, sk2 = session_key(ck_block, rc_block)
    rc1 = rev(bytes(rc_block)[0:8])
    head = b"".join(bytes([bn & 0xFF, bn >> 8]) for bn in block_numbers) + b"\xFF\xFF" * (4 - len(block_numbers))
    return rev(_chain(sk1, sk2, rc1, [head] + _halves(data)))


def mac_a_write(ck_block, rc_block, wcnt, block_number, data):
    """Lite-S MAC_A for a write of one 16-byte block; wcnt = the 3 WCNT bytes as read from block 90h"""
    wcnt, data = bytes(wcnt), bytes(data)
    assert len(wcnt) == 3 and len(data) == 16
    sk1, sk2 = session_key(ck_block, rc_block)
    rc1 = rev(bytes(rc_block)[0:8])
    head = wcnt + bytes([0x00, block_number & 0xFF, 0x00, 0x91, 0x00])
    return rev(_chain(sk2, sk1, rc1, [head] + _halves(data)))


def password_to_ck_block(password):
    """nfcpy/Sony convention: the first 16 password bytes are CK1 || CK2 in calculation order; the CK block holds
    each half reversed.  An empty password means the factory key (16 zero bytes)."""
    if isinstance(password, str):
        password = password.encode("latin-1")
    key = bytes(password[0:16]) if password else bytes(16)
    assert len(key) == 16
    return rev(key[0:8]) + rev(key[8:16])


# ---- directed cases: data that yields a chosen MAC (additive; used by vf.props.c20) ---------------------------------
def tdes2_d(ka, kb, block):
    """2-key triple DES decryption of one block (D-E-D), inverse of tdes2"""
    return des_d(ka, des_e(kb, des_d(ka, block)))


def solve_last_half(ck_block, rc_block, prefix, target_mac):
    """the 8 bytes h (wire order) for which mac(ck_block, rc_block, prefix + h) == target_mac.  `prefix` = the data
    in front of the last 8-byte half (length 8 mod 16 when whole blocks are read).  From the MAC formula:
    MAC = rev(TDES(SK; rev(h) xor X)) with X the chain value after `prefix`, so rev(h) = TDES^-1(SK; rev(MAC)) xor X."""
    prefix, target_mac = bytes(prefix), bytes(target_mac)
    assert len(prefix) % 8 == 0 and len(target_mac) == 8
    sk1, sk2 = session_key(ck_block, rc_block)
    rc1 = rev(bytes(rc_block)[0:8])
    x = _chain(sk1, sk2, rc1, _halves(prefix))
    return rev(xor(tdes2_d(sk1, sk2, rev(target_mac)), x))


# ---- vectors taken from the repository's own tests (tests/test_tag_tt3_sony.py) -------------------------------
def selftest():
    """returns a list of failure strings (empty = all vectors reproduced)"""
    bad = []
    H = bytes.fromhex
    ck = password_to_ck_block(b"0123456789abcdef")
    rc_plain = bytes(range(16))
    rc = rev(rc_plain[0:8]) + rev(rc_plain[8:16])
    if rc != H("07060504030201000f0e0d0c0b0a0908"):
        bad.append("rc block order")
    if ck != H("37363534333231306665646362613938"):
        bad.append("ck block order")
    vec = [
        (bytes(16), "cc97f1b97b8bbc79"),                                      # ID block of zeros
        (H("01020304050607080000000000000000"), "91aec5b6d9b3b12d"),          # ID block
        (H("10040100030000000000010000270040"), "af36b1f1524e3eb9"),          # attribute block
        (H("d10222537091010e55036e66632d666f72756d2e6f726751010c5402656e4e46"
           "4320466f72756d000000000000000000"), "9e2d7fe15b2f5d1c"),         # three data blocks
        (H("01000000000000000000000000000000"), "bd73eb7294a00279"),          # STATE block
        (H("10040100030000000000010000000019"), "a622c337a4e44271"),
    ]
    for data, want in vec:
        got = mac(ck, rc, data).hex()
        if got != want:
            bad.append("mac(%s..) = %s, expected %s" % (data[:4].hex(), got, want))
    got = mac_a_write(ck, rc, H("00feff"), 0x92, H("01" + "00" * 15)).hex()
    if got != "17c19e3bbdc3e8bd":
        bad.append("mac_a_write = %s, expected 17c19e3bbdc3e8bd" % got)
    # test_generate_mac: data 00..1f, key 00..0f used directly as (SK1,SK2), iv 00..07, plain / flipped key
    data, key, iv = bytes(range(32)), bytes(range(16)), bytes(range(8))
    got = rev(_chain(key[0:8], key[8:16], iv, _halves(data))).hex()
    if got != "0b1268d7a4ac6932":
        bad.append("chain plain = %s" % got)
    got = rev(_chain(key[8:16], key[0:8], iv, _halves(data))).hex()
    if got != "18cdd33c0fb25dd7":
        bad.append("chain flipped = %s" % got)
    for target in (bytes(8), H("00112233445566ff"), H("ff000000000000ff")):
        for prefix in (bytes(range(8)), bytes(range(40))):
            h = solve_last_half(ck, rc, prefix, target)
            if mac(ck, rc, prefix + h) != target:
                bad.append("solve_last_half(%s) does not give the chosen MAC" % target.hex())
    return bad


if __name__ == "__main__":
    import sys
    r = selftest()
    print("felica_mac selftest:", "ok" if not r else r)
    sys.exit(1 if r else 0)
