"""Reference address table of one LLCP link controller (C17), written from the LLCP address plan and the
documented nfc.llcp.Socket contract - not from nfcpy's implementation.

Address plan (LLCP 1.x, section 4.2 + NFC Forum assigned numbers):
    0        LLC link management            (never available to a socket)
    1        service discovery, urn:nfc:sn:sdp (never available to a socket)
    2..15    well-known services; nfcpy documents  urn:nfc:sn:snep = 4
             (registry only, not documented by nfcpy: urn:nfc:sn:ip = 2, urn:nfc:sn:obex = 3 -> lenient)
    16..31   services bound by (non well-known) name, allocated by the local LLC
    32..63   anonymous / explicit dynamic addresses

The model does not predict *which* free address is chosen; for every operation it yields the allowed outcome
*class* (`Expect`): success with an address out of a set, or a set of acceptable errno values.  `judge()` compares an
observed outcome with it and returns a list of (signature, text) complaints.  After a complaint the caller may
`taint()` the addresses / names involved: the model makes no further prediction about them.

Closing a socket that is already closed (`closed_again`) is a no-op on the table: whatever the API call does
(return or raise nfc.llcp.Error), no address and no name changes hands; `view()` gives a comparable snapshot.
Operations of different threads on different sockets of one controller that overlap in time are explained by
*some* sequential order (`clone()` + the same expectations); implicit binds (`expect_implicit`) follow the rule of the
anonymous bind.
Hostile names: a str that cannot be encoded, control / non-ASCII characters, a wrong prefix are bad names (EFAULT);
a well-formed name of more than 255 octets may be refused (EFAULT) or bound (free address in 16-31) - not specified.
Name lookups are a pure function of the table (`lookup_allowed`): the answer to one request never depends on
other requests that travel with it in the same SNL PDU (`lookup_batch`).
"""
import errno
import re

RAW, LDL, DLC = "raw", "ldl", "dlc"

WKS_STRICT = {"urn:nfc:sn:sdp": 1, "urn:nfc:sn:snep": 4}
WKS_LENIENT = {"urn:nfc:sn:ip": 2, "urn:nfc:sn:obex": 3}
NAMED = range(16, 32)
DYNAMIC = range(32, 64)
RESERVED = (0, 1)

NO_ADDRESS_CODES = frozenset([errno.EADDRNOTAVAIL, errno.EAGAIN, errno.EADDRINUSE])
MAX_NAME_OCTETS = 255       # length octet of the SN TLV (CONNECT); an SDREQ carries one octet less

# Service name URIs: "urn:nfc:sn:<name>" (well-known) and "urn:nfc:xsn:<domain>:<name>" (external).
# Only names that are clearly valid / clearly invalid are classified; everything else is None (not judged).
_CLEARLY_VALID = re.compile(r"^urn:nfc:(sn:[a-zA-Z][a-zA-Z0-9._-]*|xsn:[a-zA-Z][a-zA-Z0-9.-]*:[a-zA-Z][a-zA-Z0-9._:-]*)$")


def name_class(name):
    """True = valid service name, False = clearly not a service name URI, None = do not judge"""
    if isinstance(name, (bytes, bytearray)):
        try:
            name = bytes(name).decode("latin-1")
        except Exception:   # pragma: no cover
            return None
    if not isinstance(name, str):
        return False
    if _CLEARLY_VALID.match(name):
        return True
    low = name.lower()
    if not (low.startswith("urn:nfc:sn:") or low.startswith("urn:nfc:xsn:")):
        return False                        # wrong scheme / prefix
    if name.startswith("urn:nfc:sn:") or name.startswith("urn:nfc:xsn:"):
        rest = name.split(":", 3)[3]
        if rest == "" or any(ord(c) <= 32 or ord(c) >= 127 for c in rest):
            return False                    # empty name, blanks, control or non-ASCII characters
    return None


class Expect(object):
    """allowed outcome class of one operation"""

    def __init__(self, clause, ok=None, errs=None, judged=True):
        self.clause = clause                # which rule produced the expectation (goes into signatures)
        self.ok = None if ok is None else frozenset(ok)       # allowed resulting addresses (None: must fail)
        self.errs = None if errs is None else frozenset(errs)  # allowed errno values (None: must succeed)
        self.judged = judged

    def __repr__(self):
        return "Expect(%s ok=%s errs=%s%s)" % (
            self.clause, None if self.ok is None else sorted(self.ok),
            None if self.errs is None else sorted(errno.errorcode.get(e, e) for e in self.errs),
            "" if self.judged else " unjudged")


class Sock(object):
    def __init__(self, sid, kind):
        self.sid, self.kind = sid, kind
        self.addr = None
        self.name = None          # service name this socket registered
        self.open = True
        self.listening = False
        self.connected = False    # data link connection established (either side)
        self.peer = None
        self.parent = None        # listening socket an accepted socket came from
        self.disturbed = False    # received traffic the model does not follow (state not predicted any more)


class AddrModel(object):
    def __init__(self):
        self.sock = {}
        self.at = {}              # addr -> set of sids of open sockets bound there
        self.names = {}           # registered name -> sid of the open socket that registered it
        self.ghost = {}           # name -> address it had when its socket was closed (diagnosis only)
        self.tainted_addr = set()
        self.tainted_name = set()
        self.ever_used = set()    # addresses that have been occupied at some time (reuse episodes)

    # -- queries --------------------------------------------------------------------------
    def occupied(self, a):
        return a in RESERVED or bool(self.at.get(a))

    def free(self, rng):
        return [a for a in rng if not self.occupied(a)]

    def only_tainted(self, addrs):
        """every one of these addresses is tainted (no prediction: it may in fact be occupied)"""
        return bool(addrs) and all(a in self.tainted_addr for a in addrs)

    def holders(self, a):
        return sorted(self.at.get(a, ()))

    def lookup(self, name):
        """address a peer must be told for `name` (0 = no such service)"""
        if name == "urn:nfc:sn:sdp":
            return 1
        sid = self.names.get(name)
        return self.sock[sid].addr if sid is not None else 0

    def lookup_allowed(self, name):
        """set of answers a peer may get for `name`.  While accepted connections of a closed listening socket
        still occupy its address, both 'absent' and the old address are tolerated (not specified)."""
        a = self.lookup(name)
        if a:
            return {a}
        g = self.ghost.get(name)
        if g is not None and any(self.sock[x].parent is not None and not self.sock[self.sock[x].parent].open
                                 and self.sock[self.sock[x].parent].name == name for x in self.at.get(g, ())):
            return {0, g}
        return {0}

    def listener_at(self, a):
        for sid in self.holders(a):
            s = self.sock[sid]
            if s.kind == DLC and s.listening:
                return sid
        return None

    def may_share(self, sid1, sid2):
        """two open sockets may report one address only as listening socket + accepted connections of it"""
        a, b = self.sock[sid1], self.sock[sid2]
        if a.kind != DLC or b.kind != DLC:
            return False
        fam = lambda s: s.parent if s.parent is not None else s.sid
        return fam(a) == fam(b) and (a.parent is not None or b.parent is not None)

    # -- expectations ---------------------------------------------------------------------
    def new_socket(self, sid, kind):
        self.sock[sid] = Sock(sid, kind)

    def expect_bind(self, sid, arg):
        s = self.sock[sid]
        if s.addr is not None:
            return Expect("rebind-bound-socket", errs=[errno.EINVAL])
        if arg is None:
            free = self.free(DYNAMIC)
            if free and self.only_tainted(free):
                # the only addresses the table shows as free are ones it makes no prediction about any more
                return Expect("anonymous-rest-tainted", ok=free, errs=[errno.EAGAIN])
            if free:
                return Expect("anonymous", ok=free)
            return Expect("anonymous-exhausted", errs=[errno.EAGAIN])
        if isinstance(arg, bool) or isinstance(arg, float) or isinstance(arg, (list, tuple, dict)):
            if isinstance(arg, bool):
                return Expect("bool-address", judged=False)
            return Expect("bad-type", errs=[errno.EFAULT])
        if isinstance(arg, int):
            if arg < 0 or arg > 63:
                return Expect("addr-out-of-range", errs=[errno.EFAULT])
            if arg in DYNAMIC:
                if self.occupied(arg):
                    return Expect("addr-dynamic-occupied", errs=[errno.EADDRINUSE])
                return Expect("addr-dynamic", ok=[arg])
            if s.kind == RAW:
                # raw access points (test tool) may sit on any address that is not in use
                if self.occupied(arg):
                    return Expect("addr-raw-occupied", errs=[errno.EADDRINUSE, errno.EACCES])
                return Expect("addr-raw", ok=[arg])
            errs = [errno.EACCES] + ([errno.EADDRINUSE] if self.occupied(arg) else [])
            return Expect("addr-reserved-range", errs=errs)
        # service name
        name = arg.decode("latin-1") if isinstance(arg, (bytes, bytearray)) else arg
        cls = name_class(name)
        if cls is None:
            return Expect("name-unclassified", judged=False)
        if cls is False:
            return Expect("name-invalid", errs=[errno.EFAULT])
        if len(name) > MAX_NAME_OCTETS:
            # well-formed but longer than any SN / SDREQ parameter can carry: whether such a name is a bad name
            # (EFAULT) or gets an address nobody can ever ask for is not specified -> either outcome class
            if name in self.names:
                return Expect("name-longer-than-255-registered", errs=[errno.EADDRINUSE, errno.EFAULT])
            free = self.free(NAMED) if name not in WKS_STRICT else []
            if 0 in self.lookup_allowed(name) and len(self.lookup_allowed(name)) > 1:
                # and its closed listener still has live connections (see below): EADDRINUSE is as good as the others
                return Expect("name-longer-than-255-of-closed-listener-with-live-connections", ok=free,
                              errs=[errno.EFAULT, errno.EADDRINUSE] + ([] if free else sorted(NO_ADDRESS_CODES)))
            if free:
                return Expect("name-longer-than-255", ok=free, errs=[errno.EFAULT])
            return Expect("name-longer-than-255-exhausted", errs=[errno.EFAULT] + sorted(NO_ADDRESS_CODES))
        if name in self.names or name == "urn:nfc:sn:sdp":
            return Expect("name-registered", errs=[errno.EADDRINUSE])
        if 0 in self.lookup_allowed(name) and len(self.lookup_allowed(name)) > 1:
            # the listening socket that registered the name is closed, connections accepted from it still occupy
            # its address: whether the name is available again at this point is not specified -> either outcome
            free = self.free(NAMED) if name not in WKS_STRICT else []
            return Expect("name-of-closed-listener-with-live-connections", ok=free, errs=[errno.EADDRINUSE])
        if name in WKS_STRICT:
            a = WKS_STRICT[name]
            if self.occupied(a):
                return Expect("wks-address-occupied", errs=[errno.EADDRINUSE, errno.EADDRNOTAVAIL])
            return Expect("wks", ok=[a])
        free = self.free(NAMED)
        if free and self.only_tainted(free) and name not in WKS_LENIENT:
            return Expect("name-rest-tainted", ok=free, errs=NO_ADDRESS_CODES)
        if name in WKS_LENIENT:
            a = WKS_LENIENT[name]
            ok = list(free) + ([] if self.occupied(a) else [a])
            if free:
                return Expect("wks-registry-only", ok=ok)
            if ok:      # named range exhausted, only the registry address is left: either outcome
                return Expect("wks-registry-only-exhausted", ok=ok, errs=NO_ADDRESS_CODES)
            return Expect("wks-registry-only-exhausted", errs=NO_ADDRESS_CODES)
        if free:
            return Expect("name", ok=free)
        return Expect("name-exhausted", errs=NO_ADDRESS_CODES)

    def expect_implicit(self, sid):
        """listen / connect / sendto on a socket without an address bind it like an anonymous bind does"""
        if self.sock[sid].addr is not None:
            return Expect("already-bound", ok=[self.sock[sid].addr])
        free = self.free(DYNAMIC)
        if free and self.only_tainted(free):
            return Expect("implicit-rest-tainted", ok=free, errs=[errno.EAGAIN])
        if free:
            return Expect("implicit", ok=free)
        return Expect("implicit-exhausted", errs=[errno.EAGAIN])

    def judge(self, op, exp, outcome):
        """outcome: ("ok", addr) | ("err", errno) -> list of (signature, text)"""
        if not exp.judged:
            return []
        kind, val = outcome
        if kind == "ok":
            if exp.ok is None:
                want = "-or-".join(sorted(errno.errorcode.get(e, str(e)) for e in exp.errs))
                return [("%s/%s/succeeded-instead-of-%s" % (op, exp.clause, want),
                         "%s succeeded with address %r where %s is required (%s)" % (op, val, want, exp.clause))]
            if val not in exp.ok:
                rng = "reserved" if val in RESERVED else "2-15" if val is not None and val < 16 else \
                    "16-31" if val is not None and val < 32 else "32-63" if val is not None and val < 64 else "none"
                occ = "occupied" if (val is not None and self.occupied(val)) else "free"
                return [("%s/%s/address-%s-%s" % (op, exp.clause, rng, occ),
                         "%s returned address %r, allowed %s (%s)" % (op, val, sorted(exp.ok)[:8], exp.clause))]
            return []
        code = errno.errorcode.get(val, str(val))
        if exp.errs is None:
            return [("%s/%s/failed-%s" % (op, exp.clause, code),
                     "%s failed with %s although an address in %s is free (%s)" % (op, code, sorted(exp.ok)[:8], exp.clause))]
        if val not in exp.errs:
            want = "-or-".join(sorted(errno.errorcode.get(e, str(e)) for e in exp.errs))
            return [("%s/%s/errno-%s-instead-of-%s" % (op, exp.clause, code, want),
                     "%s failed with %s, required %s (%s)" % (op, code, want, exp.clause))]
        return []

    # -- state updates (driven by what was observed) ------------------------------------------
    def bound(self, sid, addr, name=None):
        s = self.sock[sid]
        s.addr = addr
        if addr in self.ever_used and not self.at.get(addr):
            self.reused = getattr(self, "reused", 0) + 1
        self.at.setdefault(addr, set()).add(sid)
        self.ever_used.add(addr)
        if name is not None:
            s.name = name
            self.names[name] = sid
            self.ghost.pop(name, None)

    def accepted(self, sid, parent_sid, peer):
        p = self.sock[parent_sid]
        s = Sock(sid, DLC)
        s.parent, s.addr, s.connected, s.peer = parent_sid, p.addr, True, peer
        self.sock[sid] = s
        self.at.setdefault(s.addr, set()).add(sid)

    def closed(self, sid):
        """returns the address that became free (or None)"""
        s = self.sock[sid]
        s.open = False
        s.listening = s.connected = False
        freed = None
        if s.addr is not None:
            self.at.get(s.addr, set()).discard(sid)
            if not self.at.get(s.addr):
                self.at.pop(s.addr, None)
                freed = s.addr
        if s.name is not None and self.names.get(s.name) == sid:
            del self.names[s.name]
            self.ghost[s.name] = s.addr
        return freed

    def closed_again(self, sid):
        """close() on an already closed socket: the table is unaffected (whoever holds its old address now keeps
        it, names stay registered).  Returns how the old address is held now (workload classification only):
        'unbound' | 'free' | 'beside-listener' (its listening socket / sibling connections are still there) |
        'reused' (sockets that have nothing to do with the closed one)."""
        s = self.sock[sid]
        if s.open:
            raise ValueError("closed_again() on an open socket")
        if s.addr is None:
            return "unbound"
        holders = self.at.get(s.addr, ())
        if not holders:
            return "free"
        fam = s.parent if s.parent is not None else sid
        if all((self.sock[x].parent if self.sock[x].parent is not None else x) == fam for x in holders):
            return "beside-listener"
        return "reused"

    def view(self):
        """comparable snapshot of the table: (address -> holders, name -> address)"""
        return (tuple(sorted((a, tuple(sorted(map(str, h)))) for a, h in self.at.items() if h)),
                tuple(sorted((n, self.sock[x].addr) for n, x in self.names.items())))

    def clone(self):
        """independent copy of the table (used to try the sequential orders that could explain the outcomes of
        operations that ran concurrently: the table after a set of operations does not depend on their order)"""
        c = AddrModel()
        for sid, s in self.sock.items():
            t = Sock(sid, s.kind)
            t.__dict__.update(s.__dict__)
            c.sock[sid] = t
        c.at = {a: set(h) for a, h in self.at.items()}
        c.names = dict(self.names)
        c.ghost = dict(self.ghost)
        c.tainted_addr = set(self.tainted_addr)
        c.tainted_name = set(self.tainted_name)
        c.ever_used = set(self.ever_used)
        if hasattr(self, "reused"):
            c.reused = self.reused
        return c

    def lookup_batch(self, names):
        """allowed answers for several requests carried in one SNL PDU: each one on its own"""
        return [self.lookup_allowed(n) for n in names]

    def taint(self, addr=None, name=None):
        if addr is not None:
            self.tainted_addr.add(addr)
        if name is not None:
            self.tainted_name.add(name)
