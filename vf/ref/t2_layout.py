"""Type 2 Tag layouts: generator of well-formed memory layouts and an independent reference reader / capacity
calculator, written from the NFC Forum Type 2 Tag Operation specification (memory structure, CC, TLV blocks,
Lock Control TLV, Memory Control TLV, NDEF Message TLV, Terminator TLV).  Nothing is taken from nfcpy.

Addresses are linear byte addresses: sector * 1024 + page * 4 + byte.

Spec summary used here
  bytes 0..9    UID / internal, bytes 10,11 static lock bits, bytes 12..15 capability container
                CC0 = E1h, CC1 = version (major.minor nibbles), CC2 = data area size / 8, CC3 = access (read nibble,
                write nibble; 0 = granted)
  data area     bytes 16 .. 16 + 8*CC2 - 1, a sequence of TLV blocks
                T = 00h NULL (one byte), FEh Terminator (one byte), 01h Lock Control, 02h Memory Control,
                03h NDEF Message, FDh Proprietary; L = 1 byte 00..FEh or FFh + 2 bytes big endian; V
  Lock Control  V = [PageAddr<<4 | ByteOffset, Size in bits (0 = 256), BytesLockedPerLockBit<<4 | BytesPerPage]
                first lock byte at PageAddr * 2**BytesPerPage + ByteOffset, ceil(Size / 8) bytes
  Memory Ctrl   V = [PageAddr<<4 | ByteOffset, Size in bytes (0 = 256), BytesPerPage]
  Reserved / dynamic lock bytes announced by the control TLVs are not part of the TLV byte stream: a reader or writer
  jumps over them.
"""

NDEF_T, LOCK_T, MEM_T, NULL_T, TERM_T, PROP_T = 0x03, 0x01, 0x02, 0x00, 0xFE, 0xFD


class RefResult(object):
    """status: 'ndef' | 'no-ndef' (terminator / end of data area without NDEF TLV) | 'no-cc' | 'version' |
               'not-readable' | 'overrun' (a TLV does not fit into the data area or the physical memory)"""
    def __init__(self, status, **kw):
        self.status = status
        self.message = None
        self.ndef_off = None
        self.value_addrs = []
        self.reserved = set()
        self.data_end = None
        self.writable = None
        self.ctrl = []
        self.walked = set()      # addresses of the T, L and V bytes of the TLVs in front of the NDEF Message TLV + its T, L
        self.__dict__.update(kw)

    def __repr__(self):
        return "RefResult(%s, off=%r, len=%r)" % (self.status, self.ndef_off,
                                                  None if self.message is None else len(self.message))


def ctrl_range(kind, v):
    """reserved byte range (start, nbytes) announced by a control TLV value v (3 bytes)"""
    page_addr, byte_offs = v[0] >> 4, v[0] & 15
    size = v[1] if v[1] else 256
    start = page_addr * (1 << (v[2] & 15)) + byte_offs
    nbytes = (size + 7) // 8 if kind == LOCK_T else size
    return start, nbytes


def ref_read(mem):
    """reference NDEF detection + read procedure on a raw linear memory image"""
    n = len(mem)
    if n < 16 or mem[12] != 0xE1:
        return RefResult("no-cc")
    if mem[13] >> 4 != 1:
        return RefResult("version")
    data_end = 16 + mem[14] * 8
    res = RefResult("no-ndef", data_end=data_end, writable=(mem[15] & 15) == 0)
    if mem[15] >> 4 != 0:
        res.status = "not-readable"
        return res
    reserved = res.reserved
    pos = 16
    while pos < data_end:
        if pos in reserved:
            pos += 1
            continue
        if pos >= n:
            res.status = "overrun"
            return res
        t = mem[pos]
        if t == NULL_T:
            res.walked.add(pos)
            pos += 1
            continue
        if t == TERM_T:
            return res
        if pos + 1 >= min(n, data_end):
            res.status = "overrun"
            return res
        ln = mem[pos + 1]
        hdr = 2
        if ln == 0xFF:
            if pos + 3 >= min(n, data_end):
                res.status = "overrun"
                return res
            ln = mem[pos + 2] << 8 | mem[pos + 3]
            hdr = 4
        addrs = []
        p = pos + hdr
        while len(addrs) < ln:
            if p >= data_end or p >= n:
                res.status = "overrun"
                return res
            if p not in reserved:
                addrs.append(p)
            p += 1
        res.walked.update(range(pos, pos + hdr))
        if t == NDEF_T:
            res.status = "ndef"
            res.ndef_off = pos
            res.value_addrs = addrs
            res.message = bytes(mem[a] for a in addrs)
            return res
        if t in (LOCK_T, MEM_T) and ln == 3:
            v = [mem[a] for a in addrs]
            start, nbytes = ctrl_range(t, v)
            res.ctrl.append((t, pos, start, nbytes))
            reserved.update(range(start, start + nbytes))
        res.walked.update(addrs)
        pos = p
    return res


def ref_capacity(ndef_off, data_end, reserved):
    """largest NDEF message length that fits when the NDEF Message TLV starts at ndef_off"""
    avail = sum(1 for a in range(ndef_off, data_end) if a not in reserved)
    if avail - 4 >= 255:
        return avail - 4
    return max(0, min(avail - 2, 254))


def place_ndef(mem, ndef_off, reserved, data_end, msg, terminator=True):
    """reference writer: put an NDEF Message TLV with value msg at ndef_off (jumping over reserved bytes)"""
    mem[ndef_off] = NDEF_T
    if len(msg) < 255:
        mem[ndef_off + 1] = len(msg)
        p = ndef_off + 2
    else:
        mem[ndef_off + 1] = 0xFF
        mem[ndef_off + 2] = len(msg) >> 8
        mem[ndef_off + 3] = len(msg) & 255
        p = ndef_off + 4
    for b in msg:
        while p in reserved:
            p += 1
        assert p < data_end, "message does not fit"
        mem[p] = b
        p += 1
    while p in reserved:
        p += 1
    if terminator and p < data_end:
        mem[p] = TERM_T
    return p          # address following the last value byte (after skipping reserved bytes)


def encodings(addr):
    """all (page_addr, byte_offs, n) with page_addr * 2**n + byte_offs == addr, n = 2..11"""
    out = []
    for n in range(2, 12):
        pa, bo = addr >> n, addr & ((1 << n) - 1)
        if pa <= 15 and bo <= 15:
            out.append((pa, bo, n))
    return out


def pick_addr(rng, lo, hi):
    """an address in [lo, hi) that a control TLV can express, or None"""
    if hi <= lo:
        return None
    for _ in range(40):
        a = rng.randrange(lo, hi)
        if encodings(a):
            return a
        for n in (5, 6, 7):                 # round to something expressible
            b = (a >> n << n) + rng.randrange(16)
            if lo <= b < hi and encodings(b):
                return b
    return None


CC2_CHOICES = [6, 6, 7, 8, 12, 16, 18, 18, 31, 32, 33, 34, 62, 63, 64, 109, 126, 127, 128, 129, 200, 234, 255]


class Layout(object):
    def __init__(self):
        self.mem = None
        self.cc2 = 0
        self.data_end = 0
        self.ndef_off = 0
        self.reserved = set()
        self.old = b""
        self.items = []          # prefix TLV descriptions
        self.tags = set()        # placement classes of reserved ranges present
        self.ctrl = []           # (T, tlv offset, start, nbytes)

    @property
    def capacity(self):
        return ref_capacity(self.ndef_off, self.data_end, self.reserved)

    def len_ending_at(self, addr):
        """message length whose last value byte is directly followed by address addr (or None)"""
        for hdr in (2, 4):
            n = sum(1 for a in range(self.ndef_off + hdr, addr) if a not in self.reserved)
            if (hdr == 2 and n < 255) or (hdr == 4 and n >= 255):
                if addr >= self.ndef_off + hdr:
                    return n
        return None

    def describe(self):
        return {"cc2": self.cc2, "ndef_off": self.ndef_off, "items": self.items, "tags": sorted(self.tags),
                "mem_len": len(self.mem), "old_len": len(self.old)}


def gen_layout(rng, cc2=None, nnull=None, nctl=None, old_len=None, align=None, filler=None, trailing=None,
               uid0=None, min_capacity=0, gap=None, near_end=False, adjacent=None, attempts=None, end_zone=None):
    """a random well-formed layout (see module doc).  Reserved ranges never touch the prefix TLVs nor the first
    four bytes of the NDEF Message TLV (its T byte and the up to three L bytes), except with

    adjacent = 2 | 4 | True (one of both): one control TLV reserves a range that starts DIRECTLY behind the length
    field of the NDEF Message TLV that is stored on the tag: at ndef_off + 2 with a stored message of less than 255
    bytes (1-byte length), at ndef_off + 4 with a stored message of 255 or more bytes (3-byte length).  The range lies
    on value bytes only (the value continues behind it), never on the T or L bytes of the TLV that is present.  A
    writer that stores 255 or more bytes on an `adjacent = 2` layout would have to put L bytes on reserved bytes:
    see length_field_on_reserved().

    end_zone = 16 | 8 | 4 | True (one of them): the first control TLV declares a range that starts within the last
    16 / 8 / 4 bytes of the data area: ending exactly at the end of the data area, starting exactly at end - zone,
    somewhere inside the zone, or starting in the zone and running across the end (tags end-zone-16/-8/-4 by the
    distance of the first byte from the end, end-zone-ends-at-end, end-zone-starts-at-end-16, end-zone-crosses-end)."""
    if adjacent is True:
        adjacent = rng.choice([2, 2, 4])
    for _attempt in range(attempts or (400 if adjacent else 200)):
        lay = _gen_once(rng, cc2, nnull, nctl, old_len, align, filler, trailing, uid0, gap, near_end, adjacent,
                        end_zone)
        if lay is not None and lay.capacity >= min_capacity:
            chk = ref_read(lay.mem)
            assert chk.status == "ndef" and chk.ndef_off == lay.ndef_off and chk.message == lay.old and \
                chk.reserved == lay.reserved and chk.data_end == lay.data_end, \
                ("layout generator and reference reader disagree", lay.describe(), chk)
            return lay
    raise RuntimeError("no layout found for the constraints")


def length_field_on_reserved(ndef_off, reserved, n):
    """storing an n byte message in the NDEF Message TLV at ndef_off needs a length field that covers reserved bytes
    (such a TLV is outside the layouts the tag properties quantify over: 'reserved ranges anywhere except on the NDEF
    TLV's own tag and length-field bytes')"""
    field = (ndef_off, ndef_off + 1) if n < 255 else (ndef_off, ndef_off + 1, ndef_off + 2, ndef_off + 3)
    return any(a in reserved for a in field)


def end_zone_classes(ref):
    """classes of declared (lock-control / memory-control) ranges that cover bytes of the LAST 16 bytes of the data
    area, from a RefResult: "16" | "8" | "4" (distance of the first covered byte of the zone from the end of the data
    area: 9..16, 5..8, 1..4), "ends_at_end", "starts_at_end_16", "crosses_end", "from_below" (starts in front of
    the zone and reaches into it)"""
    out = set()
    end = ref.data_end
    if end is None:
        return out
    for (_t, _pos, start, n) in ref.ctrl:
        if n <= 0 or start >= end or start + n <= end - 16:
            continue
        d = end - max(start, end - 16)
        out.add("16" if d > 8 else "8" if d > 4 else "4")
        if start + n == end:
            out.add("ends_at_end")
        if start == end - 16:
            out.add("starts_at_end_16")
        if start + n > end:
            out.add("crosses_end")
        if start < end - 16:
            out.add("from_below")
    return out


def _gen_once(rng, cc2, nnull, nctl, old_len, align, filler, trailing, uid0, gap, near_end, adjacent=None,
              end_zone=None):
    lay = Layout()
    if adjacent == 4 and cc2 is None:
        cc2 = rng.choice([c for c in CC2_CHOICES if c >= 34] + [rng.randrange(40, 256)])
    lay.cc2 = cc2 if cc2 is not None else rng.choice(CC2_CHOICES + [rng.randrange(6, 256)])
    data_end = lay.data_end = 16 + lay.cc2 * 8
    if trailing is None:
        trailing = rng.choice([0, 4, 4, 8, 16, 20, 32])
    size = data_end + trailing
    if nnull is None:
        nnull = rng.choice([0, 0, 1, 2, 3])
    if nctl is None:
        nlock, nmem = rng.choice([(0, 0), (0, 0), (1, 0), (0, 1), (1, 1), (2, 0), (0, 2), (2, 1), (1, 2), (2, 2)])
    else:
        nlock, nmem = nctl
    if (adjacent or end_zone) and not (nlock + nmem):
        nlock, nmem = rng.choice([(1, 0), (0, 1)])
    kinds = ["null"] * nnull + ["lock"] * nlock + ["mem"] * nmem
    rng.shuffle(kinds)
    if filler is None:
        filler = rng.random() < 0.12
    fill_len = 0
    # gap: bytes directly after the last control TLV of the prefix that this TLV announces as reserved
    if gap is None:
        gap = rng.choice([0, 0, 0, 1, 2, 3, 5]) if (nlock + nmem) else 0
    if not (nlock + nmem) or ((adjacent or end_zone) and nlock + nmem < 2):
        gap = 0
    if gap:
        # the announcing TLV must be the last prefix element, so that every later TLV starts after the gap
        last = max(i for i, k in enumerate(kinds) if k != "null")
        kinds.append(kinds.pop(last))
    prefix_len = nnull + 5 * (nlock + nmem) + gap
    if filler or near_end:
        room = data_end - 16 - prefix_len
        if near_end:
            tail = rng.choice([2, 2, 3, 4, 5, 6, 8])         # bytes left for the NDEF TLV
            fill_total = room - tail
        else:
            fill_total = rng.randrange(2, max(3, min(room - 8, 300)))
        if fill_total >= 2:
            fill_len = fill_total - 2 if fill_total - 2 < 255 else fill_total - 4
            if fill_len < 0 or (fill_total - 4 >= 255) != (fill_len >= 255):
                fill_len = max(0, min(fill_total - 2, 254))
            prefix_len += (2 if fill_len < 255 else 4) + fill_len
            kinds.insert(rng.randrange(len(kinds) + 1) if not gap else 0, "fill")
    if align is not None:
        while (16 + prefix_len) % 4 != align:
            kinds.insert(0, "null")
            prefix_len += 1
    ndef_off = lay.ndef_off = 16 + prefix_len
    if ndef_off + 2 > data_end:
        return None
    protected = set(range(16, min(ndef_off + 4, data_end)))
    # bytes of `protected` the adjacent range may cover: value bytes of the stored 1-byte-length TLV
    adj_ok = set((ndef_off + 2, ndef_off + 3)) if adjacent == 2 else set()
    mem = lay.mem = bytearray(rng.randrange(256) for _ in range(size))
    # header
    u0 = uid0 if uid0 is not None else rng.choice([0x01, 0x02, 0x05, 0x07, 0x1D, 0x2E, 0x9F])
    mem[0] = u0
    mem[3] = 0x88 ^ mem[0] ^ mem[1] ^ mem[2]
    mem[8] = mem[4] ^ mem[5] ^ mem[6] ^ mem[7]
    mem[10:12] = b"\0\0"
    mem[12:16] = bytes([0xE1, rng.choice([0x10, 0x10, 0x11, 0x12]), lay.cc2, 0x00])
    for a in range(data_end, size):
        mem[a] = 0
    # prefix TLVs
    pos = 16
    reserved = lay.reserved
    nctl_total = nlock + nmem
    seen_ctl = 0
    for k in kinds:
        if k == "null":
            mem[pos] = NULL_T
            lay.items.append(["null"])
            pos += 1
            continue
        if k == "fill":
            mem[pos] = PROP_T
            if fill_len < 255:
                mem[pos + 1] = fill_len
                pos += 2 + fill_len
            else:
                mem[pos + 1] = 0xFF
                mem[pos + 2] = fill_len >> 8
                mem[pos + 3] = fill_len & 255
                pos += 4 + fill_len
            lay.items.append(["fill", fill_len])
            continue
        seen_ctl += 1
        t = LOCK_T if k == "lock" else MEM_T
        if k == "lock":
            size_field = rng.choice([1, 4, 8, 9, 12, 16, 24, 32, 64, 0])
            nbytes = ((size_field or 256) + 7) // 8
        else:
            size_field = rng.choice([1, 1, 2, 3, 4, 5, 8, 16, 31, 0])
            nbytes = size_field or 256
        is_gap = bool(gap) and seen_ctl == nctl_total
        placed = None
        if is_gap:
            # reserve exactly the gap bytes following this TLV
            start = pos + 5
            if k == "lock":
                size_field = gap * 8 - rng.randrange(8) if gap * 8 <= 255 else 0
                nbytes = (size_field + 7) // 8
            else:
                size_field = nbytes = gap
            if nbytes == gap and encodings(start):
                placed = (start, "gap")
            else:
                return None
        elif adjacent and seen_ctl == 1:
            start = ndef_off + adjacent
            if not encodings(start) or start >= data_end:
                return None
            placed = (start, "adjacent-len%d" % (adjacent - 1))
        elif end_zone and seen_ctl == (2 if adjacent else 1):
            z = end_zone if end_zone in (16, 8, 4) else rng.choice([16, 8, 4])
            how = rng.choice(["ends-at-end", "ends-at-end", "starts-at-zone", "within", "within", "crosses-end"])
            dist = rng.randrange({16: 9, 8: 5, 4: 1}[z], z + 1)      # first declared byte lies `dist` bytes before the end
            if how == "starts-at-zone":
                dist = z
            start = data_end - dist
            if how == "ends-at-end":
                nbytes = dist
            elif how == "crosses-end":
                nbytes = dist + rng.choice([1, 2, 4, 8])
            else:
                nbytes = rng.randrange(1, dist + 1)
            size_field = nbytes * 8 - rng.randrange(8) if k == "lock" else nbytes
            if not encodings(start) or set(range(start, start + nbytes)) & protected:
                return None
            d = data_end - start
            placed = (start, "end-zone-%d" % (16 if d > 8 else 8 if d > 4 else 4))
            if start + nbytes == data_end:
                lay.tags.add("end-zone-ends-at-end")
            elif start + nbytes > data_end:
                lay.tags.add("end-zone-crosses-end")
            if d == 16:
                lay.tags.add("end-zone-starts-at-end-16")
        else:
            for _try in range(30):
                cls = rng.choice(["head", "inside", "inside", "inside", "tail", "cross-end", "beyond", "beyond"])
                if cls == "head":
                    start = rng.choice([10, 10, 8, 0, 12, 16 - nbytes if nbytes <= 16 else 0])
                    if start < 0 or start + nbytes > 16:
                        continue
                elif cls == "inside":
                    start = pick_addr(rng, ndef_off + 4, max(ndef_off + 5, data_end - nbytes))
                elif cls == "tail":          # the last bytes of the data area
                    start = data_end - nbytes if encodings(data_end - nbytes) else None
                elif cls == "cross-end":
                    start = pick_addr(rng, max(ndef_off + 4, data_end - nbytes + 1), data_end) if nbytes > 1 else None
                else:
                    start = rng.choice([data_end, data_end, data_end + 1, data_end + 4, data_end + 16])
                    if not encodings(start):
                        start = pick_addr(rng, data_end, data_end + 64)
                if start is None or start < 0:
                    continue
                rr = set(range(start, start + nbytes))
                if rr & protected:
                    continue
                placed = (start, cls)
                break
            if placed is None:
                return None
        start, cls = placed
        pa, bo, n = rng.choice(encodings(start))
        if k == "lock":
            b2 = rng.choice([1, 2, 3, 4]) << 4 | n
        else:
            b2 = n
        mem[pos:pos + 5] = bytes([t, 3, pa << 4 | bo, size_field & 255, b2])
        lay.items.append([k, start, nbytes, cls])
        lay.ctrl.append((t, pos, start, nbytes))
        lay.tags.add(cls)
        reserved.update(range(start, start + nbytes))
        pos += 5
        if is_gap:
            pos += gap
    assert pos == ndef_off, (pos, ndef_off, kinds)
    if reserved & (protected - set(range(ndef_off - gap, ndef_off)) - adj_ok):
        return None
    # previous message
    cap = ref_capacity(ndef_off, data_end, reserved)
    if old_len is None:
        old_len = rng.choice([0, 1, 2, 5, 20, 100, 253, 254, 255, 256, 300, cap, cap, cap - 1, rng.randrange(cap + 1)])
    old_len = max(0, min(old_len, cap))
    if adjacent == 2:
        old_len = min(old_len, 254)         # the stored TLV has the 1-byte length the range is adjacent to
    elif adjacent == 4:
        if cap < 255:
            return None
        old_len = max(old_len, 255)
    lay.old = bytes(rng.randrange(256) for _ in range(old_len))
    end = place_ndef(mem, ndef_off, reserved, data_end, lay.old, terminator=rng.random() < 0.75)
    if any(a in reserved for a in range(ndef_off + 4, end)):
        lay.tags.add("in-message")
    if end in reserved or (end - 1) in reserved:
        lay.tags.add("after-message")
    return lay


# ---------------------------------------------------------------------------------------------------------------
# layouts with a reserved range across a sector boundary
SECTOR = 1024


def straddle_starts(boundary=SECTOR):
    """addresses below `boundary` a control TLV can point at and from which a Memory Control TLV (at most 256
    reserved bytes) reaches across the boundary.  (A Lock Control TLV announces at most 32 bytes and no expressible
    address lies that close to a multiple of 1024, so only Memory Control TLVs can straddle a sector boundary.)"""
    return [a for a in range(boundary - 255, boundary) if encodings(a)]


def _fill_prefix(mem, pos, upto, items):
    """proprietary TLVs (and a NULL TLV for a single byte) so that the next TLV starts at `upto`"""
    while pos < upto:
        gap = upto - pos
        if gap == 1:
            mem[pos] = NULL_T
            items.append(["null"])
            pos += 1
            continue
        chunk = min(gap, 256)
        mem[pos] = PROP_T
        mem[pos + 1] = chunk - 2
        items.append(["fill", chunk - 2])
        pos += chunk
    return pos


def straddle_layout(rng, boundary=SECTOR, start=None, end=None, place="before", ndef_off=None, behind=None,
                    cc2=None, trailing=None, uid0=None, terminator=None):
    """well-formed layout with one Memory Control TLV whose reserved range [start, end) begins in the sector below
    `boundary` and ends in the sector above it (start < boundary < end).

    place "before": the NDEF Message TLV starts in front of the range (header not closer than 4 bytes), the stored
                    message has `behind` value bytes behind the range (0: the value ends directly in front of it,
                    negative: -behind usable bytes earlier, "cap": it fills the data area)
    place "behind": the TLV stream continues behind the range: proprietary TLVs fill the bytes in front of it and the
                    NDEF Message TLV starts at `end`; `behind` is the message length
    -> Layout (tags {"sector-straddle"}) or None when the combination cannot be laid out"""
    starts = straddle_starts(boundary)
    if start is None:
        start = rng.choice(starts)
    if end is None:
        end = boundary + rng.choice([1, 2, 3, 4, 5, 8, 12, 16, 20, 33])
    nbytes = end - start
    if start not in starts or not (start < boundary < end) or nbytes > 256:
        return None
    lay = Layout()
    cands = [c for c in ([cc2] if cc2 is not None else [129, 130, 144, 200, 234, 255]) if 16 + 8 * c >= end + 4]
    if not cands:
        return None
    lay.cc2 = rng.choice(cands)
    data_end = lay.data_end = 16 + 8 * lay.cc2
    if trailing is None:
        trailing = rng.choice([0, 4, 16, 32])
    size = data_end + trailing
    if size <= boundary:
        return None
    mem = lay.mem = bytearray(rng.randrange(256) for _ in range(size))
    mem[0] = uid0 if uid0 is not None else rng.choice([0x01, 0x02, 0x05, 0x07, 0x1D, 0x2E, 0x9F])
    mem[3] = 0x88 ^ mem[0] ^ mem[1] ^ mem[2]
    mem[8] = mem[4] ^ mem[5] ^ mem[6] ^ mem[7]
    mem[10:12] = b"\0\0"
    mem[12:16] = bytes([0xE1, 0x10, lay.cc2, 0x00])
    for a in range(data_end, size):
        mem[a] = 0
    pa, bo, n = rng.choice(encodings(start))
    mem[16:21] = bytes([MEM_T, 3, pa << 4 | bo, nbytes & 255, n])
    lay.items.append(["mem", start, nbytes, "sector-straddle"])
    lay.ctrl.append((MEM_T, 16, start, nbytes))
    lay.tags.add("sector-straddle")
    reserved = lay.reserved
    reserved.update(range(start, end))
    if place == "behind":
        # the stream runs up to the range (0..2 NULL TLVs directly in front of it), the NDEF TLV follows it
        nulls = rng.choice([0, 0, 1, 2])
        pos = _fill_prefix(mem, 21, start - nulls, lay.items)
        for _ in range(nulls):
            mem[pos] = NULL_T
            pos += 1
        lay.ndef_off = end
        cap = ref_capacity(end, data_end, reserved)
        ln = cap if behind == "cap" else (rng.choice([0, 1, 5, 16, 40, cap]) if behind is None else behind)
        if ln < 0 or ln > cap:
            return None
    else:
        if ndef_off is None:
            ndef_off = rng.choice([21, 21, start - 4, start - 5, start - 6, start - 7, rng.randrange(21, start - 3)])
        if not 21 <= ndef_off <= start - 4:
            return None
        _fill_prefix(mem, 21, ndef_off, lay.items)
        lay.ndef_off = ndef_off
        cap = ref_capacity(ndef_off, data_end, reserved)
        if behind is None:
            behind = rng.choice([-1, 0, 1, 2, 3, 4, 8, 15, 16, 17, 40, "cap"])
        if behind == "cap":
            ln = cap
        else:
            ln = None
            for hdr in (2, 4):
                x = start - ndef_off - hdr + behind
                if x >= 0 and (x < 255) == (hdr == 2):
                    ln = x
            if ln is None:
                return None
        if ln > cap:
            return None
    lay.old = bytes(rng.randrange(256) for _ in range(ln))
    if terminator is None:
        terminator = rng.random() < 0.75
    place_ndef(mem, lay.ndef_off, reserved, data_end, lay.old, terminator=terminator)
    chk = ref_read(mem)
    assert chk.status == "ndef" and chk.ndef_off == lay.ndef_off and chk.message == lay.old and \
        chk.reserved == reserved, ("straddle layout and reference reader disagree", lay.describe(), chk)
    return lay


# ---------------------------------------------------------------------------------------------------------------
# layouts with a reserved range inside the value of a TLV that PRECEDES the NDEF Message TLV
FILLER_VARIANTS = ("head", "middle", "last-byte-behind", "gap-after")


def filler_layout(rng, cc2=None, variant=None, fill_len=None, trailing=None, uid0=None, old_len=None, second=None,
                  min_capacity=0, attempts=200):
    """well-formed layout: [NULL TLVs] control TLV [NULL TLVs] proprietary TLV (the "filler", 1- or 3-byte length)
    [NULL TLVs] [second control TLV] NDEF Message TLV, where the range [start, start + n) announced by the FIRST control
    TLV lies inside the byte range the filler's value occupies:

      "head"              the range starts directly behind the filler's length field
      "middle"            value bytes in front of and behind the range
      "last-byte-behind"  exactly one value byte of the filler lies behind the range
      "gap-after"         the range starts directly behind the filler's last value byte (the next TLV starts behind it)

    A reader has to jump over the range while it walks the filler, otherwise it takes a value byte of the filler for
    the T byte of the next TLV.  The second control TLV (optional) announces a range inside the NDEF value / at the end
    of / behind the data area.  Tags {"in-filler", "in-filler-<variant>"}.  Everything is verified against ref_read."""
    for _attempt in range(attempts):
        lay = _filler_once(rng, cc2, variant, fill_len, trailing, uid0, old_len, second)
        if lay is None or lay.capacity < min_capacity:
            continue
        chk = ref_read(lay.mem)
        assert chk.status == "ndef" and chk.ndef_off == lay.ndef_off and chk.message == lay.old and \
            chk.reserved == lay.reserved and chk.data_end == lay.data_end, \
            ("filler layout and reference reader disagree", lay.describe(), chk)
        return lay
    raise RuntimeError("no filler layout found for the constraints")


def _filler_once(rng, cc2, variant, fill_len, trailing, uid0, old_len, second):
    lay = Layout()
    lay.cc2 = cc2 if cc2 is not None else rng.choice([12, 16, 18, 31, 32, 34, 62, 64, 109, 126, 127, 128, 129, 160, 200,
                                                      234, 255, rng.randrange(10, 256)])
    data_end = lay.data_end = 16 + lay.cc2 * 8
    if trailing is None:
        trailing = rng.choice([0, 4, 4, 8, 16, 32])
    size = data_end + trailing
    variant = variant or rng.choice(FILLER_VARIANTS)
    nulls0, nulls1, nulls2 = rng.choice([0, 0, 1, 2]), rng.choice([0, 0, 1, 2, 3]), rng.choice([0, 0, 1])
    kind = rng.choice([LOCK_T, MEM_T])
    if kind == LOCK_T:
        size_field = rng.choice([1, 4, 8, 9, 12, 16, 24, 32, 64])
        rn = (size_field + 7) // 8
    else:
        size_field = rn = rng.choice([1, 1, 2, 3, 4, 5, 8, 16, 31])
    room = data_end - 16 - nulls0 - 5 - nulls1 - nulls2 - rn - (5 if second else 0) - 6
    if room < 8:
        return None
    if fill_len is None:
        fill_len = rng.choice([3, 5, 9, 20, 60, 200, 253, 254, 255, 256, 300, 700, 1100, rng.randrange(3, 1200)])
    F = max(3, min(fill_len, room - 4))
    h = 2 if F < 255 else 4
    fpos = 16 + nulls0 + 5 + nulls1
    vs = fpos + h
    if variant == "head":
        rs = vs
    elif variant == "middle":
        rs = vs + rng.randrange(1, F - 1)
    elif variant == "last-byte-behind":
        rs = vs + F - 1
    else:
        rs = vs + F
    if not encodings(rs):
        # shift the whole stream by NULL TLVs / shorten the filler so that the address can be expressed
        ok = False
        for d in range(1, 16):
            if variant in ("middle",) and rs - d > vs and encodings(rs - d):
                rs -= d
                ok = True
                break
            if variant != "middle" and F - d >= 3 and (F - d < 255) == (F < 255) and encodings(rs - d) and variant != "head":
                F -= d
                rs -= d
                ok = True
                break
        if not ok:
            return None
    if rs + rn + 4 > data_end:
        return None
    reserved = lay.reserved
    reserved.update(range(rs, rs + rn))
    mem = lay.mem = bytearray(rng.randrange(256) for _ in range(size))
    mem[0] = uid0 if uid0 is not None else rng.choice([0x01, 0x02, 0x05, 0x07, 0x1D, 0x2E, 0x9F])
    mem[3] = 0x88 ^ mem[0] ^ mem[1] ^ mem[2]
    mem[8] = mem[4] ^ mem[5] ^ mem[6] ^ mem[7]
    mem[10:12] = b"\0\0"
    mem[12:16] = bytes([0xE1, rng.choice([0x10, 0x10, 0x11]), lay.cc2, 0x00])
    for a in range(data_end, size):
        mem[a] = 0
    pos = 16
    for _ in range(nulls0):
        mem[pos] = NULL_T
        lay.items.append(["null"])
        pos += 1
    pa, bo, n = rng.choice(encodings(rs))
    b2 = (rng.choice([1, 2, 3, 4]) << 4 | n) if kind == LOCK_T else n
    mem[pos:pos + 5] = bytes([kind, 3, pa << 4 | bo, size_field & 255, b2])
    lay.items.append(["lock" if kind == LOCK_T else "mem", rs, rn, "in-filler-" + variant])
    lay.ctrl.append((kind, pos, rs, rn))
    pos += 5
    for _ in range(nulls1):
        mem[pos] = NULL_T
        lay.items.append(["null"])
        pos += 1
    assert pos == fpos
    mem[pos] = PROP_T
    if F < 255:
        mem[pos + 1] = F
    else:
        mem[pos + 1:pos + 4] = bytes([0xFF, F >> 8, F & 255])
    lay.items.append(["fill", F])
    # the filler's value: bytes that a reader which does NOT jump over the range would take for TLVs (03h / FEh / 01h)
    p = vs
    placed = 0
    last = None
    while placed < F:
        if p >= data_end:
            return None
        if p not in reserved:
            mem[p] = rng.choice([0x03, 0xFE, 0x00, 0x01, 0x02, 0xFF, rng.randrange(256)])
            last = p
            placed += 1
        p += 1
    while p in reserved:
        p += 1
    behind = sum(1 for a in range(rs + rn, (last or 0) + 1) if a not in reserved)
    if variant == "last-byte-behind" and behind != 1:
        return None
    if variant == "gap-after" and (last is None or rs != last + 1):
        return None
    if variant in ("head", "middle") and behind < 1:
        return None
    pos = p
    for _ in range(nulls2):
        if pos in reserved:
            return None
        mem[pos] = NULL_T
        lay.items.append(["null"])
        pos += 1
    if second:
        t2 = rng.choice([LOCK_T, MEM_T])
        if t2 == LOCK_T:
            sf2 = rng.choice([1, 8, 9, 16, 24])
            n2 = (sf2 + 7) // 8
        else:
            sf2 = n2 = rng.choice([1, 2, 3, 4, 8])
        ndef_off = pos + 5
        cls = rng.choice(["inside", "inside", "tail", "beyond"])
        if cls == "inside":
            s2 = pick_addr(rng, ndef_off + 4, max(ndef_off + 5, data_end - n2))
        elif cls == "tail":
            s2 = data_end - n2 if encodings(data_end - n2) and data_end - n2 >= ndef_off + 4 else None
        else:
            s2 = pick_addr(rng, data_end, data_end + 64)
        if s2 is None or set(range(s2, s2 + n2)) & set(range(16, ndef_off + 4)):
            return None
        pa, bo, n = rng.choice(encodings(s2))
        mem[pos:pos + 5] = bytes([t2, 3, pa << 4 | bo, sf2, (rng.choice([1, 2]) << 4 | n) if t2 == LOCK_T else n])
        lay.items.append(["lock" if t2 == LOCK_T else "mem", s2, n2, cls])
        lay.ctrl.append((t2, pos, s2, n2))
        lay.tags.add(cls)
        reserved.update(range(s2, s2 + n2))
        pos += 5
    ndef_off = lay.ndef_off = pos
    if ndef_off + 2 > data_end or any(a in reserved for a in range(ndef_off, min(ndef_off + 4, data_end))):
        return None
    cap = ref_capacity(ndef_off, data_end, reserved)
    if old_len is None:
        old_len = rng.choice([0, 1, 5, 20, 100, 254, 255, 300, cap, cap - 1, rng.randrange(cap + 1)])
    old_len = max(0, min(old_len, cap))
    lay.old = bytes(rng.randrange(256) for _ in range(old_len))
    place_ndef(mem, ndef_off, reserved, data_end, lay.old, terminator=rng.random() < 0.75)
    lay.tags.update(["in-filler", "in-filler-" + variant])
    return lay


# ---------------------------------------------------------------------------------------------------------------
# images that an interrupted write leaves behind
CUT_STATE_VARIANTS = ("len0-stale-long-length", "len0-new-long-length", "len0-partial-short", "ff-0000-partial")


def cut_state(rng, mem, variant=None):
    """turn a well-formed image with a stored NDEF message into one of the states an interrupted three-phase write
    leaves behind: the length of the NDEF Message TLV is zero, behind it lie stale / partially written bytes and no
    Terminator TLV where a reader would look for one.  All of them are well-formed (an empty NDEF Message TLV; whatever
    follows it is not interpreted).
        len0-stale-long-length   03 00 hi lo <old value ...>          (the stored TLV had a 3-byte length, FFh zeroed)
        len0-new-long-length     03 00 hi' lo' <part of a new value>  (hi' lo' = a length >= 255, written before FFh)
        len0-partial-short       03 00 <part of a new value> <rest of the old one>
        ff-0000-partial          03 FF 00 00 <part of a new value>    (3-byte form of the empty TLV, non-canonical)
    -> (bytearray image, variant)"""
    mem = bytearray(mem)
    r = ref_read(mem)
    assert r.status == "ndef"
    off = r.ndef_off
    variant = variant or rng.choice(CUT_STATE_VARIANTS)
    room = [a for a in range(off + 2, min(r.data_end, len(mem))) if a not in r.reserved]
    if len(room) < 6 or any(a in r.reserved for a in range(off, off + 4)):
        variant = "len0-partial-short"
    if len(room) < 1:
        mem[off + 1] = 0
        return mem, variant
    hdr = 2
    if variant == "len0-stale-long-length":
        ln = rng.choice([255, 256, 300, 0x0101, 0xFFFF, rng.randrange(255, 65536)])
        mem[off + 1:off + 4] = bytes([0, ln >> 8, ln & 255])
        hdr = 4
    elif variant == "len0-new-long-length":
        ln = rng.choice([255, 256, 300, rng.randrange(255, 2000)])
        mem[off + 1:off + 4] = bytes([0, ln >> 8, ln & 255])
        hdr = 4
    elif variant == "ff-0000-partial":
        mem[off + 1:off + 4] = b"\xFF\x00\x00"
        hdr = 4
    else:
        mem[off + 1] = 0
    part = [a for a in room if a >= off + hdr]
    for a in part[:rng.randrange(0, len(part) + 1)]:
        mem[a] = rng.choice([rng.randrange(256), rng.randrange(256), 0x03, 0xFE, 0xFF])
    chk = ref_read(mem)
    assert chk.status == "ndef" and chk.message == b"" and chk.ndef_off == off, (variant, chk)
    return mem, variant
