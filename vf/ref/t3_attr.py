"""NFC Forum Type 3 Tag attribute information block: codec, checksum and reference reader.

Written from the Type 3 Tag Operation Specification (attribute information block format, NDEF detection and read
procedure), not from nfcpy.

    byte 0      Ver      mapping version, major nibble / minor nibble
    byte 1      Nbr      blocks readable with one Check (Read Without Encryption) command
    byte 2      Nbw      blocks writable with one Update (Write Without Encryption) command
    byte 3..4   Nmaxb    number of blocks available for NDEF data (big endian)
    byte 5..8   RFU
    byte 9      WriteF   00h finished / 0Fh write in progress
    byte 10     RWFlag   00h read only / 01h read-write
    byte 11..13 Ln       NDEF data length in bytes (big endian)
    byte 14..15 checksum = sum of bytes 0..13 (big endian)
"""

SUPPORTED_MAJOR = 1


def checksum(block14):
    return sum(bytes(block14[0:14])) & 0xFFFF


def encode(ver=0x10, nbr=1, nbw=1, nmaxb=1, writef=0, rwflag=1, ln=0, rfu=b"\0\0\0\0", bad_checksum=False):
    b = bytearray(16)
    b[0] = ver & 0xFF
    b[1] = nbr & 0xFF
    b[2] = nbw & 0xFF
    b[3] = (nmaxb >> 8) & 0xFF
    b[4] = nmaxb & 0xFF
    b[5:9] = bytes(rfu)[0:4].ljust(4, b"\0")
    b[9] = writef & 0xFF
    b[10] = rwflag & 0xFF
    b[11] = (ln >> 16) & 0xFF
    b[12] = (ln >> 8) & 0xFF
    b[13] = ln & 0xFF
    cs = checksum(b)
    if bad_checksum:
        cs = (cs + 1) & 0xFFFF
    b[14] = cs >> 8
    b[15] = cs & 0xFF
    return bytes(b)


def decode(block):
    """dict of the fields plus 'checksum_ok'; block must be 16 bytes"""
    block = bytes(block)
    assert len(block) == 16
    return {
        "ver": block[0], "nbr": block[1], "nbw": block[2], "nmaxb": block[3] << 8 | block[4],
        "rfu": block[5:9], "writef": block[9], "rwflag": block[10],
        "ln": block[11] << 16 | block[12] << 8 | block[13],
        "checksum": block[14] << 8 | block[15],
        "checksum_ok": checksum(block) == (block[14] << 8 | block[15]),
    }


def ref_capacity(attr):
    """what the layout can hold: Nmaxb blocks of 16 bytes"""
    return attr["nmaxb"] * 16


def ref_read(get_block):
    """Reference NDEF reader over raw memory.  get_block(n) -> 16 bytes or None (block does not exist).

    returns (state, octets, attr)
      state "invalid"       no usable attribute block (missing, checksum, version, inconsistent Ln/Nmaxb)
            "not_readable"  WriteF set (write in progress / interrupted) or Nbr = 0
            "ok"            octets = NDEF message bytes (possibly empty)
    """
    b0 = get_block(0)
    if b0 is None:
        return "invalid", None, None
    a = decode(b0)
    if not a["checksum_ok"]:
        return "invalid", None, a
    if a["ver"] >> 4 != SUPPORTED_MAJOR:
        return "invalid", None, a
    if a["ln"] > a["nmaxb"] * 16:
        return "invalid", None, a
    if a["writef"] != 0x00 or a["nbr"] == 0:
        return "not_readable", None, a
    out = bytearray()
    for n in range(1, 1 + (a["ln"] + 15) // 16):
        blk = get_block(n)
        if blk is None:
            return "invalid", None, a
        out += blk
    return "ok", bytes(out[0:a["ln"]]), a


def selftest():
    bad = []
    H = bytes.fromhex
    # attribute blocks found in tests/test_tag_tt3.py
    for raw in ("10010100050000000000010000100028", "1002020003000000000001000027003f",
                "10020200030000000000000000000017", "1f0f0cffff0000000000010000000239"):
        a = decode(H(raw))
        if not a["checksum_ok"]:
            bad.append("checksum " + raw)
        re = encode(a["ver"], a["nbr"], a["nbw"], a["nmaxb"], a["writef"], a["rwflag"], a["ln"])
        if re != H(raw):
            bad.append("encode " + raw + " -> " + re.hex())
    if decode(H("2002020003000000000001000027003f"))["checksum_ok"]:
        bad.append("bad checksum accepted")
    return bad
