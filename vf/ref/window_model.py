"""Sliding-window reference for ONE LLCP data link connection (LLCP 1.3, 5.6 connection-oriented transport).

Fed with the leaf PDUs of that connection as *seen on the wire*, decoded by vf.ref.llcp_ref (never nfcpy's state):
    m = WindowModel(); problems = m.feed("A", d)      # "A"/"B" = the end that transmitted d
feed() returns the clauses d breaks as (clause, detail) pairs:
    pdu-before-cc          I/RR/RNR PDU on the wire before the CC that completes the connection set-up
    ns-not-consecutive     N(S) of an I PDU is not the sender's previous N(S) + 1 mod 16 (first one 0)
    outstanding>rw         an I PDU is transmitted while RW(receiver) I PDUs of this sender are unacknowledged
    i-exceeds-miu          information field longer than the MIU the receiver announced
    nr-acks-unsent         N(R) acknowledges more I PDUs than are outstanding (covers N(R) going backwards)
    frmr                   a frame reject on a run in which both ends are supposed to conform
RW and MIU of an end are taken from its own CONNECT / CC.
"""


class WindowModel:
    def __init__(self):
        self.rw, self.miu = {}, {}              # announced by that end (its receive side)
        self.vs = {"A": 0, "B": 0}              # next N(S) expected from that sender
        self.va = {"A": 0, "B": 0}              # last N(R) the peer acknowledged to that sender
        self.sent = {"A": 0, "B": 0}            # I PDUs transmitted / acknowledged so far (cumulative)
        self.acked = {"A": 0, "B": 0}
        self.maxout = {"A": 0, "B": 0}
        self.wraps = self.full = 0              # N(S) wrap-arounds, transmissions that filled the window
        self.established = self.closed = False

    def outstanding(self, x):
        return (self.vs[x] - self.va[x]) % 16

    def feed(self, x, d):
        y, t, bad = ("B" if x == "A" else "A"), d["t"], []
        if self.closed or t not in ("CONNECT", "CC", "DISC", "DM", "FRMR", "I", "RR", "RNR"):
            return bad
        if t in ("CONNECT", "CC"):
            self.rw[x], self.miu[x] = d["rw"], d["miu"]
            self.established = t == "CC"
        elif t in ("DISC", "DM"):
            self.closed = True
        elif t == "FRMR":
            bad.append(("frmr", "flags=%x ptype=%d" % (d["rej_flags"], d["rej_ptype"])))
            self.closed = True
        elif not self.established:
            bad.append(("pdu-before-cc", "%s from %s before the CC" % (t, x)))
        else:
            if t == "I":
                out = self.outstanding(x)
                if d["ns"] != self.vs[x]:
                    bad.append(("ns-not-consecutive", "N(S)=%d expected %d" % (d["ns"], self.vs[x])))
                if out >= self.rw[y]:
                    bad.append(("outstanding>rw", "%d outstanding + this one, RW(%s)=%d" % (out, y, self.rw[y])))
                if len(d["data"]) > self.miu[y]:
                    bad.append(("i-exceeds-miu", "%d > MIU(%s)=%d" % (len(d["data"]), y, self.miu[y])))
                self.vs[x] = (d["ns"] + 1) % 16
                self.sent[x] += 1
                self.wraps += self.vs[x] == 0
                self.full += out + 1 == self.rw[y]
                self.maxout[x] = max(self.maxout[x], out + 1)
            adv = (d["nr"] - self.va[y]) % 16          # I, RR, RNR acknowledge the peer's I PDUs
            if adv > self.outstanding(y):
                bad.append(("nr-acks-unsent", "N(R)=%d, V(SA)=%d, peer sent up to %d" % (d["nr"], self.va[y], self.vs[y])))
            else:
                self.va[y] = d["nr"]
                self.acked[y] += adv
        return bad
