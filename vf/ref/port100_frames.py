"""Independent validator / encoder for Sony NFC Port-100 (RC-S380) host-link frames.

Written from the frame format, not from nfcpy:

    command / response frame (always the "extended" layout)
        00            preamble
        00 FF         start of packet
        FF FF         extended-frame marker
        LEN_lo LEN_hi number of data bytes, 16 bit little endian
        LCS           length checksum:  (LEN_lo + LEN_hi + LCS) mod 256 == 0
        data[LEN]     data[0] = D6h host->device, D7h device->host; data[1] = command code (even) for a
                      command, command code + 1 (odd) for its response; the rest is the payload
        DCS           data checksum:    (sum(data) + DCS) mod 256 == 0
        00            postamble
    ACK frame         00 00 FF 00 FF 00   (both directions; host->device it aborts the running command)

A frame is exactly one USB bulk transfer, so the frame length must agree with LEN: len(frame) == LEN + 10.
"""

ACK = bytes.fromhex("0000ff00ff00")
HEADER = bytes.fromhex("0000ffffff")
HOST_TO_DEVICE = 0xD6
DEVICE_TO_HOST = 0xD7
MAX_LEN = 0xFFFF

#: rule names returned by check_frame(); every one is a separate clause of the format above
RULES = ("too-short", "preamble", "start-code", "ext-marker", "len-mismatch", "lcs", "dcs", "postamble",
         "direction", "code-parity", "code-unexpected", "no-code")


def encode(data):
    """the frame for the data bytes (direction byte included in data)"""
    data = bytes(data)
    n = len(data)
    if n > MAX_LEN:
        raise ValueError("data too long for a Port-100 frame")
    lo, hi = n % 256, n // 256
    lcs = (0x100 - ((lo + hi) % 256)) % 256
    dcs = 0
    for b in data:
        dcs = (dcs + b) % 256
    dcs = (0x100 - dcs) % 256
    return HEADER + bytes((lo, hi, lcs)) + data + bytes((dcs, 0))


def command(code, payload=b""):
    return encode(bytes((HOST_TO_DEVICE, code)) + bytes(payload))


def response(code, payload=b""):
    """response frame to the command with this code"""
    return encode(bytes((DEVICE_TO_HOST, (code + 1) % 256)) + bytes(payload))


def check_frame(frame, direction=None, code=None):
    """-> (errors, info).  errors: list of violated rule names (empty = well formed).
    info: {"kind": "ack"} or {"kind": "data", "len": LEN field, "data": bytes (lenient: the LEN bytes after the
    8 byte header if the frame holds that many, else everything between header and the 2 byte trailer),
    "dir": data[0], "code": data[1], "payload": data[2:]}.
    direction: expected first data byte (D6h/D7h) or None; code: expected second data byte or None."""
    frame = bytes(frame)
    if frame == ACK:
        return [], {"kind": "ack"}
    errors = []
    info = {"kind": "data", "len": None, "data": b"", "dir": None, "code": None, "payload": b""}
    if len(frame) < 10:
        errors.append("too-short")
    if frame[0:1] != b"\x00":
        errors.append("preamble")
    if frame[1:3] != b"\x00\xff":
        errors.append("start-code")
    if frame[3:5] != b"\xff\xff":
        errors.append("ext-marker")
    if len(frame) >= 8:
        lo, hi, lcs = frame[5], frame[6], frame[7]
        info["len"] = lo + 256 * hi
        if (lo + hi + lcs) % 256 != 0:
            errors.append("lcs")
        if info["len"] + 10 != len(frame):
            errors.append("len-mismatch")
    if len(frame) >= 10:
        data = frame[8:-2]
        if (sum(data) + frame[-2]) % 256 != 0:
            errors.append("dcs")
        if frame[-1] != 0:
            errors.append("postamble")
        if "len-mismatch" in errors and 8 + info["len"] <= len(frame):
            data = frame[8:8 + info["len"]]          # lenient reading for the simulator
        info["data"] = data
        if len(data) >= 1:
            info["dir"] = data[0]
            if direction is not None and data[0] != direction:
                errors.append("direction")
        if len(data) >= 2:
            info["code"] = data[1]
            info["payload"] = data[2:]
            want_odd = 1 if (direction if direction is not None else data[0]) == DEVICE_TO_HOST else 0
            if data[0] in (HOST_TO_DEVICE, DEVICE_TO_HOST) and data[1] % 2 != want_odd:
                errors.append("code-parity")
            if code is not None and data[1] != code:
                errors.append("code-unexpected")
        else:
            errors.append("no-code")
    return errors, info


def check_command_frame(frame, code=None):
    """a frame the host writes: ACK or a D6h command frame"""
    return check_frame(frame, HOST_TO_DEVICE, code)


def check_response_frame(frame, cmd_code=None):
    """a frame the device sends: ACK or the D7h response to cmd_code"""
    return check_frame(frame, DEVICE_TO_HOST, None if cmd_code is None else (cmd_code + 1) % 256)


def selftest():
    """literal frames (hand computed / as they appear in public driver sources and the repository's tests)"""
    assert encode(b"12") == bytes.fromhex("0000ffffff0200fe31329d00")
    assert command(0x2A, b"\x01") == bytes.fromhex("0000ffffff0300fdd62a01ff00")
    assert command(0x20) == bytes.fromhex("0000ffffff0200fed6200a00")
    assert response(0x20, bytes.fromhex("1101")) == bytes.fromhex("0000ffffff0400fcd7211101f600")
    assert check_command_frame(ACK) == ([], {"kind": "ack"})
    e, i = check_command_frame(bytes.fromhex("0000ffffff0300fdd62a01ff00"), 0x2A)
    assert e == [] and i["payload"] == b"\x01" and i["code"] == 0x2A and i["len"] == 3, (e, i)
    long = command(0x04, bytes(300))
    assert long[5:8] == bytes((0x2E, 0x01, 0xD1)) and check_command_frame(long)[0] == []
    for bad, rule in ((bytes.fromhex("0000ffffff0300fcd62a01ff00"), "lcs"),
                      (bytes.fromhex("0000ffffff0300fdd62a01fe00"), "dcs"),
                      (bytes.fromhex("0000ffffff0300fdd62a01ff01"), "postamble"),
                      (bytes.fromhex("0000ffffff0003fdd62a01ff00"), "len-mismatch"),
                      (bytes.fromhex("0100ffffff0300fdd62a01ff00"), "preamble"),
                      (bytes.fromhex("0000ffffff0300fdd72a01fe00"), "direction"),
                      (bytes.fromhex("0000ffffff0300fdd62b01fe00"), "code-parity"),
                      (bytes.fromhex("0000ffffff"), "too-short")):
        assert rule in check_command_frame(bad)[0], (bad.hex(), rule, check_command_frame(bad))
    # every single-bit corruption of a valid frame is rejected
    good = command(0x04, bytes(range(20)))
    for pos in range(len(good)):
        for bit in range(8):
            m = bytearray(good)
            m[pos] ^= 1 << bit
            assert check_command_frame(bytes(m), 0x04)[0], (pos, bit)
    return True
