"""Type 1 Tag NDEF mapping: layout generator, reference reader and capacity calculator.

Written from the NFC Forum Type 1 Tag Operation specification (memory maps, TLV blocks, NDEF detection and read
procedure); deliberately independent of nfc/tag/tt1.py.

Memory map (byte addresses, 8-byte blocks):
  0..7     block 0    UID0-6 + one reserved byte (read only)
  8..11               capability container: NMN (E1h), VNo (major.minor nibbles), TMS ((TMS+1)*8 = size of the data
                      area counted from byte 0), RWA (00h read/write, 0Fh read only)
  12..103             TLV area of static memory / first part of the TLV area of dynamic memory
  104..111 block Dh   reserved for internal use
  112..119 block Eh   LOCK0 LOCK1 OTP0-5 (one-way bits)
  120..127 block Fh   (dynamic memory) lock / reserved bytes
  128..               (dynamic memory) TLV area continues, segment-wise (128 bytes)

TLV blocks: T (1 byte), L (1 byte, or FFh + 2 bytes big endian for 255..65534), V.  NULL (00h) and
Terminator (FEh) have no L/V.  Lock Control (01h, L=3) and Memory Control (02h, L=3) TLVs declare byte ranges
that are not part of the TLV area: Position = PageAddr(hi nibble)*2^BytesPerPage + ByteOffset(lo nibble),
Size (lock: in bits, memory control: in bytes; 0 means 256), page control byte: lo nibble BytesPerPage
(exponent), hi nibble BytesLockedPerLockBit (exponent).  Bytes 104..119 are never part of the TLV area.

Domain restriction (listed as an assumption of the checks): in dynamic memory block Fh (120..127) is treated
as lock/reserved bytes whether or not control TLVs announce it (the specification's dynamic memory map figure
labels it so and the only product, Topaz-512, announces it: 01 03 F2 30 33 / 02 03 F0 02 03).
"""

NULL_T, LOCK_T, MEM_T, NDEF_T, PROP_T, TERM_T = 0x00, 0x01, 0x02, 0x03, 0xFD, 0xFE
TOPAZ512_TLVS = bytes.fromhex("0103F230330203F00203")


def ctl_position(v):
    return (v[0] >> 4) * (1 << (v[2] & 0x0F)) + (v[0] & 0x0F)


def lock_range(v):
    """Lock Control TLV: Size is the number of lock BITS (0 = 256); the lock area is the bytes that hold them, i.e. a
    partially used last byte belongs to it: ceil(bits / 8) bytes"""
    bits = v[1] if v[1] else 256
    s = ctl_position(v)
    return range(s, s + (bits + 7) // 8)


def mem_range(v):
    n = v[1] if v[1] else 256
    s = ctl_position(v)
    return range(s, s + n)


def static_reserved(dynamic, block_f=True):
    return set(range(104, 128 if (dynamic and block_f) else 120))


def capacity_of(nfree):
    """largest message length whose TLV (T + L + V) fits into nfree bytes"""
    short = min(nfree - 2, 254)
    long_ = nfree - 4 if nfree - 4 >= 255 else -1
    return max(short, long_, 0)


class Ref(object):
    """result of the reference reader"""
    status = None          # proprietary | no-cc | bad-version | no-ndef-tlv | invalid | ndef
    why = ""
    data_size = 0
    dynamic = False
    readable = writeable = False
    reserved = None
    offset = None          # address of the NDEF TLV's T byte
    length = None
    fmt = None             # 1 or 3 length bytes
    addrs = None           # addresses of the value bytes
    octets = None
    free = None            # non reserved addresses from offset to the end of the data area
    capacity = None
    tlvs = None            # [(T, address)]
    ranges = None          # [(kind "lock"|"mem", first address, number of bytes)] declared by the control TLVs read
    self_ref = False       # a control TLV declares bytes of its own T/L/V field: no consistent reading of the layout
    prior_spans = False    # a TLV in front of the NDEF TLV has a value that jumps over reserved bytes

    def __repr__(self):
        return "Ref(%s off=%s len=%s cap=%s %s)" % (self.status, self.offset, self.length, self.capacity, self.why)


def ref_read(mem, hr0, block_f=True, limit=2048):
    """NDEF detection + read on a raw memory image, following the specification's procedure"""
    r = Ref()
    r.tlvs = []
    r.ranges = []
    if hr0 >> 4 != 1:
        r.status = "proprietary"
        return r
    if len(mem) < 120 or mem[8] != 0xE1:
        r.status = "no-cc"
        return r
    if mem[9] >> 4 != 1:
        r.status = "bad-version"
        return r
    r.dynamic = (hr0 & 0x0F) != 1
    r.data_size = (mem[10] + 1) * 8
    r.readable = (mem[11] >> 4) == 0
    r.writeable = (mem[11] & 0x0F) == 0
    reserved = static_reserved(r.dynamic and r.data_size > 120, block_f)
    r.reserved = reserved
    end = r.data_size

    class Bad(Exception):
        pass

    def nf(p):
        while p in reserved:
            p += 1
        return p

    def rd(p):
        if p >= end:
            raise Bad("TLV byte at %d beyond the data area (%d)" % (p, end))
        if p >= len(mem):
            raise Bad("TLV byte at %d beyond the physical memory (%d)" % (p, len(mem)))
        return mem[p]

    pos = 12
    try:
        while True:
            p = nf(pos)
            if p >= end or p >= len(mem):
                r.status = "no-ndef-tlv"
                return r
            t = mem[p]
            r.tlvs.append((t, p))
            if t == NULL_T:
                pos = p + 1
                continue
            if t == TERM_T:
                r.status = "no-ndef-tlv"
                return r
            p1 = nf(p + 1)
            ln = rd(p1)
            q = p1 + 1
            fmt = 1
            if ln == 0xFF:
                p2 = nf(q)
                p3 = nf(p2 + 1)
                ln = rd(p2) << 8 | rd(p3)
                q = p3 + 1
                fmt = 3
            addrs = []
            a = q
            for _ in range(ln):
                a = nf(a)
                if a >= end or a >= len(mem):
                    raise Bad("value of TLV %02Xh at %d (length %d) runs beyond the data area" % (t, p, ln))
                addrs.append(a)
                a += 1
            val = bytes(mem[x] for x in addrs)
            if t != NDEF_T and addrs and addrs[-1] - addrs[0] + 1 != len(addrs):
                r.prior_spans = True
            if t in (LOCK_T, MEM_T):
                if ln != 3:
                    raise Bad("control TLV with length %d" % ln)
                rng_ = lock_range(val) if t == LOCK_T else mem_range(val)
                r.ranges.append(("lock" if t == LOCK_T else "mem", rng_.start, len(rng_)))
                if rng_.start <= addrs[-1] and rng_.stop > p:
                    r.self_ref = True
                reserved.update(x for x in rng_ if x < limit)
            elif t == NDEF_T:
                r.status = "ndef"
                r.offset, r.length, r.fmt, r.addrs, r.octets = p, ln, fmt, addrs, val
                r.free = [x for x in range(p, min(end, limit)) if x not in reserved]
                r.capacity = capacity_of(len(r.free))
                return r
            pos = a
    except Bad as e:
        r.status = "invalid"
        r.why = str(e)
        return r


# ---------------------------------------------------------------------------------------------------
# layout generator
# ---------------------------------------------------------------------------------------------------
def snap(target, rng=None):
    """nearest address <= target that a control TLV can express, with its (position byte, BytesPerPage exponent)"""
    target = max(0, target)
    e = 0
    while (15 << e) + 15 < target:
        e += 1
    if rng is not None and rng.random() < 0.3:
        # any larger page size that still expresses the address exactly is just as good
        bigger = [x for x in range(e, 12) if (target - ((target >> x) << x)) <= 15 and (target >> x) <= 15]
        if bigger:
            e = rng.choice(bigger)
    page = min(target >> e, 15)
    offs = min(15, target - (page << e))
    return (page << e) + offs, page << 4 | offs, e


class Layout(object):
    def __init__(self):
        self.image = None
        self.hr0 = self.hr1 = 0
        self.phys = self.data_size = 0
        self.dynamic = False
        self.oneway = set()
        self.reserved = set()
        self.ranges = []          # (kind, start, nbytes, requested class)
        self.offset = None
        self.old = b""
        self.capacity = 0
        self.free = []
        self.adjacent_len = None
        self.nulls = 0
        self.prop_tlv = False
        self.hdr_declared_on_header = False   # (= len3_outside; kept for older callers)
        self.len1_outside = False  # a DECLARED range lies between the T byte and the 1-byte length field
        self.len3_outside = False  # a DECLARED range lies between the T byte and the last byte of the 3-byte length field
        self.behind_length = 0    # 2 | 4: a declared range starts directly behind the 1-byte / 3-byte length field
        self.free_target = None   # requested number of usable bytes from the T byte on (reached iff == len(free))
        self.hdr_straddle = 0     # NDEF TLV T byte this many usable bytes in front of blocks Dh..Fh (0: header contiguous)

    def length_field_on_reserved(self, n):
        """storing an n byte message needs a TLV header (T + 1 or 3 length bytes) that spans a DECLARED reserved range:
        such a (layout, length) pair is outside the layouts the tag properties quantify over ('reserved ranges anywhere
        except on the NDEF TLV's tag and length-field bytes'); the fixed blocks Dh..Fh inside the header do not count"""
        return self.len1_outside if n < 255 else self.len3_outside

    @property
    def max_len(self):
        """largest message length of this layout that lies inside the quantifier"""
        if self.len1_outside:
            return -1
        return min(self.capacity, 254) if self.len3_outside else self.capacity

    def value_addrs(self, n):
        """addresses the value bytes of a message of length n occupy, and the terminator address (or None)"""
        hdr = 2 if n < 255 else 4
        body = self.free[hdr:hdr + n]
        term = self.free[hdr + n] if hdr + n < len(self.free) else None
        return body, term

    def classify_ranges(self, n):
        """where the declared ranges lie relative to a message of length n: set of class names"""
        body, term = self.value_addrs(n)
        first = self.offset
        last = body[-1] if body else self.offset + 1
        out = set()
        for kind, s, nb, _ in self.ranges:
            e = s + nb - 1
            if e < 12:
                out.add("below-tlv-area")
            elif s >= self.data_size:
                out.add("beyond-data-area")
            elif e < first:
                out.add("before")
            elif s > last:
                out.add("directly-after" if all(x in self.reserved for x in range(last + 1, s)) else "after")
                if e >= self.data_size - 1:
                    out.add("at-end-of-data-area")
            else:
                out.add("inside")
        return out

    def describe(self):
        return {"image": bytes(self.image), "hr0": self.hr0, "hr1": self.hr1, "oneway": sorted(self.oneway)}


def place_message(image, free, msg, terminator=True):
    """reference writer: NDEF TLV + value + optional terminator at the (non reserved) addresses in free"""
    n = len(msg)
    hdr = bytes([NDEF_T, n]) if n < 255 else bytes([NDEF_T, 0xFF, n >> 8, n & 0xFF])
    need = len(hdr) + n
    assert need <= len(free), (need, len(free))
    for a, b in zip(free, hdr + bytes(msg)):
        image[a] = b
    if terminator and need < len(free):
        image[free[need]] = TERM_T


def _finish(L, rng, image, old_len, terminator):
    cap = L.capacity
    if old_len == "zero":
        n = 0
    elif old_len == "short":
        n = rng.randrange(1, min(cap, 254) + 1) if cap >= 1 else 0
    elif old_len == "long":
        n = rng.randrange(255, cap + 1) if cap >= 255 else cap
    elif old_len is None:
        n = rng.choice([0, 1, min(cap, 254), min(cap, 255), cap, rng.randrange(cap + 1), rng.randrange(cap + 1)])
    else:
        n = min(int(old_len), cap)
    if L.len3_outside:
        n = min(n, 254)
    L.old = rng.randbytes(n)
    place_message(image, L.free, L.old, terminator)
    L.image = bytes(image)
    return L


def _base_image(rng, phys, tms, fill=None):
    image = bytearray(rng.randbytes(phys)) if fill is None else bytearray([fill]) * phys
    image[0:7] = rng.randbytes(7)
    image[7] = 0
    image[8:12] = bytes([0xE1, 0x10, tms, 0x00])
    image[112] = image[113] = 0          # no block locked
    return image


def gen_static(rng, nulls=None, prop=None, old_len=None, hr1=None, terminator=None, tms=None):
    """tms: CC byte 2 (0Eh = the whole 120 byte memory; smaller: the data area ends in front of the loaded memory;
    "small": a random value 02h..0Dh)"""
    L = Layout()
    L.phys = L.data_size = 120
    L.dynamic = False
    L.hr0 = 0x11
    L.hr1 = (0x48 if rng.random() < 0.6 else rng.randrange(256)) if hr1 is None else hr1
    if tms == "small":
        tms = rng.choice([0x0D, 0x0C, 0x0C, 0x0B, 0x08, rng.randrange(3, 0x0E), rng.randrange(3, 0x0E)])
    tms = 0x0E if tms is None else int(tms)
    assert 3 <= tms <= 0x0E
    L.data_size = (tms + 1) * 8
    image = _base_image(rng, 120, tms)
    image[9] = rng.choice([0x10, 0x10, 0x11, 0x1F])          # minor versions are to be accepted
    L.reserved = static_reserved(False)
    L.oneway = set(range(112, 120))
    pos = 12
    L.nulls = rng.randrange(0, 4) if nulls is None else nulls
    for _ in range(L.nulls):
        image[pos] = NULL_T
        pos += 1
    L.prop_tlv = (rng.random() < 0.15) if prop is None else prop
    if L.prop_tlv and L.data_size < 40:
        L.prop_tlv = False
    if L.prop_tlv:
        n = rng.randrange(0, 6)
        image[pos] = PROP_T
        image[pos + 1] = n
        pos += 2 + n
    L.offset = pos
    L.free = [x for x in range(pos, L.data_size) if x not in L.reserved]
    assert len(L.free) >= 3, (pos, L.data_size)
    L.capacity = capacity_of(len(L.free))
    return _finish(L, rng, image, old_len, rng.random() < 0.7 if terminator is None else terminator)


RANGE_CLASSES = ["factory", "before", "inside", "inside", "tail", "beyond-data", "low", "adjacent", "adjacent"]


def gen_dynamic(rng, phys=None, data_size=None, nulls=None, n_lock=None, n_mem=None, old_len=None, align=None,
                hr0=None, hr1=None, classes=None, terminator=None, prop=None, long_prop=None, hdr_straddle=None,
                behind_length=None, free_target=None):
    """behind_length = 2 | 4: one (additional, if need be) control TLV declares a range that starts directly behind the
    1-byte (NDEF TLV offset + 2) / 3-byte (offset + 4) length field - L.behind_length tells whether it was realised.
    free_target = N: the data area size (CC byte 2) and NULL TLV padding are chosen so that exactly N usable bytes lie
    between the NDEF TLV's T byte and the end of the data area (L.free_target == len(L.free) when realised)."""
    L = Layout()
    L.dynamic = True
    L.phys = phys or rng.choice([256, 384, 512, 512, 512, 1024, 2048])
    if data_size is None:
        data_size = L.phys if rng.random() < 0.5 else rng.randrange(136, L.phys + 1, 8)
    L.data_size = data_size
    L.hr0 = rng.choice([0x12, 0x12, 0x12, 0x14, 0x1F, 0x10]) if hr0 is None else hr0
    L.hr1 = rng.choice([0x4C, 0x4C, 0x00, rng.randrange(256)]) if hr1 is None else hr1
    image = _base_image(rng, L.phys, data_size // 8 - 1)
    image[120:128] = bytes(8)
    n_lock = rng.randrange(0, 3) if n_lock is None else n_lock
    n_mem = rng.randrange(0, 3) if n_mem is None else n_mem
    kinds = ["lock"] * n_lock + ["mem"] * n_mem
    if behind_length and not kinds:
        kinds = [rng.choice(["lock", "mem"])]
    behind_slot = rng.randrange(len(kinds)) if behind_length else None
    if align is None:
        na = rng.randrange(0, 4) if nulls is None else nulls
        nb = 0
        if na and rng.random() < 0.5:
            nb = rng.randrange(0, na + 1)
            na -= nb
        L.prop_tlv = (rng.random() < 0.12) if prop is None else prop
    else:
        na = 0
        L.prop_tlv = False
        nb = (align - (12 + 5 * len(kinds))) % 8
    L.nulls = na + nb
    pos = 12
    for _ in range(na):
        image[pos] = NULL_T
        pos += 1
    slots = []
    for k in kinds:
        slots.append((k, pos))
        pos += 5
    reserved = static_reserved(True)
    if L.prop_tlv:
        n = rng.randrange(0, 6)
        if data_size >= 264 and (long_prop or (long_prop is None and rng.random() < 0.3)):
            n = rng.randrange(104 - (pos + 2) + 1, 104 - (pos + 2) + 80)      # the value jumps over blocks Dh..Fh
        image[pos] = PROP_T
        image[pos + 1] = n
        pos += 2
        for _ in range(n):
            while pos in reserved:
                pos += 1
            pos += 1
    head_end = pos
    # ---- choose the declared ranges (all but "adjacent") ---------------------------------------
    chosen = []                  # [kind, slot address, start, nbytes, posbyte, exponent, class]
    seen_factory = set()
    for k, slot in slots:
        cls = rng.choice(classes or RANGE_CLASSES)
        if align is not None and cls == "before":
            cls = "inside"
        if behind_slot is not None and len(chosen) == behind_slot:
            cls = "behind-length"
        if free_target is not None and cls == "adjacent":
            cls = "inside"                 # (a range added behind the NDEF TLV later would change the usable count)
        nbytes = rng.randrange(1, 9) if k == "lock" else rng.choice([1, 2, 3, 4, 8, 12, rng.randrange(1, 17)])
        if cls == "factory":
            if k in seen_factory:
                cls = "inside"
            else:
                seen_factory.add(k)
                start, nbytes = (122, 6) if k == "lock" else (120, 2)
        if cls == "before":
            start = head_end + rng.randrange(0, 4)
            nbytes = min(nbytes, 4)
        elif cls == "inside":
            start = rng.randrange(head_end + 8, max(head_end + 9, data_size))
        elif cls == "tail":
            start = data_size - nbytes + rng.choice([0, 0, 0, 1, -1])
        elif cls == "beyond-data":
            start = rng.randrange(data_size, 2048) if data_size < 2048 else 2047
        elif cls == "low":
            start = rng.randrange(0, 12)
            nbytes = min(nbytes, 12 - start)
        elif cls in ("adjacent", "behind-length"):
            start = None
        if start is not None:
            start, posb, e = snap(start, rng)
            if start < head_end and start + nbytes > 12:
                start, posb, e = snap(rng.randrange(data_size, 2048) if data_size < 2048 else 2047, rng)
                cls = "beyond-data"
                if start < head_end:
                    start, posb, e, nbytes, cls = 0, 0, 3, 1, "low"
            reserved.update(x for x in range(start, start + nbytes) if x < 2048)
        else:
            posb = e = None
        chosen.append([k, slot, start, nbytes, posb, e, cls])
    # ---- trailing NULL TLVs and the NDEF TLV ---------------------------------------------------
    for _ in range(nb):
        while pos in reserved:
            pos += 1
        image[pos] = NULL_T
        pos += 1
    # ---- header straddle: the NDEF TLV's T byte 1..3 usable bytes in front of blocks Dh..Fh, so that its length
    # field continues behind the reserved blocks (a proprietary TLV fills the gap) ---------------------
    L.hdr_straddle = 0
    want = (align is None and rng.random() < 0.08) if hdr_straddle is None else hdr_straddle
    if want and align is None:
        k = rng.randrange(1, 4) if want is True else int(want)
        t_at = 104 - k
        gap = [a for a in range(pos + 2, t_at) if a not in reserved]
        if (pos + 2 <= t_at and pos not in reserved and pos + 1 not in reserved and len(gap) < 255
                and not any(a in reserved for a in range(t_at, 104))
                and len([a for a in range(t_at, data_size) if a not in reserved]) >= 6):
            image[pos] = PROP_T
            image[pos + 1] = len(gap)
            for a in gap:
                image[a] = rng.choice([0x00, 0x03, 0xFE, 0x01, rng.randrange(256)])
            pos = t_at
            L.hdr_straddle = k
            L.prop_tlv = True
    while not L.hdr_straddle and any(a in reserved for a in range(pos, pos + 4)):
        if pos not in reserved:
            image[pos] = NULL_T          # a usable byte in front of a reserved one: filler NULL TLV
        pos += 1
    # ---- free_target: exactly N usable bytes from the T byte to the end of the data area ---------------
    if free_target is not None and not L.hdr_straddle and not behind_length:
        for _try in range(6):
            ds = next((d for d in range(136, L.phys + 1, 8)
                       if d >= pos + 8 and len([x for x in range(pos, d) if x not in reserved]) >= free_target), None)
            if ds is None:
                break
            excess = len([x for x in range(pos, ds) if x not in reserved]) - free_target
            if excess == 0:
                L.data_size = data_size = ds
                image[10] = ds // 8 - 1
                L.free_target = free_target
                break
            while excess:                       # NULL TLVs in front of the NDEF TLV use up the surplus
                if pos not in reserved:
                    image[pos] = NULL_T
                    excess -= 1
                pos += 1
            while any(a in reserved for a in range(pos, pos + 4)):
                if pos not in reserved:
                    image[pos] = NULL_T
                pos += 1
    L.offset = pos
    assert pos + 4 <= data_size
    # ---- "behind-length": a declared range that starts directly behind the stored length field ----
    for c in chosen:
        if c[6] != "behind-length":
            continue
        want = L.offset + behind_length
        s, posb, e = snap(want, rng)
        room = len([x for x in range(L.offset, data_size) if x not in reserved and not want <= x < want + c[3]])
        if s == want and not L.hdr_straddle and room >= 8:
            c[2], c[4], c[5] = s, posb, e
            L.behind_length = behind_length
        else:
            s, posb, e = snap(rng.randrange(data_size, 2048) if data_size < 2048 else 2047, rng)
            if s < data_size and s + c[3] > 12:
                s, posb, e, c[3] = 0, 0, 3, 1
            c[2], c[4], c[5], c[6] = s, posb, e, "beyond-data"
        reserved.update(x for x in range(c[2], c[2] + c[3]) if x < 2048)
    # ---- "adjacent": a declared range that starts right behind the last byte of a message -------
    for c in chosen:
        if c[6] != "adjacent":
            continue
        free = [x for x in range(L.offset, data_size) if x not in reserved]
        cap = capacity_of(len(free))
        done = False
        for _ in range(12):
            if cap < 1:
                break
            n = rng.choice([1, 2, 7, 8, rng.randrange(1, cap + 1), rng.randrange(1, cap + 1), min(cap, 254), min(cap, 255), cap])
            n = min(n, cap)
            hdr = 2 if n < 255 else 4
            last = free[hdr + n - 1]
            want = last + 1
            while want in reserved:
                want += 1
            s, posb, e = snap(want, rng)
            if s != want or want >= 2048 or want <= L.offset + 3:
                continue
            c[2], c[4], c[5] = s, posb, e
            L.adjacent_len = n
            reserved.update(x for x in range(s, s + c[3]) if x < 2048)
            done = True
            break
        if not done:
            s, posb, e = snap(rng.randrange(data_size, 2048) if data_size < 2048 else 2047, rng)
            if s < data_size and s + c[3] > 12:
                s, posb, e, c[3] = 0, 0, 3, 1
            c[2], c[4], c[5], c[6] = s, posb, e, "beyond-data"
            reserved.update(x for x in range(s, s + c[3]) if x < 2048)
    # ---- write the control TLVs ----------------------------------------------------------------
    L.oneway = set(range(112, 120))
    for k, slot, start, nbytes, posb, e, cls in chosen:
        if k == "lock":
            bits = nbytes * 8 - rng.randrange(0, 8)
            per_bit = rng.randrange(0, 12)
            image[slot:slot + 5] = bytes([LOCK_T, 3, posb, bits & 0xFF, per_bit << 4 | e])
            L.oneway.update(x for x in range(start, start + nbytes) if x < L.phys)
        else:
            image[slot:slot + 5] = bytes([MEM_T, 3, posb, nbytes & 0xFF, rng.randrange(16) << 4 | e])
        L.ranges.append((k, start, nbytes, cls))
    L.reserved = reserved
    L.free = [x for x in range(L.offset, data_size) if x not in reserved]
    L.capacity = capacity_of(len(L.free))
    # C01/C03 quantify over layouts whose *declared* ranges do not fall on the NDEF TLV's tag and length-field bytes:
    # only the fixed blocks Dh..Fh may lie inside the header span
    fixed = static_reserved(True)
    L.len1_outside = any(a in reserved and a not in fixed for a in range(L.free[0], L.free[min(1, len(L.free) - 1)] + 1))
    L.len3_outside = any(a in reserved and a not in fixed for a in range(L.free[0], L.free[min(3, len(L.free) - 1)] + 1))
    L.hdr_declared_on_header = L.len3_outside
    if L.free_target is not None and len(L.free) != L.free_target:
        L.free_target = None
    return _finish(L, rng, image, old_len, rng.random() < 0.7 if terminator is None else terminator)


def topaz512_factory(rng, old_len=None, fill=None):
    """the product as shipped: 512 bytes, factory control TLVs, NDEF TLV at byte 22"""
    L = Layout()
    L.dynamic = True
    L.phys = L.data_size = 512
    L.hr0, L.hr1 = 0x12, 0x4C
    image = _base_image(rng, 512, 0x3F, fill)
    image[12:22] = TOPAZ512_TLVS
    image[120:128] = bytes(8)
    L.reserved = set(range(104, 128))
    L.oneway = set(range(112, 120)) | set(range(122, 128))
    L.ranges = [("lock", 122, 6, "factory"), ("mem", 120, 2, "factory")]
    L.offset = 22
    L.free = [x for x in range(22, 512) if x not in L.reserved]
    L.capacity = capacity_of(len(L.free))
    return _finish(L, rng, image, old_len, True)
