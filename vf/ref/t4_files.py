"""Type 4 Tag capability container / NDEF file codec and reference reader.

Written from the NFC Forum Type 4 Tag Operation specification (mapping versions 1.0, 2.0, 3.0), independent of nfcpy:

  CC file (E103h):  CCLEN(2)  T4T_VNo(1)  MLe(2)  MLc(2)  TLV ...
      NDEF File Control TLV           T=04h L=06h  fid(2) max_size(2) read(1) write(1)       NLEN is 2 bytes
      Extended NDEF File Control TLV  T=06h L=08h  fid(2) max_size(4) read(1) write(1)       NLEN is 4 bytes (3.0)
  NDEF file:        NLEN(2|4)  NDEF message (NLEN bytes)  unused...
  limits:           MLe >= 000Fh, MLc >= 0001h, max_size >= 0005h (04h TLV) / >= 0007h (06h TLV: 4 NLEN + 3),
                    NLEN <= max_size - len(NLEN)
"""
import struct

CC_FID = 0xE103
AID_V1 = bytes.fromhex("D2760000850100")
AID_V2 = bytes.fromhex("D2760000850101")


class RefError(Exception):
    pass


def build_cc(ver, mle, mlc, fid, max_size, rd=0x00, wr=0x00, tlv=4, extra=b"", cclen=None):
    """capability container bytes for one NDEF file control TLV (+ optional further TLV bytes)"""
    if tlv == 4:
        ctl = bytes([0x04, 0x06]) + struct.pack(">HHBB", fid, max_size, rd, wr)
    else:
        ctl = bytes([0x06, 0x08]) + struct.pack(">HIBB", fid, max_size, rd, wr)
    body = struct.pack(">BHH", ver, mle, mlc) + ctl + bytes(extra)
    n = 2 + len(body) if cclen is None else cclen
    return struct.pack(">H", n) + body


def nlen_size(tlv):
    return 2 if tlv == 4 else 4


def build_ndef_file(max_size, msg, tlv=4, fill=0x00, tail=None):
    """NDEF file image of exactly max_size bytes holding msg; the unused part is `fill` or the given tail bytes"""
    ns = nlen_size(tlv)
    head = struct.pack(">H" if ns == 2 else ">I", len(msg)) + bytes(msg)
    if len(head) > max_size:
        raise RefError("message does not fit")
    rest = max_size - len(head)
    if tail is not None:
        pad = (bytes(tail) * (rest // max(1, len(tail)) + 1))[:rest] if tail else bytes(rest)
    else:
        pad = bytes([fill]) * rest
    return bytearray(head + pad)


def parse_cc(raw, strict=True):
    """-> dict(ver, mle, mlc, tlv, fid, max_size, rd, wr, cclen); RefError when the CC is not well-formed.
    strict=False only applies the structural rules needed to locate the NDEF file (used to judge what a reader
    *may* have used, not what it must accept)."""
    raw = bytes(raw)
    if len(raw) < 15:
        raise RefError("CC shorter than 15 bytes")
    cclen, ver, mle, mlc = struct.unpack(">HBHH", raw[:7])
    if strict and not (15 <= cclen <= len(raw)):
        raise RefError("CCLEN %d outside 15..%d" % (cclen, len(raw)))
    if strict and (ver >> 4) not in (1, 2, 3):
        raise RefError("mapping version")
    t, ln = raw[7], raw[8]
    if (t, ln) == (0x04, 0x06):
        fid, max_size, rd, wr = struct.unpack(">HHBB", raw[9:15])
        tlv = 4
    elif (t, ln) == (0x06, 0x08):
        if len(raw) < 17:
            raise RefError("extended TLV truncated")
        fid, max_size, rd, wr = struct.unpack(">HIBB", raw[9:17])
        tlv = 6
    else:
        raise RefError("first TLV is not an NDEF file control TLV")
    if strict:
        if tlv == 6 and (ver >> 4) < 3:
            raise RefError("extended TLV needs mapping version 3")
        if mle < 0x000F:
            raise RefError("MLe below 000Fh")
        if mlc < 0x0001:
            raise RefError("MLc below 0001h")
        if max_size < (5 if tlv == 4 else 7):
            raise RefError("max NDEF file size too small")
        if fid in (0x0000, 0xE102, 0xE103, 0x3F00, 0x3FFF, 0xFFFF):
            raise RefError("reserved file identifier")
        if cclen < (15 if tlv == 4 else 17):
            raise RefError("CCLEN does not cover the control TLV")
    return {"ver": ver, "mle": mle, "mlc": mlc, "tlv": tlv, "fid": fid, "max_size": max_size, "rd": rd, "wr": wr,
            "cclen": cclen}


def ref_capacity(cc):
    """largest NDEF message the layout can hold"""
    return cc["max_size"] - nlen_size(cc["tlv"])


def ref_read(files, strict=True):
    """reference reader on the raw files {fid: bytes}: -> message bytes; RefError when there is no readable message"""
    if CC_FID not in files:
        raise RefError("no CC file")
    cc = parse_cc(files[CC_FID], strict=strict)
    if cc["fid"] not in files:
        raise RefError("NDEF file %04X does not exist" % cc["fid"])
    if cc["rd"] != 0x00:
        raise RefError("read access not granted")
    f = bytes(files[cc["fid"]])
    ns = nlen_size(cc["tlv"])
    if len(f) < ns:
        raise RefError("NDEF file shorter than NLEN")
    n = int.from_bytes(f[:ns], "big")
    if n > cc["max_size"] - ns or ns + n > len(f):
        raise RefError("NLEN %d beyond the file" % n)
    return f[ns:ns + n]
