"""Independent reading of the LLCP 1.3 frame formats (NFC Forum LLCP TS, section 4).

decode(bytes) -> canonical dict  {"t": type-name, "dsap":, "ssap":, fields...}  or raises Reject.
encode(dict)  -> bytes
Fields whose value the specification leaves open (a parameter TLV present twice) are reported in
d["ambiguous"] so a differential oracle can leave them out.
"""
import struct


class Reject(Exception):
    """the bytes are not a frame of the LLCP 1.3 frame format.
    code   stable reason code (key of REASONS); pdu = type name of the (innermost) PDU being read; depth = AGF nesting"""
    def __init__(self, msg, code=None, pdu=None):
        Exception.__init__(self, msg)
        self.code = code or "unclassified"
        self.pdu = pdu
        self.depth = 0

    @property
    def format_derived(self):
        return REASONS.get(self.code, (False, ""))[0]


# reason code -> (follows from the LLCP 1.3 frame format?, which rule).  Every rejection this reader makes is listed;
# a reason marked False would be a matter of taste (leniency) and must not be turned into a verdict.  Things this
# reader deliberately does NOT reject (and therefore never demands): reserved bits set in MIUX/RW/OPT/sequence
# octets (masked), a parameter TLV of a type that does not belong into the PDU (skipped, any length), one trailing
# octet behind the last TLV, surplus octets behind DISC/DM/FRMR/RR/RNR (reported as "extra"), a TLV occurring twice
# (reported as "ambiguous"), ECPK/RN/SN values of any length, reserved PDU types 1011b/1111b (UNKNOWN).
REASONS = {
    "short-header": (True, "every PDU starts with the two header octets DSAP/PTYPE/SSAP"),
    "tlv-overrun": (True, "the L octet counts the value octets of the TLV; they are part of the PDU that carries it"),
    "tlv-length-VERSION": (True, "VERSION value is one octet"),
    "tlv-length-MIUX": (True, "MIUX value is two octets"),
    "tlv-length-WKS": (True, "WKS value is two octets"),
    "tlv-length-LTO": (True, "LTO value is one octet"),
    "tlv-length-RW": (True, "RW value is one octet"),
    "tlv-length-OPT": (True, "OPT value is one octet"),
    "tlv-length-SDREQ": (True, "SDREQ value is a TID octet followed by the service name"),
    "tlv-length-SDRES": (True, "SDRES value is a TID octet and a SAP octet"),
    "symm-address": (True, "SYMM has DSAP = SSAP = 0"),
    "symm-payload": (True, "SYMM has no information field"),
    "pax-address": (True, "PAX has DSAP = SSAP = 0"),
    "agf-address": (True, "AGF has DSAP = SSAP = 0"),
    "agf-length-field": (True, "every aggregated PDU is preceded by a two octet length"),
    "agf-member-overrun": (True, "the length field counts octets of the AGF information field"),
    "dm-short": (True, "DM carries the one octet disconnect reason"),
    "frmr-short": (True, "FRMR carries a four octet information field"),
    "snl-address": (True, "SNL has DSAP = SSAP = 1"),
    "dps-address": (True, "DPS has DSAP = SSAP = 0"),
    "sequence-missing": (True, "I, RR and RNR carry the sequence octet"),
}
TLV_NAMES = {1: "VERSION", 2: "MIUX", 3: "WKS", 4: "LTO", 5: "RW", 6: "SN", 7: "OPT", 8: "SDREQ", 9: "SDRES",
             10: "ECPK", 11: "RN"}
FIXED_TLV_LENGTH = {1: 1, 2: 2, 3: 2, 4: 1, 5: 1, 7: 1, 9: 2}
# parameter TLV types that belong into each PDU type
TLV_ALLOWED = {"PAX": (1, 2, 3, 4, 7), "CONNECT": (2, 5, 6), "CC": (2, 5), "SNL": (8, 9), "DPS": (10, 11)}


NAMES = {0: "SYMM", 1: "PAX", 2: "AGF", 3: "UI", 4: "CONNECT", 5: "DISC", 6: "CC", 7: "DM", 8: "FRMR",
         9: "SNL", 10: "DPS", 12: "I", 13: "RR", 14: "RNR"}
PTYPE = {v: k for k, v in NAMES.items()}
T_VERSION, T_MIUX, T_WKS, T_LTO, T_RW, T_SN, T_OPT, T_SDREQ, T_SDRES, T_ECPK, T_RN = range(1, 12)


def tlvs(b):
    """parameter list: every TLV must lie completely inside b"""
    out = []
    i = 0
    while len(b) - i >= 2:
        t, l = b[i], b[i + 1]
        if i + 2 + l > len(b):
            raise Reject("TLV value exceeds the PDU", "tlv-overrun")
        out.append((t, bytes(b[i + 2:i + 2 + l])))
        i += 2 + l
    # a single trailing byte cannot form a TLV; the specification does not say what to do: lenient
    return out


def _fixed(v, n, name):
    if len(v) != n:
        raise Reject("%s TLV length" % name, "tlv-length-%s" % name)
    return int.from_bytes(v, "big")


def decode(b, depth=0):
    """canonical dict of the PDU in b; Reject (with reason code, PDU type and nesting depth) otherwise"""
    b = bytes(b)
    if len(b) < 2:
        e = Reject("short", "short-header", "aggregated-pdu" if depth else "frame")
        e.depth = depth
        raise e
    try:
        return _decode(b, depth)
    except Reject as e:
        if e.pdu is None:
            e.pdu = NAMES.get((b[0] << 2 | b[1] >> 6) & 15, "UNKNOWN")
            e.depth = depth
        raise


def _decode(b, depth):
    hdr = (b[0] << 8) | b[1]
    dsap, ptype, ssap = hdr >> 10, (hdr >> 6) & 15, hdr & 63
    d = {"dsap": dsap, "ssap": ssap, "ambiguous": []}
    name = NAMES.get(ptype)
    if name is None:
        d.update(t="UNKNOWN", ptype=ptype, payload=b[2:])
        return d
    d["t"] = name
    body = b[2:]

    def params(allowed):
        seen = {}
        tl = tlvs(body)
        d["trailing"] = len(body) - sum(2 + len(v) for t, v in tl)
        for t, v in tl:
            if t in allowed:
                if t in seen and t not in (T_SDREQ, T_SDRES):
                    d["ambiguous"].append(t)
                seen.setdefault(t, []).append(v)
        return seen

    if name == "SYMM":
        if dsap or ssap:
            raise Reject("SYMM addresses", "symm-address")
        if body:
            raise Reject("SYMM payload", "symm-payload")
    elif name == "PAX":
        if dsap or ssap:
            raise Reject("PAX addresses", "pax-address")
        p = params((T_VERSION, T_MIUX, T_WKS, T_LTO, T_OPT))
        ver = _fixed(p[T_VERSION][-1], 1, "VERSION") if T_VERSION in p else None
        d["version"] = (ver >> 4, ver & 15) if ver is not None else (0, 0)
        d["miu"] = 128 + (_fixed(p[T_MIUX][-1], 2, "MIUX") & 0x7FF) if T_MIUX in p else 128
        d["wks"] = _fixed(p[T_WKS][-1], 2, "WKS") if T_WKS in p else 0
        d["lto"] = _fixed(p[T_LTO][-1], 1, "LTO") * 10 if T_LTO in p else 100
        opt = _fixed(p[T_OPT][-1], 1, "OPT") if T_OPT in p else 0
        d["lsc"] = opt & 3
        d["dpc"] = (opt >> 2) & 1
        for t in (T_VERSION, T_MIUX, T_WKS, T_LTO, T_OPT):   # every occurrence must be well-formed
            for v in p.get(t, []):
                _fixed(v, 2 if t in (T_MIUX, T_WKS) else 1, TLV_NAMES[t])
    elif name == "AGF":
        if dsap or ssap:
            raise Reject("AGF addresses", "agf-address")
        subs = []
        i = 0
        while i < len(body):
            if len(body) - i < 2:
                raise Reject("AGF length field", "agf-length-field")
            n = (body[i] << 8) | body[i + 1]
            if i + 2 + n > len(body):
                raise Reject("AGF sub-PDU exceeds frame", "agf-member-overrun")
            subs.append(decode(body[i + 2:i + 2 + n], depth + 1))
            i += 2 + n
        d["pdus"] = subs
    elif name == "UI":
        d["data"] = body
    elif name in ("CONNECT", "CC"):
        allowed = (T_MIUX, T_RW, T_SN) if name == "CONNECT" else (T_MIUX, T_RW)
        p = params(allowed)
        for v in p.get(T_MIUX, []):
            _fixed(v, 2, "MIUX")
        for v in p.get(T_RW, []):
            _fixed(v, 1, "RW")
        d["miu"] = 128 + (_fixed(p[T_MIUX][-1], 2, "MIUX") & 0x7FF) if T_MIUX in p else 128
        d["rw"] = _fixed(p[T_RW][-1], 1, "RW") & 15 if T_RW in p else 1
        if name == "CONNECT":
            d["sn"] = (p[T_SN][-1] or None) if T_SN in p else None
    elif name == "DISC":
        d["extra"] = len(body)
    elif name == "DM":
        if len(body) < 1:
            raise Reject("DM reason missing", "dm-short")
        d["reason"] = body[0]
        d["extra"] = len(body) - 1
    elif name == "FRMR":
        if len(body) < 4:
            raise Reject("FRMR short", "frmr-short")
        b0, b1, b2, b3 = body[:4]
        d.update(rej_flags=b0 >> 4, rej_ptype=b0 & 15, ns=b1 >> 4, nr=b1 & 15, vs=b2 >> 4, vr=b2 & 15,
                 vsa=b3 >> 4, vra=b3 & 15, extra=len(body) - 4)
    elif name == "SNL":
        if dsap != 1 or ssap != 1:
            raise Reject("SNL addresses", "snl-address")
        req, res = [], []
        tl = tlvs(body)
        d["trailing"] = len(body) - sum(2 + len(v) for t, v in tl)
        for t, v in tl:
            if t == T_SDREQ:
                if len(v) < 1:
                    raise Reject("SDREQ without TID", "tlv-length-SDREQ")
                req.append((v[0], v[1:]))
            elif t == T_SDRES:
                if len(v) != 2:
                    raise Reject("SDRES length", "tlv-length-SDRES")
                res.append((v[0], v[1]))
        d["sdreq"], d["sdres"] = req, res
        d["ambiguous"] = []
    elif name == "DPS":
        if dsap or ssap:
            raise Reject("DPS addresses", "dps-address")
        p = params((T_ECPK, T_RN))
        d["ecpk"] = (p[T_ECPK][-1] or None) if T_ECPK in p else None
        d["rn"] = (p[T_RN][-1] or None) if T_RN in p else None
    elif name == "I":
        if len(body) < 1:
            raise Reject("sequence field missing", "sequence-missing")
        d["ns"], d["nr"], d["data"] = body[0] >> 4, body[0] & 15, body[1:]
    elif name in ("RR", "RNR"):
        if len(body) < 1:
            raise Reject("sequence field missing", "sequence-missing")
        d["nr"] = body[0] & 15
        d["extra"] = len(body) - 1
    return d


def _tlv(t, v):
    assert len(v) <= 255
    return bytes([t, len(v)]) + bytes(v)


def parts(d):
    """(header octets, list of (T, V) parameter TLVs or None, other information field octets) of the encoding of d"""
    name = d["t"]
    ptype = d["ptype"] if name == "UNKNOWN" else PTYPE[name]
    hdr = struct.pack(">H", d["dsap"] << 10 | ptype << 6 | d["ssap"])
    tl, out = None, b""
    if name == "UNKNOWN":
        out = bytes(d["payload"])
    elif name == "PAX":
        tl = []
        if d.get("version") is not None:
            tl.append((T_VERSION, bytes([d["version"][0] << 4 | d["version"][1]])))
        if d.get("miu") is not None:
            tl.append((T_MIUX, struct.pack(">H", d["miu"] - 128)))
        if d.get("wks") is not None:
            tl.append((T_WKS, struct.pack(">H", d["wks"])))
        if d.get("lto") is not None:
            tl.append((T_LTO, bytes([d["lto"] // 10])))
        if d.get("lsc") is not None:
            tl.append((T_OPT, bytes([d["lsc"] | d.get("dpc", 0) << 2])))
    elif name == "AGF":
        for s in d["pdus"]:
            e = encode(s)
            out += struct.pack(">H", len(e)) + e
    elif name == "UI":
        out = bytes(d["data"])
    elif name in ("CONNECT", "CC"):
        tl = []
        if d.get("miu") is not None and (d["miu"] != 128 or d.get("explicit")):
            tl.append((T_MIUX, struct.pack(">H", d["miu"] - 128)))
        if d.get("rw") is not None and (d["rw"] != 1 or d.get("explicit")):
            tl.append((T_RW, bytes([d["rw"]])))
        if name == "CONNECT" and d.get("sn"):
            tl.append((T_SN, bytes(d["sn"])))
    elif name == "DM":
        out = bytes([d["reason"]])
    elif name == "FRMR":
        out = bytes([d["rej_flags"] << 4 | d["rej_ptype"], d["ns"] << 4 | d["nr"], d["vs"] << 4 | d["vr"],
                     d["vsa"] << 4 | d["vra"]])
    elif name == "SNL":
        tl = []
        for tid, sn in d["sdreq"]:
            tl.append((T_SDREQ, bytes([tid]) + bytes(sn)))
        for tid, sap in d["sdres"]:
            tl.append((T_SDRES, bytes([tid, sap])))
    elif name == "DPS":
        tl = []
        if d.get("ecpk"):
            tl.append((T_ECPK, bytes(d["ecpk"])))
        if d.get("rn"):
            tl.append((T_RN, bytes(d["rn"])))
    elif name == "I":
        out = bytes([d["ns"] << 4 | d["nr"]]) + bytes(d["data"])
    elif name in ("RR", "RNR"):
        out = bytes([d["nr"]])
    return hdr, tl, out


def encode(d):
    hdr, tl, out = parts(d)
    if tl is not None:
        out = b"".join(_tlv(t, v) for t, v in tl)
    return hdr + out


def split(b):
    """the same three parts read back from an encoding (Reject if the parameter list is not well formed)"""
    b = bytes(b)
    if len(b) < 2:
        raise Reject("short", "short-header", "?")
    name = NAMES.get((b[0] << 2 | b[1] >> 6) & 15, "UNKNOWN")
    if name in TLV_ALLOWED:
        tl = tlvs(b[2:])
        return b[:2], tl, b[2 + sum(2 + len(v) for t, v in tl):]
    return b[:2], None, b[2:]


def flatten(d):
    """leaf PDUs of a (possibly nested) aggregate"""
    if d["t"] == "AGF":
        return [x for s in d["pdus"] for x in flatten(s)]
    return [d]
