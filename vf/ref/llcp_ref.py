"""Independent reading of the LLCP 1.3 frame formats (NFC Forum LLCP TS, section 4).

decode(bytes) -> canonical dict  {"t": type-name, "dsap":, "ssap":, fields...}  or raises Reject.
encode(dict)  -> bytes
Fields whose value the specification leaves open (a parameter TLV present twice) are reported in
d["ambiguous"] so a differential oracle can leave them out.
"""
import struct


class Reject(Exception):
    pass


NAMES = {0: "SYMM", 1: "PAX", 2: "AGF", 3: "UI", 4: "CONNECT", 5: "DISC", 6: "CC", 7: "DM", 8: "FRMR",
         9: "SNL", 10: "DPS", 12: "I", 13: "RR", 14: "RNR"}
PTYPE = {v: k for k, v in NAMES.items()}
T_VERSION, T_MIUX, T_WKS, T_LTO, T_RW, T_SN, T_OPT, T_SDREQ, T_SDRES, T_ECPK, T_RN = range(1, 12)


def tlvs(b):
    """parameter list: every TLV must lie completely inside b"""
    out = []
    i = 0
    while len(b) - i >= 2:
        t, l = b[i], b[i + 1]
        if i + 2 + l > len(b):
            raise Reject("TLV value exceeds the PDU")
        out.append((t, bytes(b[i + 2:i + 2 + l])))
        i += 2 + l
    # a single trailing byte cannot form a TLV; the specification does not say what to do: lenient
    return out


def _fixed(v, n, name):
    if len(v) != n:
        raise Reject("%s TLV length" % name)
    return int.from_bytes(v, "big")


def decode(b, depth=0):
    b = bytes(b)
    if len(b) < 2:
        raise Reject("short")
    hdr = (b[0] << 8) | b[1]
    dsap, ptype, ssap = hdr >> 10, (hdr >> 6) & 15, hdr & 63
    d = {"dsap": dsap, "ssap": ssap, "ambiguous": []}
    name = NAMES.get(ptype)
    if name is None:
        d.update(t="UNKNOWN", ptype=ptype, payload=b[2:])
        return d
    d["t"] = name
    body = b[2:]

    def params(allowed):
        seen = {}
        for t, v in tlvs(body):
            if t in allowed:
                if t in seen and t not in (T_SDREQ, T_SDRES):
                    d["ambiguous"].append(t)
                seen.setdefault(t, []).append(v)
        return seen

    if name == "SYMM":
        if dsap or ssap:
            raise Reject("SYMM addresses")
        if body:
            raise Reject("SYMM payload")
    elif name == "PAX":
        if dsap or ssap:
            raise Reject("PAX addresses")
        p = params((T_VERSION, T_MIUX, T_WKS, T_LTO, T_OPT))
        ver = _fixed(p[T_VERSION][-1], 1, "VERSION") if T_VERSION in p else None
        d["version"] = (ver >> 4, ver & 15) if ver is not None else (0, 0)
        d["miu"] = 128 + (_fixed(p[T_MIUX][-1], 2, "MIUX") & 0x7FF) if T_MIUX in p else 128
        d["wks"] = _fixed(p[T_WKS][-1], 2, "WKS") if T_WKS in p else 0
        d["lto"] = _fixed(p[T_LTO][-1], 1, "LTO") * 10 if T_LTO in p else 100
        opt = _fixed(p[T_OPT][-1], 1, "OPT") if T_OPT in p else 0
        d["lsc"] = opt & 3
        d["dpc"] = (opt >> 2) & 1
        for t in (T_VERSION, T_MIUX, T_WKS, T_LTO, T_OPT):   # every occurrence must be well-formed
            for v in p.get(t, []):
                _fixed(v, 2 if t in (T_MIUX, T_WKS) else 1, "PAX")
    elif name == "AGF":
        if dsap or ssap:
            raise Reject("AGF addresses")
        subs = []
        i = 0
        while i < len(body):
            if len(body) - i < 2:
                raise Reject("AGF length field")
            n = (body[i] << 8) | body[i + 1]
            if i + 2 + n > len(body):
                raise Reject("AGF sub-PDU exceeds frame")
            subs.append(decode(body[i + 2:i + 2 + n], depth + 1))
            i += 2 + n
        d["pdus"] = subs
    elif name == "UI":
        d["data"] = body
    elif name in ("CONNECT", "CC"):
        allowed = (T_MIUX, T_RW, T_SN) if name == "CONNECT" else (T_MIUX, T_RW)
        p = params(allowed)
        for v in p.get(T_MIUX, []):
            _fixed(v, 2, "MIUX")
        for v in p.get(T_RW, []):
            _fixed(v, 1, "RW")
        d["miu"] = 128 + (_fixed(p[T_MIUX][-1], 2, "MIUX") & 0x7FF) if T_MIUX in p else 128
        d["rw"] = _fixed(p[T_RW][-1], 1, "RW") & 15 if T_RW in p else 1
        if name == "CONNECT":
            d["sn"] = (p[T_SN][-1] or None) if T_SN in p else None
    elif name == "DISC":
        pass
    elif name == "DM":
        if len(body) < 1:
            raise Reject("DM reason missing")
        d["reason"] = body[0]
        d["extra"] = len(body) - 1
    elif name == "FRMR":
        if len(body) < 4:
            raise Reject("FRMR short")
        b0, b1, b2, b3 = body[:4]
        d.update(rej_flags=b0 >> 4, rej_ptype=b0 & 15, ns=b1 >> 4, nr=b1 & 15, vs=b2 >> 4, vr=b2 & 15,
                 vsa=b3 >> 4, vra=b3 & 15, extra=len(body) - 4)
    elif name == "SNL":
        if dsap != 1 or ssap != 1:
            raise Reject("SNL addresses")
        req, res = [], []
        for t, v in tlvs(body):
            if t == T_SDREQ:
                if len(v) < 1:
                    raise Reject("SDREQ without TID")
                req.append((v[0], v[1:]))
            elif t == T_SDRES:
                if len(v) != 2:
                    raise Reject("SDRES length")
                res.append((v[0], v[1]))
        d["sdreq"], d["sdres"] = req, res
        d["ambiguous"] = []
    elif name == "DPS":
        if dsap or ssap:
            raise Reject("DPS addresses")
        p = params((T_ECPK, T_RN))
        d["ecpk"] = (p[T_ECPK][-1] or None) if T_ECPK in p else None
        d["rn"] = (p[T_RN][-1] or None) if T_RN in p else None
    elif name == "I":
        if len(body) < 1:
            raise Reject("sequence field missing")
        d["ns"], d["nr"], d["data"] = body[0] >> 4, body[0] & 15, body[1:]
    elif name in ("RR", "RNR"):
        if len(body) < 1:
            raise Reject("sequence field missing")
        d["nr"] = body[0] & 15
        d["extra"] = len(body) - 1
    return d


def _tlv(t, v):
    assert len(v) <= 255
    return bytes([t, len(v)]) + bytes(v)


def encode(d):
    name = d["t"]
    ptype = d["ptype"] if name == "UNKNOWN" else PTYPE[name]
    out = struct.pack(">H", d["dsap"] << 10 | ptype << 6 | d["ssap"])
    if name == "UNKNOWN":
        out += d["payload"]
    elif name == "PAX":
        if d.get("version") is not None:
            out += _tlv(T_VERSION, bytes([d["version"][0] << 4 | d["version"][1]]))
        if d.get("miu") is not None:
            out += _tlv(T_MIUX, struct.pack(">H", d["miu"] - 128))
        if d.get("wks") is not None:
            out += _tlv(T_WKS, struct.pack(">H", d["wks"]))
        if d.get("lto") is not None:
            out += _tlv(T_LTO, bytes([d["lto"] // 10]))
        if d.get("lsc") is not None:
            out += _tlv(T_OPT, bytes([d["lsc"] | d.get("dpc", 0) << 2]))
    elif name == "AGF":
        for s in d["pdus"]:
            e = encode(s)
            out += struct.pack(">H", len(e)) + e
    elif name == "UI":
        out += d["data"]
    elif name in ("CONNECT", "CC"):
        if d.get("miu") is not None and (d["miu"] != 128 or d.get("explicit")):
            out += _tlv(T_MIUX, struct.pack(">H", d["miu"] - 128))
        if d.get("rw") is not None and (d["rw"] != 1 or d.get("explicit")):
            out += _tlv(T_RW, bytes([d["rw"]]))
        if name == "CONNECT" and d.get("sn"):
            out += _tlv(T_SN, d["sn"])
    elif name == "DM":
        out += bytes([d["reason"]])
    elif name == "FRMR":
        out += bytes([d["rej_flags"] << 4 | d["rej_ptype"], d["ns"] << 4 | d["nr"], d["vs"] << 4 | d["vr"],
                      d["vsa"] << 4 | d["vra"]])
    elif name == "SNL":
        for tid, sn in d["sdreq"]:
            out += _tlv(T_SDREQ, bytes([tid]) + sn)
        for tid, sap in d["sdres"]:
            out += _tlv(T_SDRES, bytes([tid, sap]))
    elif name == "DPS":
        if d.get("ecpk"):
            out += _tlv(T_ECPK, d["ecpk"])
        if d.get("rn"):
            out += _tlv(T_RN, d["rn"])
    elif name == "I":
        out += bytes([d["ns"] << 4 | d["nr"]]) + d["data"]
    elif name in ("RR", "RNR"):
        out += bytes([d["nr"]])
    return out


def flatten(d):
    """leaf PDUs of a (possibly nested) aggregate"""
    if d["t"] == "AGF":
        return [x for s in d["pdus"] for x in flatten(s)]
    return [d]
