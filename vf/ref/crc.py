"""CRC_A and CRC_B of ISO/IEC 14443-3, written from the standard (6.2.4 / 7.2 and Annex B), not from nfcpy.

Definition used (ISO/IEC 14443-3 Annex B, which refers to ISO/IEC 13239):
    generator polynomial  x^16 + x^12 + x^5 + 1
    the message bits enter the 16 stage shift register in transmission order, i.e. least significant bit of
    every byte first
    CRC_A: initial register content 6363h, register content is transmitted as it is
    CRC_B: initial register content FFFFh, the register content is inverted (ones complement) before transmission
    both are appended to the frame least significant byte first

Two independent formulations are provided and cross-checked by selftest():
    crc16_bitwise()  - explicit shift register, one message bit per step, taps taken from the polynomial
    crc16_annex()    - the byte-wise update step printed as C sample code in Annex B ("UpdateCrc")
plus the worked examples of Annex B as test vectors.
"""

POLY_TAPS = (12, 5, 0)          # x^16 + x^12 + x^5 + 1 ; x^16 is the feedback itself


def crc16_bitwise(data, init):
    """16-stage shift register, data LSB first.  Register bit i holds the coefficient of x^(15-i) in the
    reflected representation customary for ISO/IEC 13239: we keep the register 'reflected' so that the bit
    leaving at the low end is the coefficient of x^15."""
    # reflected tap mask built from the polynomial: coefficient x^k  ->  bit (15 - k)
    mask = 0
    for k in POLY_TAPS:
        mask |= 1 << (15 - k)
    reg = init & 0xFFFF
    for byte in bytes(data):
        for i in range(8):
            inbit = (byte >> i) & 1
            fb = (reg & 1) ^ inbit
            reg >>= 1
            if fb:
                reg ^= mask
    return reg


def crc16_annex(data, init):
    """byte-wise update from the Annex B sample code:
         ch = ch ^ (crc & 0xFF); ch = ch ^ (ch << 4); crc = (crc >> 8) ^ (ch << 8) ^ (ch << 3) ^ (ch >> 4)"""
    crc = init & 0xFFFF
    for ch in bytes(data):
        ch = (ch ^ (crc & 0xFF)) & 0xFF
        ch = (ch ^ (ch << 4)) & 0xFF
        crc = ((crc >> 8) ^ (ch << 8) ^ (ch << 3) ^ (ch >> 4)) & 0xFFFF
    return crc


def crc_a(data):
    """the two CRC_A bytes in transmission order"""
    r = crc16_bitwise(data, 0x6363)
    return bytes([r & 0xFF, r >> 8])


def crc_b(data):
    """the two CRC_B bytes in transmission order"""
    r = crc16_bitwise(data, 0xFFFF) ^ 0xFFFF
    return bytes([r & 0xFF, r >> 8])


def append_crc_a(data):
    return bytes(data) + crc_a(data)


def append_crc_b(data):
    return bytes(data) + crc_b(data)


def check_crc_a(frame):
    frame = bytes(frame)
    return len(frame) >= 2 and crc_a(frame[:-2]) == frame[-2:]


def check_crc_b(frame):
    frame = bytes(frame)
    return len(frame) >= 2 and crc_b(frame[:-2]) == frame[-2:]


# worked examples of ISO/IEC 14443-3 Annex B (message, CRC bytes as transmitted)
VECTORS_A = [(bytes.fromhex("0000"), bytes.fromhex("A01E")),
             (bytes.fromhex("1234"), bytes.fromhex("26CF"))]
VECTORS_B = [(bytes.fromhex("000000"), bytes.fromhex("CCC6")),
             (bytes.fromhex("0FAAFF"), bytes.fromhex("FCD1")),
             (bytes.fromhex("0A123456"), bytes.fromhex("2CF6"))]


def selftest():
    """returns the number of comparisons made; raises AssertionError when the reference disagrees with itself"""
    n = 0
    for msg, crc in VECTORS_A:
        assert crc_a(msg) == crc, ("CRC_A vector", msg.hex(), crc_a(msg).hex(), crc.hex())
        assert check_crc_a(msg + crc)
        n += 1
    for msg, crc in VECTORS_B:
        assert crc_b(msg) == crc, ("CRC_B vector", msg.hex(), crc_b(msg).hex(), crc.hex())
        assert check_crc_b(msg + crc)
        n += 1
    import random
    rng = random.Random(14443)
    for i in range(300):
        msg = rng.randbytes(rng.randrange(0, 40))
        for init in (0x6363, 0xFFFF):
            assert crc16_bitwise(msg, init) == crc16_annex(msg, init), (msg.hex(), init)
            n += 1
    # residue property of the CRC_A construction: running the register over message+CRC gives zero
    for i in range(50):
        msg = rng.randbytes(rng.randrange(0, 20))
        assert crc16_bitwise(append_crc_a(msg), 0x6363) == 0
        n += 1
    return n
