"""C13 for the udp driver (nfc.clf.udp) - clf.exchange() reports failures only as documented errors.

A real ContactlessFrontend with a real nfc.clf.udp.Device (created through nfc.clf.device.connect('udp:...')) runs on
vf.sim.fakenet (single-threaded, logical clock).  A scripted station on the fake net plays the other side: a card /
DEP target answering the driver's sense_tta / sense_ttb / sense_ttf, or an initiator activating the driver's
listen_tta / listen_ttb / listen_ttf / listen_dep (with and without anticollision, with PSL).  Once the frontend holds
the target, exactly one clf.exchange() is performed while the station and the fake socket layer misbehave:

  datagrams   well-formed answer, silence, RFOFF, empty, blanks only, no separator, three tokens, odd number of hex
              digits, non-hex payload, non-ASCII payload / bit-rate token, unknown or foreign bit-rate token (the driver
              skips those), a datagram longer than the driver's 1024 byte receive buffer, random byte strings;
              each alone and behind a skipped datagram
  sockets     sendto() raising EIO/ECONNREFUSED/ENETUNREACH/EPIPE/EBADF or reporting a short count, select() raising
              EBADF/EINTR, recvfrom() raising ECONNREFUSED/EIO/EAGAIN/socket.timeout
  time-outs   0.1 s, 0 ("do not wait"), None (target side: wait for ever)

Verdict (property statement): the call returns bytes/None or raises an nfc.clf.CommunicationError subclass or
OSError/IOError.  Finer, where unambiguous: silence -> TimeoutError, RFOFF -> BrokenLinkError, a well-formed answer is
returned unchanged.  Anything else escaping -> udp/escape/<exception@function>/<injection>.
What is raised is judged by its concrete type (nfc.clf.TimeoutError / TransmissionError / ProtocolError / BrokenLinkError /
CommunicationError, builtin OSError classes): a driver-internal class derived from one of them is an escape too.
Socket clause: where a socket call of the driver itself raised OSError (the harness injected it: the "host link" of this
driver failed, nothing was wrong on the simulated air) the only documented report is IOError/OSError.
Follow-up: after the judged exchange a regular one (fresh well-formed answer, nothing left in the socket queue) must
return exactly that answer.  Time-outs: 0.1 s, 1 us, 0, None, with and without send data.
Activation: the real clf.sense()/clf.listen() with the n-th datagram of the activation replaced by short / surplus /
malformed ones: target | None | nfc.clf.Error subclass | OSError.
"""
import errno
import socket as _socket

from vf.core.rec import exc_sig

RULE_C13 = ("cells = target kind (7 remote: T1T, T2T, T4A, DEP target at 106A, 106B, 212F, 424F; 11 listen modes: "
            "tta->tt2_cmd, tta->tt4_cmd, ttb, ttf, DEP at 106A after anticollision / direct, 212F after SENSF / direct, "
            "424F direct, 106A with PSL to 424F after anticollision / direct) x injection (30 datagram shapes, 15 socket faults, random datagrams) x "
            "{alone, behind a skipped datagram} x time-out {0.1, 0, None} x {answer provoked by the driver's datagram, "
            "already queued}; plus receive-only calls (send data None) in both roles, a one microsecond time-out, and after "
            "every cell a regular follow-up exchange with a fresh well-formed answer; activation cells = kind x n-th datagram "
            "of the real sense()/listen() x {every truncation (also with consistent length octet), surplus, other "
            "parameter octets, the malformed datagram classes}; a cell is distinct by (kind, injected bytes / fault, "
            "time-out, position) and non-trivial if the frontend held the target and exchange() was entered (activation: "
            "the replaced datagram was really sent)")
REQUIRED_C13 = ["udp_exchanges", "udp_kinds_activated", "udp_malformed_datagrams", "udp_socket_faults",
                "udp_outcome_data", "udp_outcome_comm_error", "udp_outcome_oserror", "udp_random_datagrams",
                "udp_concrete_type_checked", "udp_socket_clause_checked", "udp_socket_clause_sendto_checked",
                "udp_socket_clause_select_checked", "udp_socket_clause_recvfrom_checked",
                "udp_follow_up_checked", "udp_follow_up_after_comm_error", "udp_follow_up_after_data",
                "udp_timeout_tiny_cells", "udp_timeout_zero_cells", "udp_timeout_none_cells", "udp_receive_only_cells",
                "udp_activation_cells", "udp_activation_sense_cells", "udp_activation_listen_cells",
                "udp_activation_injected", "udp_activation_outcome_found", "udp_activation_outcome_none"]
ASSUMPTIONS = ["udp: vf.sim.fakenet reproduces the socket/select behaviour the driver relies on (datagram truncation to "
               "the receive buffer, OSError from socket calls, ValueError for a negative select time-out)",
               "udp: the scripted station follows the activation sequences of nfc.clf.udp's own sense_*/listen_* "
               "(there is no second implementation of this ad-hoc UDP protocol)"]

PORT = 54321
DRV = ("127.0.0.1", PORT)
IDM = bytes.fromhex("02fe010203040506")
PMM = bytes.fromhex("ffffffffffffffff")
NFCID3 = bytes.fromhex("01fe0102030405060708")
ATR_REQ = bytes.fromhex("d400") + NFCID3 + bytes.fromhex("00000032") + b"Ffm\x01\x01\x11"
ATR_RES = bytes.fromhex("d501") + NFCID3 + bytes.fromhex("0000000832") + b"Ffm\x01\x01\x11"

REMOTE_KINDS = ["tt1", "tt2", "tt4a", "dep106", "ttb", "ttf212", "ttf424"]
LISTEN_KINDS = ["l_tta_tt2", "l_tta_tt4", "l_ttb", "l_ttf", "l_dep106_sdd", "l_dep106_direct", "l_dep212_sensf",
                "l_dep212_direct", "l_dep424_direct", "l_dep_psl_direct", "l_dep_psl_sdd"]
KINDS = REMOTE_KINDS + LISTEN_KINDS


def _dg(brty, payload):
    return brty.encode() + b" " + bytes(payload).hex().encode()


def _len(b):
    return bytes([len(b) + 1]) + bytes(b)


def _f0(b):
    return b"\xF0" + _len(b)


def _bcc(b):
    x = 0
    for c in b:
        x ^= c
    return bytes(b) + bytes([x])


def _parse(raw):
    try:
        brty, hexs = raw.split()
        return brty.decode(), bytes.fromhex(hexs.decode())
    except ValueError:
        return None, None


class Station(object):
    """the scripted other side"""

    def __init__(self, net, kind):
        self.net, self.kind = net, kind
        self.mode = "activate"
        self.inject = []            # datagrams to answer the next driver datagram with (exchange mode)
        self.drv_addr = None
        self.seen = []
        self.script = []            # listen kinds: datagrams the station sends, one per step
        self.step = 0
        self.act_inject = None      # (n, datagrams): the station's n-th datagram of the activation is replaced
        self.act_injected = False
        self.answers = []           # the station's regular datagrams during activation, in order
        self.n_out = 0
        if kind in REMOTE_KINDS:
            self.sock = net.add_responder(DRV, self.on_datagram)
        else:
            self.sock = net.add_responder(("127.0.0.1", 40000), self.on_datagram)
            self.script = self.listen_script(kind)
            net.on_bind = self.on_bind

    # -- remote card / DEP target ------------------------------------------------------------------
    def card_answer(self, brty, p):
        k = self.kind
        if k == "tt1" and brty == "106A" and p[:1] in (b"\x93", b"\x95", b"\x97"):
            return None                     # a Type 1 Tag does not take part in the anticollision
        if k in ("tt1", "tt2", "tt4a", "dep106") and brty == "106A":
            uid = bytes.fromhex("04a1b2c3d4e5f6")
            if p == b"\x26":
                return {"tt1": "000c", "tt2": "4400", "tt4a": "4403", "dep106": "0101"}[k]
            if k == "tt1" and p[:1] == b"\x78":
                return "1148" + "01020304"
            if p == b"\x93\x20":
                return (_bcc(b"\x88" + uid[:3]) if k == "tt4a" else _bcc(b"\x08\x01\x02\x03")).hex()
            if p[:2] == b"\x93\x70":
                return "04" if k == "tt4a" else {"tt2": "00", "dep106": "40"}[k]
            if p == b"\x95\x20":
                return _bcc(uid[3:]).hex()
            if p[:2] == b"\x95\x70":
                return "20"
        if k == "ttb" and brty == "106B" and p[:1] == b"\x05":
            return "50e5dd3dc900000011008185"
        if k in ("ttf212", "ttf424") and brty == k[3:] + "F" and p[:2] == b"\x06\x00":
            return _len(b"\x01" + IDM + PMM + b"\x12\xfc").hex()
        return None

    # -- initiator activating the driver's listen_* ----------------------------------------------------
    def listen_script(self, kind):
        sdd = _bcc(bytes.fromhex("08010203"))
        anticoll = [_dg("106A", b"\x26"), _dg("106A", b"\x93\x20"), _dg("106A", b"\x93\x70" + sdd)]
        dep_req = bytes.fromhex("d4060000 0000")
        atr212 = bytes.fromhex("d400") + IDM + b"ST" + bytes.fromhex("00000032") + b"Ffm\x01\x01\x11"
        return {
            "l_tta_tt2": anticoll + [_dg("106A", b"\x30\x00")],
            "l_tta_tt4": anticoll + [_dg("106A", b"\xE0\x80")],
            "l_ttb": [_dg("106B", b"\x05\x00\x10"), _dg("106B", bytes.fromhex("1d00000000000801"))],
            "l_ttf": [_dg("212F", bytes.fromhex("0600ffff0000")),
                      _dg("212F", _len(b"\x06" + IDM + bytes.fromhex("010b00018000")))],
            "l_dep106_sdd": anticoll + [_dg("106A", _f0(ATR_REQ)), _dg("106A", _f0(dep_req))],
            "l_dep106_direct": [_dg("106A", _f0(ATR_REQ)), _dg("106A", _f0(dep_req))],
            "l_dep212_sensf": [_dg("212F", bytes.fromhex("0600ffff0000")), _dg("212F", _len(atr212)),
                               _dg("212F", _len(dep_req))],
            "l_dep212_direct": [_dg("212F", _len(ATR_REQ)), _dg("212F", _len(dep_req))],
            "l_dep424_direct": [_dg("424F", _len(ATR_REQ)), _dg("424F", _len(dep_req))],
            "l_dep_psl_direct": [_dg("106A", _f0(ATR_REQ)), _dg("106A", _f0(bytes.fromhex("d404001203"))),
                                 _dg("424F", _len(dep_req))],
            "l_dep_psl_sdd": anticoll + [_dg("106A", _f0(ATR_REQ)), _dg("106A", _f0(bytes.fromhex("d404001203"))),
                                         _dg("424F", _len(dep_req))],
        }[kind]

    def _out(self, dgs):
        """the station's next activation datagram(s): regular or replaced"""
        self.n_out += 1
        self.answers.append([bytes(d) for d in dgs])
        if self.act_inject is not None and self.act_inject[0] == self.n_out:
            self.act_injected = True
            return [bytes(d) for d in self.act_inject[1]]
        return dgs

    def on_bind(self, sock, addr):
        if sock is not self.sock and self.mode == "activate" and self.step == 0 and self.script:
            self.step = 1
            for d in self._out([self.script[0]]):
                self.sock.sendto(d, DRV)

    def on_datagram(self, data, src, sock):
        self.drv_addr = src
        self.seen.append(bytes(data))
        if data.startswith(b"RFOFF"):
            return ()
        if self.mode == "exchange":
            out, self.inject = self.inject, []
            return out
        if self.kind in REMOTE_KINDS:
            brty, p = _parse(data)
            a = self.card_answer(brty, p) if brty else None
            return self._out([brty.encode() + b" " + a.encode()]) if a is not None else ()
        if self.step < len(self.script):
            self.step += 1
            return self._out([self.script[self.step - 1]])
        return ()


def target_for(kind):
    import nfc.clf
    T = nfc.clf.LocalTarget
    if kind in ("l_tta_tt2", "l_tta_tt4"):
        return T("106A", sens_res=bytearray.fromhex("4400" if kind == "l_tta_tt2" else "4403"),
                 sdd_res=bytearray.fromhex("08010203"), sel_res=bytearray.fromhex("00" if kind == "l_tta_tt2" else "20"))
    if kind == "l_ttb":
        return T("106B", sensb_res=bytearray.fromhex("50e5dd3dc900000011008185"))
    if kind == "l_ttf":
        return T("212F", sensf_res=bytearray(b"\x01" + IDM + PMM + b"\x12\xfc"))
    t = T(atr_res=bytearray(ATR_RES))
    t.sens_res = bytearray.fromhex("0101")
    t.sdd_res = bytearray.fromhex("08010203")
    t.sel_res = bytearray.fromhex("40")
    t.sensf_res = bytearray(b"\x01" + IDM + bytes(8) + b"\xff\xff")
    return t


def enter(net, kind, act_inject=None):
    """the real clf.sense() / clf.listen() against the station -> (clf, station, call); call() performs it and
    returns the target or None (exceptions propagate; the caller closes clf)"""
    import nfc.clf
    from vf.sim import fakenet
    st = Station(net, kind)
    st.act_inject = act_inject
    clf = fakenet.make_clf(net, "udp:localhost:%d" % PORT)
    if kind in REMOTE_KINDS:
        brty = {"ttb": "106B", "ttf212": "212F", "ttf424": "424F"}.get(kind, "106A")
        return clf, st, lambda: clf.sense(nfc.clf.RemoteTarget(brty))
    return clf, st, lambda: clf.listen(target_for(kind), 1.0)


def activate(net, kind):
    """-> (clf, station, brty used for the exchange, valid payload the station may send) or raises SetupError"""
    clf, st, call = enter(net, kind)
    if kind in REMOTE_KINDS:
        brty = {"ttb": "106B", "ttf212": "212F", "ttf424": "424F"}.get(kind, "106A")
        tg = call()
        if tg is None:
            clf.close()
            raise SetupError("sense() found nothing for %s; station saw %r" % (kind, st.seen))
    else:
        tg = call()
        if tg is None or st.step < len(st.script):
            clf.close()
            raise SetupError("listen() returned %s for %s after %d/%d script steps" % (tg, kind, st.step, len(st.script)))
        brty = tg.brty
    if clf.target is None:
        clf.close()
        raise SetupError("frontend holds no target for %s" % kind)
    st.mode = "exchange"
    return clf, st, brty


class SetupError(Exception):
    pass


# ------------------------------------------------------------------------------------------ injections
VALID = bytes.fromhex("0102030405aabbcc")
VALID2 = bytes.fromhex("1112131415ddeeff99")      # the answer of the follow-up exchange


def public_exception_type(exc):
    """True if the concrete type of an exception that left clf.exchange()/sense()/listen() is one of the documented
    public classes (same rule as vf.drivers.pn53x_family.public_exception_type): nfc.clf.CommunicationError and its four
    documented kinds, nfc.clf.UnsupportedTargetError, or a builtin OSError class."""
    import nfc.clf
    t = type(exc)
    if t in (nfc.clf.CommunicationError, nfc.clf.TimeoutError, nfc.clf.TransmissionError, nfc.clf.ProtocolError,
             nfc.clf.BrokenLinkError, nfc.clf.UnsupportedTargetError):
        return True
    return issubclass(t, OSError) and t.__module__ == "builtins"


def datagram_injections(brty):
    """(name, class used in signatures, datagrams)"""
    B = brty.encode()
    other = b"212F" if brty != "212F" else b"424F"
    return [
        ("ok", "valid", [_dg(brty, VALID)]),
        ("ok-uppercase-hex", "valid", [B + b" " + VALID.hex().upper().encode()]),
        ("ok-tab-newline", "valid", [B + b"\t" + VALID.hex().encode() + b"\n"]),
        ("ok-after-skip", "valid", [b"999Z 00", _dg(brty, VALID)]),
        ("ok-after-two-skips", "valid", [b"999Z 00", other + b" 00", _dg(brty, VALID)]),
        ("silence", "silence", []),
        ("unknown-brty", "silence", [b"999Z 00"]),
        ("lowercase-brty", "silence", [B.lower() + b" 00"]),
        ("foreign-brty", "silence", [other + b" 00"]),
        ("rfoff", "rfoff", [b"RFOFF"]),
        ("rfoff-after-skip", "rfoff", [other + b" 00", b"RFOFF"]),
        ("rfoff-suffix", "rfoff-suffix", [b"RFOFF 00"]),
        ("empty", "no-tokens", [b""]),
        ("blanks", "no-tokens", [b"   "]),
        ("nul", "one-token", [b"\x00"]),
        ("no-separator", "one-token", [B + VALID.hex().encode()]),
        ("brty-only", "one-token", [B]),
        ("brty-blank", "one-token", [B + b" "]),
        ("brty-blank-after-skip", "one-token", [b"999Z 00", B + b" "]),
        ("three-tokens", "three-tokens", [B + b" 00 00"]),
        ("odd-hex", "payload-odd-hex", [B + b" 123"]),
        ("odd-hex-after-skip", "payload-odd-hex", [other + b" 00", B + b" abc"]),
        ("non-hex", "payload-non-hex", [B + b" zz"]),
        ("non-hex-after-skip", "payload-non-hex", [b"999Z 00", B + b" 0g"]),
        ("hex-0x-prefix", "payload-non-hex", [B + b" 0x00"]),
        ("non-ascii-payload", "payload-non-hex", [B + b" \xff\xfe"]),
        ("non-ascii-brty", "brty-non-ascii", [b"10\xb6A 00"]),
        ("binary", "brty-non-ascii", [b"\xff\xfe\xfd\xfc\x80\x81 00"]),
        ("huge", "datagram-over-1024", [B + b" " + b"00" * 3000]),
        ("huge-one-token", "datagram-over-1024", [b"A" * 5000]),
    ]


def socket_faults():
    out = []
    for e in ("EIO", "ECONNREFUSED", "ENETUNREACH", "EPIPE", "EBADF"):
        out.append(("sendto-" + e, {"op": "sendto", "errno": getattr(errno, e)}))
    out.append(("sendto-short", {"op": "sendto", "short": 1}))
    out.append(("sendto-zero", {"op": "sendto", "short": "zero"}))
    for e in ("EBADF", "EINTR", "ENOMEM"):
        out.append(("select-" + e, {"op": "select", "errno": getattr(errno, e)}))
    for e in ("ECONNREFUSED", "EIO", "EAGAIN", "ENOTCONN"):
        out.append(("recvfrom-" + e, {"op": "recvfrom", "errno": getattr(errno, e)}))
    out.append(("recvfrom-timeout", {"op": "recvfrom", "timeout": True}))
    return out


def random_datagram(rng, brty):
    B = brty.encode()
    k = rng.randrange(8)
    n = rng.choice([0, 1, 2, 3, 5, 8, 17, 64, 300, 1023, 1024, 1025, 2000])
    if k == 0:
        return rng.randbytes(n)
    if k == 1:
        return B + b" " + rng.randbytes(n)
    if k == 2:
        return B + b" " + bytes(rng.choice(b"0123456789abcdefABCDEF") for _ in range(n))
    if k == 3:
        return bytes(rng.choice(b"0123456789ABF ") for _ in range(n))
    if k == 4:
        return B + rng.choice([b"", b" ", b"  ", b"\t", b"\n", b"\x0b", b"\xa0"]) + rng.randbytes(4).hex().encode() + \
            rng.choice([b"", b" ", b" 00", b"\x00", b"\xff"])
    if k == 5:
        return rng.randbytes(4) + b" " + rng.randbytes(3).hex().encode()
    if k == 6:
        return b"RFOF" + rng.randbytes(rng.randrange(3))
    s = bytearray(_dg(brty, rng.randbytes(rng.randrange(1, 12))))
    for _ in range(rng.randrange(1, 3)):
        s[rng.randrange(len(s))] = rng.randrange(256)
    return bytes(s)


# ------------------------------------------------------------------------------------------ one cell
def _xsig(e):
    s = exc_sig(e)
    if type(e).__module__ not in ("builtins", "nfc.clf") and "." not in s.split("@")[0]:
        s = type(e).__module__ + "." + s
    return s


def exec_case(case):
    """-> dict(outcome=..., exc=exception or None, value=..., setup_error=...)"""
    import nfc.clf
    from vf.sim import fakenet
    net = fakenet.FakeNet(clock="virtual", stall_limit=10.0)
    out = {"outcome": None, "exc": None, "value": None, "setup": None, "frames": 0}
    with net.installed():
        try:
            clf, st, brty = activate(net, case["kind"])
        except SetupError as e:
            out["setup"] = str(e)
            return out
        except Exception as e:
            out["setup"] = "activation raised %s: %r" % (exc_sig(e), e)
            return out
        out["brty"] = brty
        dgs = [bytes(d) for d in case["datagrams"]]
        drv_addr = st.drv_addr if case["kind"] in REMOTE_KINDS else DRV
        if case.get("queued") or case.get("send") is None:
            for d in dgs:
                st.sock.sendto(d, drv_addr)
        else:
            st.inject = dgs
        fault = case.get("fault")
        if fault:
            state = {"n": 0}

            def sock_fault(op, sock, args):
                if sock is st.sock or op != fault["op"]:
                    return None
                state["n"] += 1
                if state["n"] != fault.get("at", 1):
                    return None
                out["fault_fired"] = True
                if "errno" in fault:
                    if fault["errno"] == errno.EAGAIN:
                        return BlockingIOError(errno.EAGAIN, "injected")
                    if fault["errno"] == errno.EINTR:
                        return InterruptedError(errno.EINTR, "injected")
                    return OSError(fault["errno"], "injected")
                if fault.get("timeout"):
                    return _socket.timeout("injected")
                if "short" in fault:
                    return ("return", 0 if fault["short"] == "zero" else max(0, len(args[0]) - 1))
            net.sock_fault = sock_fault
        send = case.get("send")
        try:
            try:
                v = clf.exchange(None if send is None else bytearray(send), case["timeout"])
                out["outcome"], out["value"] = "returned", v
            except BaseException as e:
                out["exc"] = e
                out["outcome"] = _classify(nfc, e)
            if case.get("follow") and not net.aborted:
                # a regular exchange afterwards: a fresh well-formed answer, provoked by the driver's datagram
                net.sock_fault = None
                sock = getattr(clf.device, "socket", None)
                out["leftover"] = len(sock.queue) if sock is not None and hasattr(sock, "queue") else None
                st.inject = [_dg(brty, VALID2)]
                fsend = bytes.fromhex("d50700bb") if case["kind"] in LISTEN_KINDS else bytes.fromhex("3005")
                try:
                    out["follow"] = ("returned", clf.exchange(bytearray(fsend), 0.1), None)
                except BaseException as e:
                    out["follow"] = (_classify(nfc, e), None, e)
        finally:
            net.sock_fault = None
            out["frames"] = net.n_frames
            out["deadlocks"] = net.deadlocks
            out["aborted"] = net.aborted
            try:
                clf.close()
            except Exception:
                pass
    return out


def _classify(nfc, e):
    if isinstance(e, nfc.clf.CommunicationError):
        return "comm:" + type(e).__name__ if public_exception_type(e) else "internal"
    if isinstance(e, OSError):
        return "oserror" if public_exception_type(e) else "internal"
    return "escape"


def judge(case, out, R):
    import nfc.clf
    name = case["inj"]
    kind = case["kind"]
    if out["setup"] is not None:
        R.inconc("udp: could not bring the frontend into %s: %s" % (kind, out["setup"]))
        R.case(["udp", "setup", kind], nontrivial=False)
        return
    if out.get("aborted") or out.get("deadlocks"):
        R.inconc("udp: fake net aborted/deadlocked in %r" % (case,))
        return
    key = ["udp", kind, name, case["timeout"], case.get("queued", False), case.get("send") is None,
           [bytes(d).hex() for d in case["datagrams"]] if name.startswith("random") else None, case.get("fault")]
    R.case(key)
    R.count("udp_exchanges")
    R.seen("udp_kinds", kind)
    R.seen("udp_outcomes", "%s -> %s" % (name if not name.startswith("random") else "random", out["outcome"]))
    if case.get("fault"):
        R.count("udp_socket_faults")
    elif name.startswith("random"):
        R.count("udp_random_datagrams")
    elif case.get("cls") not in ("valid", "silence"):
        R.count("udp_malformed_datagrams")
    e = out["exc"]
    cls = case.get("cls", name)
    role = "listen" if kind in LISTEN_KINDS else "remote"
    t = case["timeout"]
    if t is None:
        R.count("udp_timeout_none_cells")
    elif t == 0:
        R.count("udp_timeout_zero_cells")
    elif 0 < t < 0.001:
        R.count("udp_timeout_tiny_cells")
    if case.get("send") is None:
        R.count("udp_receive_only_cells")
    if e is not None and out["outcome"] != "escape":
        R.count("udp_concrete_type_checked")
    if out["outcome"] == "internal":
        R.count("udp_outcome_internal_type")
        R.violation("udp/internal-type/%s/%s" % (_xsig(e), cls),
                    "clf.exchange() raised the driver-internal %s.%s (derived from a documented class) (%s, injection %s)" % (
                        type(e).__module__, type(e).__name__, kind, name), case)
        return
    if out["outcome"] == "escape":
        R.count("udp_outcome_escape")
        xs = _xsig(e)
        if xs.endswith(":_send_data") and not out.get("fault_fired"):
            cause = "send@" + kind           # fails before anything injected is looked at: the target kind is the cause
        else:
            cause = cls
        R.violation("udp/escape/%s/%s" % (xs, cause),
                    "%s escapes clf.exchange() (%s, injection %s): %r" % (type(e).__name__, kind, name, e), case)
        return
    if out["outcome"] == "returned":
        v = out["value"]
        R.count("udp_outcome_none" if v is None else "udp_outcome_data")
        if v is not None and not isinstance(v, (bytes, bytearray)):
            R.violation("udp/return-type/%s" % type(v).__name__, "exchange() returned %r" % (v,), case)
    elif out["outcome"] == "oserror":
        R.count("udp_outcome_oserror")
    else:
        R.count("udp_outcome_comm_error")
    fault = case.get("fault")
    if fault and out.get("fault_fired") and ("errno" in fault or fault.get("timeout")):
        # a socket call of the driver itself raised OSError: the "host link" of this driver failed
        R.count("udp_socket_clause_checked")
        R.count("udp_socket_clause_%s_checked" % fault["op"])
        if out["outcome"] != "oserror":
            R.violation("udp/socket-clause/%s/%s->%s" % (cls, role, out["outcome"]),
                        "the socket call %s() raised OSError (%s) but exchange() reported %s instead of IOError/OSError" % (
                            fault["op"], cls, out["outcome"]), case)
    fo = out.get("follow")
    if fo is not None:
        first = out["outcome"].split(":")[0]
        R.seen("udp_follow_up_outcomes", "%s after %s -> %s%s" % (role, out["outcome"], fo[0], " (leftover)" if out.get("leftover") else ""))
        if fo[0] == "escape" or fo[0] == "internal":
            R.violation("udp/follow-up/escape/%s/%s" % (_xsig(fo[2]), role), "the exchange after %s (%s) raised %r" % (name, kind, fo[2]), case)
        elif out.get("leftover") or cls in ("rfoff", "rfoff-suffix") or case.get("fault"):
            R.count("udp_follow_up_observed_only")     # datagrams of the first exchange are still queued / the field is gone
        else:
            R.count("udp_follow_up_checked")
            R.count("udp_follow_up_after_" + {"returned": "data", "comm": "comm_error", "oserror": "oserror"}.get(first, first))
            if fo[0] != "returned" or bytes(fo[1] or b"") != VALID2:
                R.violation("udp/follow-up/valid-answer/%s/after-%s->%s" % (role, first if first != "comm" else out["outcome"], fo[0]),
                            "a regular exchange after %s (%s): the well-formed answer is not returned unchanged: %s %r" % (
                                name, out["outcome"], fo[0], fo[1]), case)
    waits = case["timeout"] is None or case["timeout"] > 0
    if not case.get("fault") and waits:
        # finer rules where the cause is unambiguous
        if cls == "silence" and not isinstance(e, nfc.clf.TimeoutError):
            R.violation("udp/wrong-report/silence/%s/%s" % (role, out["outcome"]),
                        "no answer within the time-out is reported as %s, not TimeoutError" % out["outcome"], case)
        if cls == "rfoff" and not isinstance(e, nfc.clf.BrokenLinkError):
            R.violation("udp/wrong-report/rfoff/%s/%s" % (role, out["outcome"]),
                        "field loss (RFOFF) is reported as %s, not BrokenLinkError" % out["outcome"], case)
        if cls == "valid" and 0 < (case["timeout"] or 1) < 0.001 and isinstance(e, nfc.clf.TimeoutError):
            R.count("udp_tiny_timeout_expired_observed")      # one microsecond may be over before the driver looks
        elif cls == "valid":
            if out["outcome"] != "returned" or bytes(out["value"] or b"") != VALID:
                R.violation("udp/wrong-report/valid-answer/%s/%s" % (role, out["outcome"]),
                            "a well-formed answer is not returned unchanged: %s %r" % (out["outcome"], out["value"]), case)


def cells_for(kind, rng, n_random):
    """all cases of one target kind (the brty token is filled in after a reference activation)"""
    from vf.sim import fakenet
    net = fakenet.FakeNet(clock="virtual")
    with net.installed():
        clf, st, brty = activate(net, kind)
        clf.close()
    listen = kind in LISTEN_KINDS
    send = bytes.fromhex("d50700aa") if listen else bytes.fromhex("3004")
    timeouts = [0.1, None] if listen else [0.1]
    cases = []
    for name, cls, dgs in datagram_injections(brty):
        for tmo in timeouts:
            if tmo is None and cls == "silence":
                continue                     # would (correctly) wait for ever
            for queued in (False, True):
                cases.append({"kind": kind, "inj": name, "cls": cls, "datagrams": dgs, "timeout": tmo, "send": send,
                              "queued": queued, "follow": True})
        # the target keeps silence (send_data None) and waits for the next command; an initiator only listens
        cases.append({"kind": kind, "inj": name, "cls": cls, "datagrams": dgs, "timeout": 0.1, "send": None,
                      "queued": True, "follow": True})
        if cls in ("valid", "silence", "rfoff", "payload-non-hex", "one-token"):
            # a time-out of one microsecond (waits, but not measurably)
            cases.append({"kind": kind, "inj": name, "cls": cls, "datagrams": dgs, "timeout": 1e-6, "send": send,
                          "queued": True, "follow": True})
    for tmo in ([0, -1] if not listen else [0]):  # "do not wait"
        cases.append({"kind": kind, "inj": "ok", "cls": "valid", "datagrams": [_dg(brty, VALID)], "timeout": tmo,
                      "send": send, "queued": True})
    for name, fault in socket_faults():
        for at in ((1, 2) if fault["op"] != "sendto" else (1,)):
            dgs = [b"999Z 00", _dg(brty, VALID)] if at == 2 else [_dg(brty, VALID)]
            f = dict(fault)
            f["at"] = at
            cases.append({"kind": kind, "inj": name + ("@2" if at == 2 else ""), "cls": name, "datagrams": dgs,
                          "timeout": 0.1, "send": send, "queued": False, "fault": f, "follow": True})
    for i in range(n_random):
        dgs = [random_datagram(rng, brty) for _ in range(rng.choice([1, 1, 2]))]
        cases.append({"kind": kind, "inj": "random-%d" % len(dgs), "cls": "random-datagram", "datagrams": dgs,
                      "timeout": 0.05, "send": send, "queued": bool(rng.randrange(2))})
    for c in cases:
        c["family"] = "udp"
    return cases


# ------------------------------------------------------------------------------------------ activation
def activation_injections(regular):
    """what replaces the station's datagram `regular` (b"<brty> <hex>") during sense()/listen()"""
    brty, payload = _parse(regular)
    if brty is None:
        return
    B = brty.encode()
    for n in range(1, len(payload)):
        yield "cut-%d" % n, "short-payload", [_dg(brty, payload[:n])]
        # the same with the frame's own length octet made consistent (LEN ... / F0 LEN ...)
        cut = bytearray(payload[:n])
        if payload[0] == len(payload):
            cut[0] = n
        elif payload[0] == 0xF0 and n >= 2 and len(payload) >= 2 and payload[1] == len(payload) - 1:
            cut[1] = n - 1
        if bytes(cut) != payload[:n]:
            yield "cutfix-%d" % n, "short-payload-consistent-length", [_dg(brty, cut)]
    for n in (1, 2):
        yield "surplus-%d" % n, "surplus-payload", [_dg(brty, payload + bytes(range(0xA5, 0xA5 + n)))]
    for k in (3, 4):
        if len(payload) > k:                 # framing and command code kept, every parameter octet FFh / 00h
            yield "tail-ff-%d" % k, "other-parameters", [_dg(brty, payload[:k] + b"\xff" * (len(payload) - k))]
            yield "tail-00-%d" % k, "other-parameters", [_dg(brty, payload[:k] + bytes(len(payload) - k))]
    yield "zero-octet", "short-payload", [_dg(brty, b"\x00")]
    yield "ff-octets", "other-payload", [_dg(brty, b"\xff" * len(payload))]
    yield "zero-octets", "other-payload", [_dg(brty, bytes(len(payload)))]
    for name, cls, dgs in datagram_injections(brty):
        if cls in ("no-tokens", "one-token", "three-tokens", "payload-odd-hex", "payload-non-hex", "brty-non-ascii",
                   "rfoff", "silence", "datagram-over-1024") and "after-skip" not in name:
            yield name, cls, dgs
    yield "malformed-then-regular", "payload-non-hex", [B + b" zz", regular]


def exec_activation(kind, act_inject):
    """-> dict(outcome, exc, injected, answers)"""
    import nfc.clf
    from vf.sim import fakenet
    net = fakenet.FakeNet(clock="virtual", stall_limit=10.0)
    out = {"outcome": None, "exc": None}
    with net.installed():
        clf, st, call = enter(net, kind, act_inject)
        try:
            tg = call()
            if tg is None:
                out["outcome"] = "none"
            elif isinstance(tg, (nfc.clf.RemoteTarget, nfc.clf.LocalTarget)):
                out["outcome"] = "found"
            else:
                out["outcome"] = "ret:" + type(tg).__name__
        except BaseException as e:
            out["exc"] = e
            if isinstance(e, nfc.clf.Error):
                out["outcome"] = ("clf:" + type(e).__name__) if public_exception_type(e) else "internal"
            elif isinstance(e, OSError):
                out["outcome"] = "oserror" if public_exception_type(e) else "internal"
            else:
                out["outcome"] = "escape"
        finally:
            out["injected"] = st.act_injected
            out["answers"] = list(st.answers)
            out["aborted"], out["deadlocks"] = net.aborted, net.deadlocks
            try:
                clf.close()
            except Exception:
                pass
    return out


def judge_activation(case, out, R):
    kind = case["kind"]
    stage = "listen" if kind in LISTEN_KINDS else "sense"
    if out.get("aborted") or out.get("deadlocks"):
        R.inconc("udp: fake net aborted/deadlocked in %r" % (case,))
        return
    R.case(["udp", "activation", kind, case["n"], case["inj"], [bytes(d).hex() for d in case["datagrams"]]],
           nontrivial=bool(out["injected"]))
    R.count("udp_activation_cells")
    R.count("udp_activation_%s_cells" % stage)
    if not out["injected"]:
        R.count("udp_activation_not_injected")
        return
    R.count("udp_activation_injected")
    R.count("udp_activation_outcome_" + out["outcome"].split(":")[0])
    R.seen("udp_activation_outcomes", "%s %s -> %s" % (stage, case["cls"], out["outcome"]))
    e = out["exc"]
    if out["outcome"] == "escape":
        R.violation("udp/escape/%s/activation:%s/%s" % (_xsig(e), stage, case["cls"]),
                    "%s escapes clf.%s() (%s, datagram %d of the activation replaced by %s): %r" % (
                        type(e).__name__, stage, kind, case["n"], case["inj"], e), case)
    elif out["outcome"] == "internal":
        R.violation("udp/internal-type/%s/activation:%s/%s" % (_xsig(e), stage, case["cls"]),
                    "clf.%s() raised the driver-internal %s.%s" % (stage, type(e).__module__, type(e).__name__), case)
    elif out["outcome"].startswith("ret:"):
        R.violation("udp/return-type/%s/activation:%s" % (out["outcome"][4:], stage), "%s() returned a %s" % (stage, out["outcome"][4:]), case)


def activation_cells(kind):
    ref = exec_activation(kind, None)
    if ref["outcome"] != "found" or not ref["answers"]:
        raise SetupError("reference activation of %s gave %s" % (kind, ref["outcome"]))
    cases = []
    for n, regular in enumerate(ref["answers"], 1):
        for name, cls, dgs in activation_injections(regular[0]):
            cases.append({"family": "udp", "stage": "activation", "kind": kind, "n": n, "inj": name, "cls": cls, "datagrams": dgs})
    return cases


def plan_c13(tier):
    if tier == "quick":
        return [{"kinds": KINDS[0::2], "random": 120, "timeout": 300}, {"kinds": KINDS[1::2], "random": 120, "timeout": 300}]
    return [{"kinds": KINDS[i::4], "random": 2500, "timeout": 3000} for i in range(4)]


def run_c13(desc, R, rng):
    import faulthandler
    import sys
    faulthandler.dump_traceback_later(max(25, desc.get("timeout", 300) - 5), exit=True, file=sys.stderr)
    for kind in desc["kinds"]:
        try:
            cases = cells_for(kind, rng, desc["random"])
        except Exception as e:
            R.inconc("udp: reference activation of %s failed: %s %r" % (kind, exc_sig(e), e))
            continue
        R.count("udp_kinds_activated")
        for i, case in enumerate(cases):
            out = exec_case(case)
            judge(case, out, R)
            if i < 1:
                R.sample({"udp_case": {k: case[k] for k in ("kind", "inj", "timeout")}, "outcome": out["outcome"]})
        try:
            acases = activation_cells(kind)
        except Exception as e:
            R.inconc("udp: reference activation of %s failed: %s %r" % (kind, exc_sig(e), e))
            continue
        for case in acases:
            judge_activation(case, exec_activation(kind, (case["n"], case["datagrams"])), R)
    faulthandler.cancel_dump_traceback_later()


def replay_c13(case, R):
    import faulthandler
    import sys
    faulthandler.dump_traceback_later(60, exit=True, file=sys.stderr)
    case = dict(case)
    if case.get("stage") == "activation":
        judge_activation(case, exec_activation(case["kind"], (case["n"], [bytes(d) for d in case["datagrams"]])), R)
        faulthandler.cancel_dump_traceback_later()
        return
    out = exec_case(case)
    judge(case, out, R)
    faulthandler.cancel_dump_traceback_later()
