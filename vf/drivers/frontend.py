"""C13 at the ContactlessFrontend level - the device independent part of the exchange() contract.

The driver families (pn53x_family, rcs380, udp) check what a *driver* makes of chipset status codes and host-link
faults.  This family checks what nfc.clf.ContactlessFrontend itself adds between the application and the driver:
the frontend lock, the "no device" test, the choice of the driver entry by the kind of the captured target, and the
pass-through of the driver's result.  The driver is a scripted stand-in (FakeDevice, a nfc.clf.device.Device
subclass created through the patched nfc.clf.device.connect) whose methods report every entry to the harness, can be
held there, and return / raise what the case prescribes.  The frontend lock is the real threading.Lock the frontend
created, wrapped in GateLock (same acquire/release/with protocol, blocking behaviour is that of the wrapped lock).

Deterministic interleavings of two application threads A ("other activity": close, open, exchange, sense, listen)
and B (the data-path call under test).  One of the two ("first") runs alone up to its k-th *point* and is held
there; the other one then runs until it has finished or waits for the frontend lock; then the first is released.
Points of a thread are, in execution order,
    lock   it is about to acquire the frontend lock (held before the acquisition),
    drv    it has entered a driver method (held inside, with whatever lock it holds),
    line   it is about to execute a line of nfc/clf/__init__.py (sys.settrace in that thread only),
so every "the other thread does all of X between two steps of this call" schedule (one preemption) of every pair is
enumerated, among them: B arrives while A is before the lock in close(), inside driver.close() holding the lock,
after device = None; while A's exchange is inside the driver and then fails; while A re-opens the device.
No sleeps, no wall clock verdicts: all hand-overs are state handshakes on one condition variable; a handshake that
does not complete within the watchdog makes the run INCONCLUSIVE.  A randomized stress part (3-5 threads, random
calls, random yields injected at line events and inside the driver) adds schedules with more preemptions.

Verdict for every exchange() call of either thread (property statement): it returns a bytes-like object or None, or
raises an nfc.clf.CommunicationError subclass or IOError/OSError.  Anything else escaping
    -> frontend/escape/<exchange-initiator|-target|-no-target>/<exception@function>/<other activity>@<point class>
Finer, where the frontend's own view is unambiguous:
    * the driver entry made for this call returned X / raised a documented error E: exchange() returns X / raises an
      E (-> frontend/wrong-report/<exchange-...>/driver-<data|none|E>-><outcome>),
    * the call acquired the frontend lock exactly once and there was no device at that moment: IOError
      (-> frontend/wrong-report/<exchange-...>/closed-><outcome>),
    * the call tries to take the non-reentrant frontend lock while it holds it (-> frontend/self-deadlock/<exchange-...>@<function>).
sense(), listen(), max_send_data_size and max_recv_data_size are run as B as well (they share the lock and the device
test with exchange()); the property statement speaks of exchange() only, so what escapes from them is recorded as an
observation (frontend_not_judged), not as a violation.
"""
import errno
import os
import random
import sys
import threading
import time as _time
import zlib

from vf.core.rec import exc_sig

RULE_C13 = ("cells = other activity A (close, close with failing driver.close, re-open ok / no device / IOError, "
            "exchange ok / TimeoutError / IOError(EIO) from the driver, sense nothing / found, listen activated) x call "
            "under test B (exchange as initiator with time-out 0.1 / 0 / None / driver raising TimeoutError, exchange "
            "as target with data / send_data None + time-out None + link broken, exchange without target, sense of "
            "one / three targets, listen tta / dep, max_send_data_size, max_recv_data_size) x which thread goes first "
            "x the point (lock acquisition, driver entry, source line of nfc/clf/__init__.py) at which it is held "
            "while the other runs, plus both sequential orders and each call alone; stress rounds draw threads, calls "
            "and yield probability from the PRNG.  A cell is distinct by (A, B, first, point index) resp. by the "
            "schedule signature of a stress round; non-trivial if an exchange() outcome was judged in it")
REQUIRED_C13 = ["frontend_cases", "frontend_exchanges_judged", "frontend_solo_calls", "frontend_other_blocked_on_lock",
                "frontend_exchange_waits_for_close_in_driver", "frontend_exchange_held_before_lock_during_close",
                "frontend_exchange_after_close", "frontend_exchange_behind_failing_exchange",
                "frontend_outcome_data", "frontend_outcome_none", "frontend_outcome_enodev",
                "frontend_outcome_comm_error", "frontend_outcome_oserror_from_driver",
                "frontend_timeout_none", "frontend_timeout_zero", "frontend_no_target_calls",
                "frontend_stress_rounds", "frontend_stress_exchanges", "frontend_stress_thread_switches"]
ASSUMPTIONS = ["frontend: the frontend keeps its lock in the attribute `lock` and its driver in `device`, and gets a new "
               "driver from nfc.clf.device.connect (the stand-in driver and the observable lock are installed there)",
               "frontend: a driver method held at its entry stands for blocking host-link I/O of a real driver",
               "frontend: exchange() returning None without a captured target is current (undocumented) behaviour and "
               "accepted as 'None'"]

JUDGED = ("ex_",)                    # calls whose outcome is judged (the property statement names exchange() only)
WATCHDOG = 30.0
FAMILY = "frontend"


# =============================================================================================================
# the world of one case: roles, points, handshakes
# =============================================================================================================
class SelfDeadlock(RuntimeError):
    pass


class World(object):
    def __init__(self):
        self.cv = threading.Condition()
        self.role = {}                   # thread ident -> role name
        self.state = {}                  # role -> 'running' | 'held' | 'done'
        self.waiting = set()             # roles waiting for the frontend lock
        self.holding = None              # role that holds the frontend lock
        self.acqs = {}                   # role -> number of acquisitions so far
        self.snaps = {}                  # role -> [(device is None, target kind)] at each acquisition
        self.points = {}                 # role -> [(kind, name, lockstate)]
        self.hold = None                 # (role, index) - where to hold
        self.held_at = None              # the point description at which the role was held
        self.go = threading.Event()
        self.script = {}                 # role -> {method: spec}
        self.drv = {}                    # role -> [(method, outcome)]
        self.use_after_close = 0
        self.self_deadlock = {}          # role -> function name
        self.timeouts = 0
        self.serial = 0
        self.connect = "ok"              # what the patched nfc.clf.device.connect does
        self.clf = None
        self.stress = None               # (rng factory) yields inside the driver in stress rounds
        self.blocked_while_held = False

    def me(self):
        return self.role.get(threading.get_ident())

    def lockstate(self, role):
        if self.holding == role:
            return "holding-lock"
        n = self.acqs.get(role, 0)
        return "before-lock" if n == 0 else "after-lock"

    def point(self, kind, name):
        role = self.me()
        if role is None:
            return
        pts = self.points.setdefault(role, [])
        pts.append((kind, name, self.lockstate(role)))
        if self.hold == (role, len(pts) - 1):
            with self.cv:
                self.state[role] = "held"
                self.held_at = pts[-1]
                self.cv.notify_all()
            if not self.go.wait(WATCHDOG):
                self.timeouts += 1
            with self.cv:
                self.state[role] = "running"
                self.cv.notify_all()

    def set_state(self, role, st):
        with self.cv:
            self.state[role] = st
            self.cv.notify_all()


_CUR = [None]        # the world nfc.clf.device.connect belongs to (one case at a time per process)


class GateLock(object):
    """the frontend lock, observable: who waits, who holds, what the holder saw when it got it"""

    def __init__(self, real, world):
        self.real = real
        self.world = world

    def acquire(self, blocking=True, timeout=-1):
        w = self.world
        role = w.me()
        if role is None:
            return self.real.acquire(blocking, timeout)
        w.point("lock", "acquire")
        if w.holding == role and type(self.real).__name__ != "RLock":
            # would block for ever on itself: decided here, the call is aborted instead of hanging the shard
            w.self_deadlock[role] = sys._getframe(1).f_code.co_name if sys._getframe(1).f_code.co_name != "__enter__" \
                else sys._getframe(2).f_code.co_name
            raise SelfDeadlock("thread re-acquires the frontend lock it holds")
        got = self.real.acquire(False)
        if not got:
            if not blocking:
                return False
            with w.cv:
                w.waiting.add(role)
                w.cv.notify_all()
            try:
                got = self.real.acquire(True, timeout)
            finally:
                with w.cv:
                    w.waiting.discard(role)
                    w.cv.notify_all()
            if not got:
                return False
        w.holding = role
        w.acqs[role] = w.acqs.get(role, 0) + 1
        clf = w.clf
        if clf is not None:
            w.snaps.setdefault(role, []).append((clf.device is None, type(clf.target).__name__))
        return True

    def release(self):
        w = self.world
        if w.holding == w.me():
            w.holding = None
        self.real.release()

    def locked(self):
        return self.real.locked()

    def __enter__(self):
        self.acquire()
        return self

    def __exit__(self, *a):
        self.release()


# =============================================================================================================
# the scripted driver
# =============================================================================================================
_NS = {}


def _ns():
    """classes that need nfc (imported lazily: the tree under test is put on sys.path by the worker)"""
    if _NS:
        return _NS
    import nfc
    import nfc.clf
    import nfc.clf.device

    RT, LT = nfc.clf.RemoteTarget, nfc.clf.LocalTarget
    ERR = {"TimeoutError": nfc.clf.TimeoutError, "TransmissionError": nfc.clf.TransmissionError,
           "BrokenLinkError": nfc.clf.BrokenLinkError, "ProtocolError": nfc.clf.ProtocolError}

    def make_error(spec):
        if spec.startswith("IOError:"):
            code = getattr(errno, spec.split(":")[1])
            return IOError(code, os.strerror(code))
        return ERR[spec]("scripted " + spec)

    class FakeDevice(nfc.clf.device.Device):
        def __init__(self, world, serial):
            self._path = "fake:%d" % serial
            self._vendor_name = "Fake"
            self._device_name = "Reader"
            self._chipset_name = "Script"
            self.world = world
            self.closed = False

        def _call(self, method, default):
            w = self.world
            role = w.me()
            w.point("drv", method)
            if w.stress is not None:
                w.stress()
            if self.closed:
                w.use_after_close += 1
                raise IOError(errno.ENODEV, os.strerror(errno.ENODEV))
            spec = w.script.get(role, {}).get(method)
            log = w.drv.setdefault(role, [])
            if spec is not None and spec[0] == "raise":
                log.append((method, spec[1]))
                raise make_error(spec[1])
            value = default() if spec is None else spec[1]
            log.append((method, "ret", value))
            return value

        def close(self):
            try:
                self._call("close", lambda: None)
            finally:
                self.closed = True

        def mute(self):
            self._call("mute", lambda: None)

        def sense_tta(self, target):
            found = self._call("sense_tta", lambda: True)
            if found:
                return RT("106A", sens_res=bytearray(b"\x44\x00"), sel_res=bytearray(b"\x00"),
                          sdd_res=bytearray(b"\x04\x01\x02\x03"))

        def sense_ttb(self, target):
            self._call("sense_ttb", lambda: None)

        def sense_ttf(self, target):
            self._call("sense_ttf", lambda: None)

        def sense_dep(self, target):
            self._call("sense_dep", lambda: None)

        def listen_tta(self, target, timeout):
            found = self._call("listen_tta", lambda: True)
            if found:
                return LT("106A", sens_res=target.sens_res, sdd_res=target.sdd_res, sel_res=target.sel_res,
                          tt2_cmd=bytearray(b"\x30\x00"))

        def listen_ttb(self, target, timeout):
            self._call("listen_ttb", lambda: None)

        def listen_ttf(self, target, timeout):
            self._call("listen_ttf", lambda: None)

        def listen_dep(self, target, timeout):
            self._call("listen_dep", lambda: None)

        def send_cmd_recv_rsp(self, target, data, timeout):
            return self._call("send_cmd_recv_rsp", lambda: bytearray(b"R" + bytes(data or b"")))

        def send_rsp_recv_cmd(self, target, data, timeout=None):
            return self._call("send_rsp_recv_cmd", lambda: bytearray(b"C" + bytes(data or b"")))

        def get_max_send_data_size(self, target):
            return self._call("get_max_send_data_size", lambda: 290)

        def get_max_recv_data_size(self, target):
            return self._call("get_max_recv_data_size", lambda: 290)

        def turn_on_led_and_buzzer(self):
            self._call("turn_on_led_and_buzzer", lambda: None)

        def turn_off_led_and_buzzer(self):
            self._call("turn_off_led_and_buzzer", lambda: None)

    def fake_connect(path):
        w = _CUR[0]
        if w is None:
            return None
        w.point("drv", "device.connect")
        if w.stress is not None:
            w.stress()
        how = w.script.get(w.me(), {}).get("device.connect", ("ret", w.connect))[1]
        if how == "none":
            return None
        if how == "ioerror":
            raise IOError(errno.EACCES, os.strerror(errno.EACCES))
        w.serial += 1
        return FakeDevice(w, w.serial)

    f = nfc.clf.__file__
    if f.endswith((".pyc", ".pyo")):
        f = f[:-1]
    _NS.update(nfc=nfc, RT=RT, LT=LT, FakeDevice=FakeDevice, fake_connect=fake_connect, clf_file=f,
               CommErr=nfc.clf.CommunicationError)
    return _NS


class Patched(object):
    """nfc.clf.device.connect -> the scripted driver, for the duration of a shard / replay"""

    def __enter__(self):
        ns = _ns()
        self.saved = ns["nfc"].clf.device.connect
        ns["nfc"].clf.device.connect = ns["fake_connect"]
        return self

    def __exit__(self, *a):
        _ns()["nfc"].clf.device.connect = self.saved
        _CUR[0] = None


# =============================================================================================================
# activities (A) and calls under test (B)
# =============================================================================================================
TTA = dict(sens_res=bytearray(b"\x01\x01"), sdd_res=bytearray.fromhex("08010203"), sel_res=bytearray(b"\x00"))
ATR_RES = bytes.fromhex("d501c023cae6b3182afe3dee0000000e3246666d01011103020013040196")


def _calls():
    ns = _ns()
    RT, LT = ns["RT"], ns["LT"]
    # name -> (initial target state wanted, driver script, function(clf, uid))
    B = {
        "ex_rt": ("rt", {}, lambda clf, u: clf.exchange(b"\x30" + u, 0.1)),
        "ex_rt_t0": ("rt", {}, lambda clf, u: clf.exchange(b"\x30" + u, 0)),
        "ex_rt_tnone": ("rt", {}, lambda clf, u: clf.exchange(b"\x30" + u, None)),
        "ex_rt_timeout": ("rt", {"send_cmd_recv_rsp": ("raise", "TimeoutError")},
                          lambda clf, u: clf.exchange(b"\x30" + u, 0.1)),
        "ex_lt": ("lt", {}, lambda clf, u: clf.exchange(b"\x00" + u, 0.1)),
        "ex_lt_broken": ("lt", {"send_rsp_recv_cmd": ("ret", None)}, lambda clf, u: clf.exchange(None, None)),
        "ex_none": ("none", {}, lambda clf, u: clf.exchange(b"\x30" + u, 0.1)),
        "sense1": ("rt", {}, lambda clf, u: clf.sense(RT("106A"))),
        "sense3": ("rt", {"sense_tta": ("ret", False)},
                   lambda clf, u: clf.sense(RT("106A"), RT("106B"), RT("212F"), iterations=2, interval=0.0)),
        "listen_tta": ("rt", {}, lambda clf, u: clf.listen(LT("106A", **TTA), 0.01)),
        "listen_dep": ("lt", {}, lambda clf, u: clf.listen(LT("106A", atr_res=bytearray(ATR_RES), sensf_res=bytearray(
            b"\x01" + bytes(16) + b"\x12\xfc"), **TTA), 0.01)),
        "max_send": ("rt", {}, lambda clf, u: clf.max_send_data_size),
        "max_recv": ("lt", {}, lambda clf, u: clf.max_recv_data_size),
    }
    A = {
        "close": ({}, lambda clf, u: clf.close()),
        "close_ioerr": ({"close": ("raise", "IOError:EIO")}, lambda clf, u: clf.close()),
        "open_ok": ({"device.connect": ("ret", "ok")}, lambda clf, u: clf.open("fake:re")),
        "open_none": ({"device.connect": ("ret", "none")}, lambda clf, u: clf.open("fake:re")),
        "open_ioerr": ({"device.connect": ("ret", "ioerror")}, lambda clf, u: clf.open("fake:re")),
        "ex_ok": ({}, lambda clf, u: clf.exchange(b"\x31" + u, 0.1)),
        "ex_timeout": ({"send_cmd_recv_rsp": ("raise", "TimeoutError"), "send_rsp_recv_cmd": ("raise", "TimeoutError")},
                       lambda clf, u: clf.exchange(b"\x31" + u, 0.1)),
        "ex_eio": ({"send_cmd_recv_rsp": ("raise", "IOError:EIO"), "send_rsp_recv_cmd": ("raise", "IOError:EIO")},
                   lambda clf, u: clf.exchange(b"\x31" + u, 0.1)),
        "sense_none": ({"sense_tta": ("ret", False)}, lambda clf, u: clf.sense(RT("106A"))),
        "sense_found": ({}, lambda clf, u: clf.sense(RT("106A"))),
        "listen_found": ({}, lambda clf, u: clf.listen(LT("106A", **TTA), 0.01)),
    }
    return A, B


A_NAMES = ["close", "close_ioerr", "open_ok", "open_none", "open_ioerr", "ex_ok", "ex_timeout", "ex_eio",
           "sense_none", "sense_found", "listen_found"]
B_NAMES = ["ex_rt", "ex_rt_t0", "ex_rt_tnone", "ex_rt_timeout", "ex_lt", "ex_lt_broken", "ex_none",
           "sense1", "sense3", "listen_tta", "listen_dep", "max_send", "max_recv"]


def _judged(name):
    return name.startswith(JUDGED)


def new_frontend(world, init):
    ns = _ns()
    _CUR[0] = world
    clf = ns["nfc"].clf.ContactlessFrontend()
    real = getattr(clf, "lock", None)
    if real is None or not hasattr(real, "acquire"):
        raise RuntimeError("frontend has no attribute `lock`")
    clf.lock = GateLock(real, world)
    world.clf = clf
    if clf.open("fake:0") is not True:
        raise RuntimeError("open() of the scripted device failed")
    if init == "rt":
        if clf.sense(ns["RT"]("106A")) is None:
            raise RuntimeError("setup sense() found nothing")
    elif init == "lt":
        if clf.listen(ns["LT"]("106A", **TTA), 0.01) is None:
            raise RuntimeError("setup listen() was not activated")
    return clf


def _outcome(fn, clf, uid):
    """-> dict(kind=data|none|value|comm|oserror|escape, ...) evaluated in the calling thread"""
    ns = _ns()
    try:
        v = fn(clf, uid)
    except ns["CommErr"] as e:
        return {"kind": "comm", "type": type(e).__name__, "text": repr(e)}
    except OSError as e:
        return {"kind": "oserror", "type": errno.errorcode.get(e.errno, str(e.errno)), "text": repr(e)}
    except BaseException as e:                                  # noqa - this is the observation
        return {"kind": "escape", "type": type(e).__name__, "sig": exc_sig(e), "text": repr(e),
                "self_deadlock": isinstance(e, SelfDeadlock)}
    if v is None:
        return {"kind": "none"}
    if isinstance(v, (bytes, bytearray)):
        return {"kind": "data", "value": bytes(v)}
    return {"kind": "value", "type": type(v).__name__, "text": repr(v)[:80]}


def _short(o):
    k = o["kind"]
    if k in ("comm", "oserror", "escape", "value"):
        return "%s:%s" % (k, o["type"])
    return k


def _thread(world, role, fn, clf, uid, results, trace):
    ns = _ns()
    clf_file = ns["clf_file"]

    def local(frame, event, arg):
        if event == "line":
            world.point("line", (frame.f_code.co_name, frame.f_lineno))
        return local

    def glob(frame, event, arg):
        code = frame.f_code
        if code.co_filename == clf_file and code.co_qualname.startswith("ContactlessFrontend."):
            return local
        return None

    def body():
        world.role[threading.get_ident()] = role
        world.set_state(role, "running")
        if trace:
            sys.settrace(glob)
        try:
            results[role] = _outcome(fn, clf, uid)
        finally:
            sys.settrace(None)
            if world.holding == role:                          # an aborted call (self-deadlock) left through `with`
                world.holding = None
            world.set_state(role, "done")

    t = threading.Thread(target=body, name="frontend-" + role, daemon=True)
    t.start()
    return t


def point_name(pt):
    """mechanism name of an interleaving point (no line numbers)"""
    kind, name, ls = pt
    if kind == "lock":
        return "pre-lock" if ls != "holding-lock" else "pre-lock-while-holding"
    if kind == "drv":
        return "in-driver.%s" % name
    return "%s:%s" % (name[0], ls)


def exec_case(case):
    """case: a, b (names or None), first ('A'|'B'|'seqA'|'seqB'|'solo'), k (point index)
    -> dict(results={role: outcome}, world, held=<point>, blocked=<bool>, setup=<error text or None>)"""
    A, B = _calls()
    a, b, first, k = case.get("a"), case.get("b"), case["first"], case.get("k")
    w = World()
    out = {"results": {}, "world": w, "held": None, "blocked": False, "setup": None, "hung": False}
    init = B[b][0] if b else case.get("init", "rt")
    try:
        clf = new_frontend(w, init)
    except Exception as e:
        out["setup"] = "%s %r" % (exc_sig(e), e)
        return out
    w.points.clear()
    w.snaps.clear()
    w.acqs.clear()
    w.drv.clear()
    if a:
        w.script["A"] = dict(A[a][0])
    if b:
        w.script["B"] = dict(B[b][1])
    fns = {"A": A[a][1] if a else None, "B": B[b][2] if b else None}
    uid = {"A": b"A\xa5\x01", "B": b"B\x5a\x02"}
    res = out["results"]
    deadline = _time.monotonic() + WATCHDOG

    def wait(pred):
        with w.cv:
            ok = w.cv.wait_for(pred, max(0.0, deadline - _time.monotonic()))
        if not ok:
            out["hung"] = True
        return ok

    if first in ("solo", "seqA", "seqB"):
        order = {"solo": ["A" if a else "B"], "seqA": ["A", "B"], "seqB": ["B", "A"]}[first]
        for role in order:
            t = _thread(w, role, fns[role], clf, uid[role], res, trace=case.get("trace", first == "solo"))
            if not wait(lambda: w.state.get(role) == "done"):
                return out
            t.join(5)
        return out
    x = first
    y = "B" if x == "A" else "A"
    w.hold = (x, k)
    tx = _thread(w, x, fns[x], clf, uid[x], res, trace=True)
    if not wait(lambda: w.state.get(x) in ("held", "done")):
        return out
    if w.state.get(x) == "held":
        out["held"] = w.held_at
        ty = _thread(w, y, fns[y], clf, uid[y], res, trace=False)
        if not wait(lambda: w.state.get(y) == "done" or y in w.waiting):
            return out
        out["blocked"] = w.state.get(y) != "done"
        w.go.set()
        if not wait(lambda: w.state.get(x) == "done" and w.state.get(y) == "done"):
            return out
        ty.join(5)
    else:
        # the hold point was not reached (the call is not deterministic up to there): run the other one behind it
        out["missed"] = True
        ty = _thread(w, y, fns[y], clf, uid[y], res, trace=False)
        if not wait(lambda: w.state.get(y) == "done"):
            return out
        ty.join(5)
    tx.join(5)
    return out


def cleanup(out):
    w = out["world"]
    w.go.set()
    clf = w.clf
    if clf is not None and not out.get("hung"):
        w.role.pop(threading.get_ident(), None)
        try:
            clf.close()
        except Exception:
            pass


# =============================================================================================================
# oracle
# =============================================================================================================
EX_METHODS = ("send_cmd_recv_rsp", "send_rsp_recv_cmd")


def judge_call(R, case, call, role, o, w, where, held=None):
    """one finished call of `role`; `where` = '<other activity>@<point>' for the signature"""
    short = _short(o)
    if not _judged(call):
        R.count("frontend_other_calls")
        if o["kind"] == "escape":
            R.count("frontend_not_judged_escapes")
            R.seen("frontend_not_judged", "%s/%s/%s" % (call, o["sig"], where))
        return
    R.count("frontend_exchanges_judged")
    R.seen("frontend_outcomes", "%s -> %s" % (call, short))
    snaps = w.snaps.get(role, [])
    cc = call_class(call, snaps)
    if role in w.self_deadlock:
        R.violation("frontend/self-deadlock/%s@%s" % (cc, w.self_deadlock[role]),
                    "%s tries to take the non-reentrant frontend lock while holding it (it would never return)" % call,
                    case)
        return
    if o["kind"] == "escape":
        R.count("frontend_outcome_escape")
        R.violation("frontend/escape/%s/%s/%s" % (cc, o["sig"], where),
                    "%s escapes clf.exchange() (%s, other thread %s held at %s): %s"
                    % (o["type"], call, where, point_name(held) if held else "-", o["text"]), case)
        return
    if o["kind"] == "value":
        R.violation("frontend/return-type/%s/%s" % (cc, o["type"]),
                    "exchange() returned %s" % o["text"], case)
        return
    if o["kind"] == "data":
        R.count("frontend_outcome_data")
    elif o["kind"] == "none":
        R.count("frontend_outcome_none")
    elif o["kind"] == "comm":
        R.count("frontend_outcome_comm_error")
    elif o["type"] == "ENODEV":
        R.count("frontend_outcome_enodev")
    # finer rules
    calls = [c for c in w.drv.get(role, []) if c[0] in EX_METHODS]
    if len(calls) == 1:
        how = calls[0][1]
        if how == "ret":
            got = calls[0][2]
            want = "none" if got is None else "data"
            ok = o["kind"] == want and (want == "none" or o["value"] == bytes(got))
            if not ok:
                R.violation("frontend/wrong-report/%s/driver-%s->%s" % (cc, want, short),
                            "the driver returned %s for this call but exchange() gave %s" % (want, short), case)
        else:
            if how.startswith("IOError:"):
                R.count("frontend_outcome_oserror_from_driver")
                ok = o["kind"] == "oserror" and o["type"] == how.split(":")[1]
            else:
                ok = o["kind"] == "comm" and o["type"] == how
            if not ok:
                R.violation("frontend/wrong-report/%s/driver-%s->%s" % (cc, how.replace(":", "-"), short),
                            "the driver raised %s for this call but exchange() gave %s" % (how, short), case)
    elif len(calls) == 0 and len(snaps) == 1:
        if snaps[0][0]:
            R.count("frontend_exchange_saw_no_device")
            if o["kind"] != "oserror":
                R.violation("frontend/wrong-report/%s/closed->%s" % (cc, short),
                            "there was no device when exchange() held the lock but it gave %s, not IOError" % short, case)
        elif snaps[0][1] == "NoneType":
            R.count("frontend_no_target_calls")


def call_class(call, snaps=()):
    """signature name of a judged call: the role in which exchange() ran (what it saw when it got the lock, else
    what the case set up), not the time-out / script variant"""
    if snaps:
        return {"RemoteTarget": "exchange-initiator", "LocalTarget": "exchange-target"}.get(snaps[-1][1],
                                                                                          "exchange-no-target")
    if call.startswith("ex_lt"):
        return "exchange-target"
    if call == "ex_none":
        return "exchange-no-target"
    return "exchange-initiator"


def activity_class(name):
    if name is None:
        return "none"
    if name.startswith("ex_"):
        return "exchange"
    return name.split("_")[0].rstrip("13")          # close, open, sense, listen, max


def where_of(case, out, role):
    """'<what the other thread did>@<class of the interleaving point>' (mechanism level: no lines, no variants)"""
    first = case["first"]
    other = activity_class(case.get("a") if role == "B" else case.get("b"))
    if first == "solo":
        return "solo"
    if first in ("seqA", "seqB"):
        mine_first = (first == "seqA") == (role == "A")
        return "%s@%s" % (other, "after-this-call" if mine_first else "before-this-call")
    pt = out["held"]
    if pt is None:
        return "%s@not-held" % other
    if first == role:
        return "%s@this-held-%s" % (other, pt[2])
    if pt[0] == "drv":
        return "%s@other-held-in-driver.%s" % (other, pt[1])
    return "%s@other-held-%s" % (other, pt[2])


def judge(case, out, R):
    w = out["world"]
    a, b, first = case.get("a"), case.get("b"), case["first"]
    if out["setup"] is not None:
        R.inconc("frontend: could not set the frontend up for %r: %s" % (case, out["setup"]))
        return
    if out["hung"] or w.timeouts:
        import faulthandler
        faulthandler.dump_traceback(file=sys.stderr)
        R.inconc("watchdog: frontend: handshake did not complete in %r (states %r, waiting %r)"
                 % (case, w.state, sorted(w.waiting)))
        return
    case = dict(case)
    case["family"] = FAMILY
    case["_uid"] = {"A": b"A\xa5\x01", "B": b"B\x5a\x02"}
    res = out["results"]
    nontrivial = any(_judged(n) for n in (a, b) if n)
    pt = out["held"]
    R.case([FAMILY, a, b, first, case.get("k"), list(pt[1]) if pt and pt[0] == "line" else (pt[1] if pt else None)],
           nontrivial=nontrivial)
    R.count("frontend_cases")
    if first == "solo":
        R.count("frontend_solo_calls")
    if out.get("missed"):
        R.count("frontend_hold_point_not_reached")
    if w.use_after_close:
        R.count("frontend_driver_used_after_close_not_judged", w.use_after_close)
    if out["blocked"]:
        R.count("frontend_other_blocked_on_lock")
    elif first in ("A", "B") and pt is not None and pt[2] == "holding-lock":
        R.count("frontend_other_completed_while_lock_held_not_judged")
    # the classes the property needs to have seen
    if pt is not None:
        R.seen("frontend_points", "%s:%s" % ("A" if first == "A" else "B", point_name(pt)))
        if first == "A" and a in ("close", "close_ioerr") and b and _judged(b):
            if pt[0] == "drv" and pt[1] == "close" and out["blocked"]:
                R.count("frontend_exchange_waits_for_close_in_driver")
            if pt[2] == "after-lock":
                R.count("frontend_exchange_after_close")
        if first == "B" and b and _judged(b) and a in ("close", "close_ioerr", "open_none", "open_ioerr"):
            if pt[2] == "before-lock":
                R.count("frontend_exchange_held_before_lock_during_close")
        if first == "A" and a in ("ex_timeout", "ex_eio") and b and _judged(b) and out["blocked"]:
            R.count("frontend_exchange_behind_failing_exchange")
    if first == "seqA" and a in ("close", "close_ioerr") and b and _judged(b):
        R.count("frontend_exchange_after_close")
    if b in ("ex_rt_tnone", "ex_lt_broken") and "B" in res:
        R.count("frontend_timeout_none")
    if b == "ex_rt_t0" and "B" in res:
        R.count("frontend_timeout_zero")
    for role, call in (("A", a), ("B", b)):
        if call and role in res:
            judge_call(R, case, call, role, res[role], w, where_of(case, out, role), out["held"])


# =============================================================================================================
# enumeration
# =============================================================================================================
def count_points(a, b, role):
    """points of `role` when it runs alone (the other thread has not started before the hold)"""
    case = {"a": a if role == "A" else None, "b": b if role == "B" else None, "first": "solo", "trace": True}
    if role == "A":
        case["init"] = _calls()[1][b][0]
    out = exec_case(case)
    return list(out["world"].points.get(role, [])), case, out


def run_pair(R, a, b, rng, frac):
    """all one-preemption schedules of the pair.  frac < 1 (quick tier): of the source lines at which the held thread
    owns the lock (the other one then has to wait whatever the line is) only that fraction is used, and for calls
    that are not judged that fraction of all points"""
    full = _judged(b)
    for role in ("A", "B"):
        pts, case, out = count_points(a, b, role)
        if role == "B" or _judged(a):
            judge(case, out, R)                    # each call alone (single threaded behaviour)
        cleanup(out)
        if out["setup"] or out["hung"]:
            return False
        for k, pt in enumerate(pts):
            if frac < 1.0 and (not full or (pt[0] == "line" and pt[2] == "holding-lock")) and rng.random() >= frac:
                continue
            case = {"a": a, "b": b, "first": role, "k": k}
            out = exec_case(case)
            judge(case, out, R)
            cleanup(out)
            if out["hung"]:
                return False
    for first in ("seqA", "seqB"):
        case = {"a": a, "b": b, "first": first}
        out = exec_case(case)
        judge(case, out, R)
        cleanup(out)
        if out["hung"]:
            return False
    return True


# =============================================================================================================
# stress rounds
# =============================================================================================================
STRESS_OPS = [("exchange", 40), ("close", 8), ("open", 12), ("open_none", 3), ("sense", 12), ("sense_none", 4),
              ("listen", 6), ("max_send", 4), ("max_recv", 4), ("ctx", 2)]


def stress_round(R, cfg, record=True):
    ns = _ns()
    RT, LT = ns["RT"], ns["LT"]
    clf_file = ns["clf_file"]
    w = World()
    try:
        clf = new_frontend(w, "rt")
    except Exception as e:
        R.inconc("frontend: stress setup failed: %s %r" % (exc_sig(e), e))
        return False
    tl = threading.local()

    def drv_yield():
        r = tl.rng.random()
        if r < 0.7:
            _time.sleep(0)
        elif r < 0.95:
            _time.sleep(0.00002)
        else:
            _time.sleep(0.0002)
    w.stress = drv_yield
    names = [o for o, _ in STRESS_OPS]
    weights = [x for _, x in STRESS_OPS]
    p = cfg["p_yield"]
    sched = {"last": None, "switches": 0, "sig": 0, "lines": 0}
    results = []
    mu = threading.Lock()

    def local(frame, event, arg):
        if event == "line":
            me = tl.role
            sched["lines"] += 1
            if sched["last"] != me:
                sched["last"] = me
                sched["switches"] += 1
                sched["sig"] = zlib.crc32(("%s|%s|%d" % (me, frame.f_code.co_name, frame.f_lineno)).encode(),
                                          sched["sig"])
            if tl.rng.random() < p:
                _time.sleep(0 if tl.rng.random() < 0.85 else 0.00005)
        return local

    def glob(frame, event, arg):
        return local if frame.f_code.co_filename == clf_file else None

    def worker(i):
        role = "T%d" % i
        tl.role = role
        tl.rng = random.Random(cfg["seed"] * 131 + i)
        lr = random.Random(cfg["seed"] * 977 + i)
        w.role[threading.get_ident()] = role
        sys.settrace(glob)
        try:
            for n in range(cfg["calls"]):
                op = lr.choices(names, weights)[0]
                uid = bytes([0x40 + i, n & 0xff, n >> 8])
                w.script[role] = {}
                if op == "exchange":
                    fn = lambda c, u: c.exchange(b"\x30" + u, lr.choice([0.1, 0, None]))     # noqa
                elif op == "close":
                    fn = lambda c, u: c.close()                                               # noqa
                elif op == "open":
                    fn = lambda c, u: c.open("fake:s")                                        # noqa
                elif op == "open_none":
                    w.script[role] = {"device.connect": ("ret", "none")}
                    fn = lambda c, u: c.open("fake:s")                                        # noqa
                elif op == "sense":
                    fn = lambda c, u: c.sense(RT("106A"))                                     # noqa
                elif op == "sense_none":
                    w.script[role] = {"sense_tta": ("ret", False)}
                    fn = lambda c, u: c.sense(RT("106A"), RT("212F"))                         # noqa
                elif op == "listen":
                    fn = lambda c, u: c.listen(LT("106A", **TTA), 0.001)                      # noqa
                elif op == "max_send":
                    fn = lambda c, u: c.max_send_data_size                                    # noqa
                elif op == "max_recv":
                    fn = lambda c, u: c.max_recv_data_size                                    # noqa
                else:
                    def fn(c, u):
                        with c:
                            c.max_recv_data_size
                        c.open("fake:ctx")
                o = _outcome(fn, clf, uid)
                if op == "exchange" and o["kind"] == "data" and o["value"][1:] != b"\x30" + uid:
                    o = dict(o, foreign=True)
                with mu:
                    results.append((role, op, o, role in w.self_deadlock))
                w.self_deadlock.pop(role, None)
                if w.holding == role:
                    w.holding = None
        finally:
            sys.settrace(None)

    old = sys.getswitchinterval()
    sys.setswitchinterval(cfg["switch_us"] * 1e-6)
    threads = [threading.Thread(target=worker, args=(i,), name="frontend-T%d" % i, daemon=True)
               for i in range(cfg["threads"])]
    t0 = _time.monotonic()
    try:
        for t in threads:
            t.start()
        for t in threads:
            t.join(max(0.0, t0 + cfg.get("watchdog", 60) - _time.monotonic()))
    finally:
        sys.setswitchinterval(old)
    case = {"family": FAMILY, "kind": "stress", "cfg": cfg}
    if any(t.is_alive() for t in threads):
        import faulthandler
        faulthandler.dump_traceback(file=sys.stderr)
        R.inconc("watchdog: frontend: stress round %r did not finish" % (cfg,))
        return False
    w.stress = None
    try:
        clf.close()
    except Exception:
        pass
    nex = 0
    for role, op, o, sdl in results:
        short = _short(o)
        R.seen("frontend_stress_outcomes", "%s -> %s" % (op, short))
        if op != "exchange":
            if o["kind"] == "escape":
                R.count("frontend_not_judged_escapes")
                R.seen("frontend_not_judged", "%s/%s/stress" % (op, o["sig"]))
            continue
        nex += 1
        R.count("frontend_exchanges_judged")
        if sdl:
            R.violation("frontend/self-deadlock/exchange@stress", "exchange() re-acquires the frontend lock it holds", case)
        elif o["kind"] == "escape":
            R.violation("frontend/escape/exchange-any/%s/stress" % o["sig"],
                        "%s escapes clf.exchange() in a stress round: %s" % (o["type"], o["text"]), case)
        elif o["kind"] == "value":
            R.violation("frontend/return-type/exchange-any/%s" % o["type"], "exchange() returned %s" % o["text"], case)
        elif o.get("foreign"):
            R.violation("frontend/wrong-report/exchange-any/foreign-data",
                        "exchange() returned data that is not the driver's answer to this call: %r" % o["value"], case)
    R.count("frontend_stress_rounds")
    R.count("frontend_stress_exchanges", nex)
    R.count("frontend_stress_calls", len(results))
    R.count("frontend_stress_thread_switches", max(0, sched["switches"] - 1))
    R.count("frontend_stress_line_events", sched["lines"])
    if w.use_after_close:
        R.count("frontend_driver_used_after_close_not_judged", w.use_after_close)
    R.seen("frontend_schedule_signatures", "%08x" % sched["sig"])
    if record:
        R.case([FAMILY, "stress", "%08x" % sched["sig"], sched["switches"]], nontrivial=nex > 0 and sched["switches"] > 1)
    return True


# =============================================================================================================
# family interface
# =============================================================================================================
def plan_c13(tier):
    if tier == "quick":
        return [{"nshards": 2, "idx": i, "frac": 0.25, "rounds": 10, "threads": [3, 4], "calls": [10, 30], "timeout": 120}
                for i in range(2)]
    return [{"nshards": 4, "idx": i, "frac": 1.0, "rounds": 150, "threads": [3, 6], "calls": [20, 80], "timeout": 900}
            for i in range(4)]


def run_c13(desc, R, rng):
    import faulthandler
    faulthandler.dump_traceback_later(max(25, desc.get("timeout", 120) - 5), exit=True, file=sys.stderr)
    try:
        with Patched():
            pairs = [(a, b) for a in A_NAMES for b in B_NAMES]
            ok = True
            for j, (a, b) in enumerate(pairs):
                if j % desc["nshards"] != desc["idx"]:
                    continue
                if not run_pair(R, a, b, rng, desc["frac"]):
                    ok = False
                    break
            lo, hi = desc["threads"]
            clo, chi = desc["calls"]
            for r in range(desc["rounds"] if ok else 0):
                cfg = {"seed": rng.getrandbits(40), "threads": rng.randrange(lo, hi + 1),
                       "calls": rng.randrange(clo, chi + 1), "p_yield": rng.choice([0.02, 0.1, 0.3, 0.5]),
                       "switch_us": rng.choice([5, 50, 1000, 5000])}
                if not stress_round(R, cfg):
                    break
    finally:
        faulthandler.cancel_dump_traceback_later()


def replay_c13(case, R):
    import faulthandler
    faulthandler.dump_traceback_later(120, exit=True, file=sys.stderr)
    try:
        with Patched():
            if case.get("kind") == "stress":
                # a free-running schedule cannot be forced: the one-preemption enumeration reproduces the mechanisms
                # deterministically, then the recorded round is repeated a few times (best effort)
                rng = random.Random(0)
                for a in A_NAMES:
                    for b in B_NAMES:
                        if _judged(b):
                            run_pair(R, a, b, rng, 1.0)
                for i in range(5):
                    stress_round(R, dict(case["cfg"]))
            else:
                c = {k: v for k, v in case.items() if k not in ("family", "_uid")}
                out = exec_case(c)
                judge(c, out, R)
                cleanup(out)
    finally:
        faulthandler.cancel_dump_traceback_later()
