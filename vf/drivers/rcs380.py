"""RC-S380 (Sony NFC Port-100) driver family for C13 and C14.

The real driver (nfc.clf.rcs380, created through its own init()) runs under a real ContactlessFrontend on the
chipset simulator vf.sim.chipsets.rcs380.Port100Sim.  Everything is observed at ContactlessFrontend.exchange()
(C13) and at the bytes the driver writes to / reads from the transport (C14).

C13 monitor   for every target kind: real clf.sense()/clf.listen() against the simulator, one reference
              exchange (n host commands), then for k = 1..n and every status / host-link fault one exchange with the
              fault at host command k; the outcome must be data | None (as target only) | nfc.clf.CommunicationError
              subclass | IOError, judged by the concrete type of what was raised (a driver-internal class derived
              from a documented one is an escape too).  Finer clauses for communication status words: as a
              listening target every word with RF_OFF_ERROR set -> BrokenLinkError (the external field is gone
              whatever else the chip noticed); otherwise every word with RECEIVE_TIMEOUT_ERROR set -> TimeoutError
              (both whatever other bits, documented or not, are set); words made of documented bits only: without
              the time-out bit never TimeoutError, without the RF-off bit never BrokenLinkError (about the other bits
              the chip documentation is silent).
              Data clause: an exchange that ends in data returns exactly the octets the simulated remote sent
              during this exchange (not judged where the chip delivered a well-formed response frame with other
              content); if the response frame fails the independent frame check and other data comes back:
              rcs380/data-differs/frame-check-failed:<rule>.
              Sequences on one session: time-out argument classes (0, None, < 1 ms, regular, 65.535 s, above) x
              remote answers / keeps silent x send+receive / receive only, each followed by regular exchanges;
              two-fault schedules (soft host-link fault at a preparatory command + RF status / host-link fault
              later in the same exchange; RF status then hard host-link fault in consecutive exchanges and the
              reverse; ordered pairs of RF status words) after 0..5 successful exchanges; unread transfers left
              in the bulk-in pipe by a failed command must not answer the next one.
              Host-link clause: where the simulated transport itself raised IOError (write / ACK read / response
              read of host command k: the harness knows the chip never saw, never acknowledged or never answered
              the command) the only acceptable report is IOError - not an RF error, not data, not None / "no
              target".  (Exception, observed only: ETIMEDOUT of the response read of InCommRF/TgCommRF, which a
              driver that bounds this read by a host time-out could not tell from RF silence; the unchanged driver
              reads without time-out and lets the IOError through.)  The same clause and the coarse clause (target
              object | None | nfc.clf.Error subclass | IOError) run over the real clf.sense()/clf.listen() of every
              target kind, with and without a remote device, the fault at every host command of the activation.
              Device init()/close() under the same faults are observed (no verdict).
C14 monitors  frames: Chipset.send_command() and the Frame class for all command codes x payload lengths, every
              written frame against vf.ref.port100_frames; responses: how corrupted responses are handled (recorded
              only); t2crc: the driver-side CRC_A check of Type 2 Tag responses against a bit-serial reference;
              selres: the same for Type A cards over every SEL_RES value (driver-side check for (SEL_RES & 60h) == 0,
              chip-side otherwise; the simulated chip follows InSetProtocol add_crc / check_crc, a card ignores a
              command sent without CRC) and the CRC-less one octet ACK/NAK, which must reach the caller.
"""
import itertools
import random

from vf.core import vclock
from vf.core.rec import exc_sig, exc_text
from vf.ref import port100_frames as pf
from vf.sim.chipsets import rcs380 as S

FAM = "rcs380"

RULE_C13 = ("cells = target kind (9 remote cards: T1T/T2T/T4A/DEP 106A, 106B, 212F/424F tag and DEP; 7 listen modes: "
            "tt2, tt4, tt3 212/424, dep 106A/212F/424F) x host command k of the exchange (all n of the reference run) x "
            "fault: RF commands get every single status bit (32), every non-empty combination of the 12 documented bits "
            "(4095 words: all pairs, triples, ... in initiator and target role), thorough also all pairs of all 32 "
            "bits, FFFFFFFFh, 1000 (thorough 40000) random 32-bit words; "
            "configuration commands get all 255 non-zero status bytes; every command gets every host-link fault "
            "(time-out/EIO/ENODEV at write, first and second read, missing/duplicate/short ACK, every truncation of the "
            "response frame and of its payload, every single-bit flip, wrong LCS/DCS/postamble/start code, error "
            "frames, wrong response code/direction, garbage, well-formed responses with 1/2/5 surplus payload octets). "
            "Activation cells = the 16 kinds + 8 'nobody there' kinds (no card / no reader: sense() and listen() run to their end) x host command k of the real clf.sense()/"
            "clf.listen() (all n of the reference run, SwitchRF of mute() included) x every transport IOError "
            "(3 errnos x write/ACK/response phase), surplus responses, wrong/missing/cut ACK, wrong response "
            "code/direction, error frames, every truncation of frame and payload, status bytes 01h/02h/7Fh/FFh "
            "(configuration commands) and the 12 documented status bits (RF commands). init()/close(): the same "
            "faults at each of their host commands, observed only. "
            "Sequences: per kind 13 time-out values x remote answers/silent x send+receive/receive-only (target), "
            "each after one and before two regular exchanges; two-fault schedules (quick: 40 sampled in-exchange pairs, 24 "
            "cross-exchange pairs, 24 ordered RF status pairs per kind; thorough: all) after 0..5 successful exchanges; "
            "unread-transfer schedules at every host command. "
            "A cell is distinct by (stage, kind, k, fault) / the whole step list and non-trivial "
            "when the scripted fault was really delivered by the simulator during the exchange.")
RULE_C14 = ("frames: every command code of the driver's table x payload lengths (quick 0..6, 250..270, 508..516, "
            "boundaries up to the 16 bit maximum, random; thorough every length 0..1100 per code and every length "
            "0..65533 through the Frame class) x random contents, each written frame checked by the independent "
            "validator and decoded back to (code, payload); responses: every single-bit flip, truncation and extension "
            "of valid responses (outcome classes recorded, no verdict); t2crc: Type 2 Tag responses with "
            "valid CRC_A (all 1-byte, sampled/all 2-byte, random longer messages) must come back unchanged, every "
            "single-bit corruption and random wrong CRCs must not be returned as data; selres: Type A cards with every "
            "SEL_RES (quick: the 64 values with (SEL_RES & 60h) == 0 and 7 others; thorough: all 256) x valid / bit-flipped / "
            "substituted answers of 1, 4, 16 (thorough more) octets + CRC-less 1 and 2 octet answers. "
            "A case is distinct by its bytes.")
REQUIRED_C13 = ["rcs380_c13_cells", "rcs380_c13_cells_rf_status", "rcs380_c13_cells_status_byte",
                "rcs380_c13_cells_hostlink", "rcs380_c13_reference_exchanges", "rcs380_c13_host_frames_validated",
                "rcs380_c13_finer_timeout_checked", "rcs380_c13_finer_rf_off_alone_checked",
                "rcs380_c13_finer_rf_off_combined_checked",
                # host-link clause (exchange): every phase, preparatory and RF commands, both roles
                "rcs380_c13_hostlink_write_checked", "rcs380_c13_hostlink_ack_checked", "rcs380_c13_hostlink_rsp_checked",
                "rcs380_c13_hostlink_preparatory_checked", "rcs380_c13_hostlink_rf_command_checked",
                "rcs380_c13_hostlink_as_initiator_checked", "rcs380_c13_hostlink_as_target_checked",
                "rcs380_c13_surplus_delivered", "rcs380_c13_wrong_ack_delivered", "rcs380_c13_wrong_rsp_code_delivered",
                # activation (real sense()/listen())
                "rcs380_c13_activation_cells", "rcs380_c13_activation_absent_cells",
                "rcs380_c13_hostlink_sense_checked", "rcs380_c13_hostlink_listen_checked",
                "rcs380_c13_hostlink_sense_preparatory_checked", "rcs380_c13_hostlink_listen_preparatory_checked",
                "rcs380_c13_activation_surplus_delivered", "rcs380_c13_activation_wrong_ack_delivered",
                "rcs380_c13_activation_wrong_rsp_code_delivered",
                "rcs380_c13_init_observed", "rcs380_c13_close_observed",
                # finer RF status clauses over all words that contain the documented bit
                "rcs380_c13_finer_timeout_combined_checked", "rcs380_c13_finer_timeout_with_undocumented_checked",
                "rcs380_c13_finer_timeout_as_initiator_checked", "rcs380_c13_finer_timeout_as_target_checked",
                "rcs380_c13_finer_rf_off_with_undocumented_checked",
                # 'returns the received data', concrete exception types
                "rcs380_c13_fidelity_checked", "rcs380_c13_fidelity_as_initiator_checked",
                "rcs380_c13_fidelity_as_target_checked", "rcs380_c13_concrete_type_checked",
                "rcs380_c13_concrete_type_exchange_checked", "rcs380_c13_concrete_type_sense_checked",
                "rcs380_c13_concrete_type_listen_checked", "rcs380_c13_fault_reached",
                # time-out argument classes
                "rcs380_c13_timeouts_steps", "rcs380_c13_timeouts_as_initiator", "rcs380_c13_timeouts_as_target",
                "rcs380_c13_timeouts_zero", "rcs380_c13_timeouts_none", "rcs380_c13_timeouts_below_1ms",
                "rcs380_c13_timeouts_above_65535ms", "rcs380_c13_timeouts_receive_only",
                "rcs380_c13_timeouts_silent_checked", "rcs380_c13_timeouts_answer_checked",
                "rcs380_c13_timeouts_follow_ups_demanded",
                # two-fault schedules, exchanges after successful ones
                "rcs380_c13_schedule_fault_steps", "rcs380_c13_schedule_two_faults_in_one_exchange",
                "rcs380_c13_schedule_fault_after_faulty_exchange", "rcs380_c13_schedule_warm_exchanges",
                "rcs380_c13_schedule_follow_ups", "rcs380_c13_schedule_follow_ups_demanded",
                "rcs380_c13_schedule_follow_ups_with_unread_transfers"]
REQUIRED_C14 = ["rcs380_c14_frames_validated", "rcs380_c14_frame_class_validated", "rcs380_c14_rsp_mutations",
                "rcs380_c14_t2crc_valid_returned", "rcs380_c14_t2crc_corrupt_rejected",
                "rcs380_c14_operation_frames_validated",
                # SEL_RES sweep: driver-side CRC_A check for every Type 2 Tag platform SEL_RES, chip-side for the others
                "rcs380_c14_selres_00_cells", "rcs380_c14_selres_tt2_nonzero_cells", "rcs380_c14_selres_iso_or_dep_cells",
                "rcs380_c14_selres_tt2_nonzero_valid_returned", "rcs380_c14_selres_tt2_nonzero_corrupt_rejected",
                "rcs380_c14_selres_iso_or_dep_valid_returned", "rcs380_c14_selres_iso_or_dep_corrupt_rejected",
                "rcs380_c14_acknak_cases", "rcs380_c14_acknak_returned", "rcs380_c14_acknak_rejected_non_tt2"]
ASSUMPTIONS = [
    "rcs380: vf.sim.chipsets.rcs380 follows the Port-100 host protocol (frame format, command/response layouts as in "
    "the public Linux port100 driver); its answers agree with the literal transcripts of tests/test_clf_rcs380.py",
    "rcs380: a device that stays silent is reported by the transport as IOError(ETIMEDOUT) (the real USB transport "
    "called with timeout 0 would block instead)",
    "rcs380: after an injected fault the following host commands of the same exchange are answered regularly",
    "rcs380: a host command whose write or ACK read fails with IOError was not executed by the chip; one whose "
    "response read fails was executed and its answer lost",
    "rcs380: Type 2 Tag responses of 2 bytes or less carry no CRC (ACK/NAK) and are outside the CRC oracle",
    "rcs380: with InSetProtocol add_crc = 0 the chip transmits the host's octets unchanged and a card ignores a command "
    "that needs a CRC and has none; with check_crc = 0 the chip hands out the CRC octets unverified",
    "rcs380: (unread-transfer schedules only) a transfer the host did not read stays in the USB bulk-in pipe until it is "
    "read or the host writes an ACK frame",
    "rcs380: a well-formed response frame (LEN, LCS, DCS, postamble, code correct) is what the chip said: data that "
    "differs from the remote's is prosecuted only if the frame fails the independent frame check",
]

_CLOCK = None


def _setup():
    """virtual clock under the driver and the frontend (idempotent)"""
    global _CLOCK
    import nfc.clf
    import nfc.clf.rcs380
    if _CLOCK is None:
        _CLOCK = vclock.patch([nfc.clf.rcs380, nfc.clf])
    return _CLOCK


def _xsig(e):
    """exception type @ innermost nfc function, class-qualified (Frame.__init__ and CommunicationError.__init__
    are different mechanisms)"""
    loc = None
    tb = e.__traceback__
    while tb is not None:
        code = tb.tb_frame.f_code
        fn = code.co_filename.replace("\\", "/")
        if "/nfc/" in fn and not fn.startswith("/verif/"):
            loc = "%s:%s" % (fn[fn.rfind("/nfc/") + 1:], getattr(code, "co_qualname", code.co_name))
        tb = tb.tb_next
    if loc is None:
        return exc_sig(e)
    name = type(e).__name__
    if type(e).__module__ == "struct":
        name = "struct." + name
    return "%s@%s" % (name, loc)


# ======================================================================================================
# sessions: the real driver brought into a target kind through the real sense()/listen()
# ======================================================================================================
CARD_KINDS = list(S.RemoteCard.KINDS)
INI_KINDS = list(S.RemoteInitiator.KINDS)
ALL_KINDS = CARD_KINDS + INI_KINDS

ATR_REQ = bytes.fromhex("d400" "01fe1112131415161718" "00000032" "46666d010111")
ATR_RES = bytes.fromhex("d501" "01fe2122232425262728" "0000000832" "46666d010113")


class SetupError(Exception):
    pass


class Session:
    def __init__(self, kind, activate=True, absent=False, sel_res=None):
        """absent: nobody in front of the chip (no card in the field / no reader): sense()/listen() find nothing
        sel_res: the Type A card answers this SEL_RES instead of its kind's usual one"""
        import nfc.clf
        self.nfc = nfc
        self.kind = kind
        self.is_target = kind in INI_KINDS
        self.absent = absent
        self.clock = _setup()
        self.card = S.RemoteCard(kind, sel_res=sel_res) if not self.is_target else None
        self.ini = S.RemoteInitiator(kind) if self.is_target else None
        self.sim = S.Port100Sim(clock=self.clock, card=None if absent else self.card,
                                initiator=None if absent else self.ini)
        self.clf, self.dev = S.open_driver(self.sim)
        self.seq = 0
        if activate:
            self.activate()

    def activate(self):
        t = self.enter()
        if not self.is_target:
            if t is None:
                raise SetupError("sense() found no %s target" % self.kind)
            for name, val in self.card.expected_target().items():
                if bytes(getattr(t, name) or b"") != val:
                    raise SetupError("%s: sense() %s=%r, card says %r" % (self.kind, name, getattr(t, name), val))
            return
        k = self.kind
        if t is None:
            raise SetupError("listen() was not activated as %s" % k)
        want = {"TT2": "tt2_cmd", "TT4": "tt4_cmd", "TT3": "tt3_cmd", "DEP": "dep_req"}[k[:3]]
        if getattr(t, want) is None:
            raise SetupError("%s: listen() target without %s" % (k, want))

    def enter(self):
        """the real clf.sense() / clf.listen() for this kind -> whatever it returns (exceptions propagate)"""
        nfc = self.nfc
        if not self.is_target:
            return self.clf.sense(nfc.clf.RemoteTarget(self.card.brty))
        k = self.kind
        lt = nfc.clf.LocalTarget(self.ini.brty)
        if k.startswith("DEP"):
            lt = nfc.clf.LocalTarget()
            lt.atr_res = bytearray(ATR_RES)
        if k.startswith("DEP") or self.ini.brty == "106A":
            lt.sens_res = bytearray.fromhex("0101")
            lt.sdd_res = bytearray.fromhex("08010203")
            lt.sel_res = bytearray.fromhex({"TT2": "00", "TT4": "20"}.get(k, "40"))
        if k.startswith("DEP"):
            lt.sensf_res = bytearray.fromhex("0101fe0102030405060000000000000000ffff")
        elif k.startswith("TT3"):
            lt.sensf_res = bytearray.fromhex("0102fe010203040506ffffffffffffffff12fc")
        return self.clf.listen(lt, 1.0)

    def send_data(self):
        """what the exchange sends; carries a sequence number"""
        self.seq += 1
        tok = bytes([0x5A, self.seq & 0xFF, (self.seq >> 8) & 0xFF])
        k = self.kind
        if k == "T1T":
            return bytes.fromhex("000000") + self.card.uid, 0.1
        if k == "T2T":
            return bytes([0x30, 4 + self.seq % 32]), 0.1
        if k == "T4A":
            return bytes.fromhex("e080"), 0.1
        if k == "DEPA":
            return b"\xf0" + bytes([len(ATR_REQ) + 1]) + ATR_REQ, 0.1
        if k == "T4B":
            return b"\x1d" + self.card.pupi + bytes.fromhex("00080100"), 0.1
        if k in ("T3T212", "T3T424"):
            body = b"\x06" + self.card.idm + bytes.fromhex("010b00018000") + tok
            return bytes([len(body) + 1]) + body, 0.1
        if k in ("DEPF212", "DEPF424"):
            return bytes([len(ATR_REQ) + 1]) + ATR_REQ, 0.1
        if k == "TT2":
            return bytes(13) + tok, 0.5
        if k == "TT4":
            return bytes.fromhex("02") + tok + bytes.fromhex("9000"), 0.5
        if k.startswith("TT3"):
            body = b"\x07" + bytes.fromhex("02fe010203040506") + b"\x00\x00\x01" + bytes(13) + tok
            return bytes([len(body) + 1]) + body, 0.5
        body = bytes.fromhex("d50700") + tok
        if k == "DEP-106A":
            return b"\xf0" + bytes([len(body) + 1]) + body, 0.5
        return bytes([len(body) + 1]) + body, 0.5

    def exchange(self, script=None, send=None):
        """one clf.exchange() under the script -> ("ret", value) | ("exc", exception)"""
        if send is None:
            send = self.send_data()
        data, timeout = send
        self.sim.mark(script)
        self.rx0 = self.sim.rx_count
        self.sim.rf_log.clear()          # last_rx()/last_tx() speak about this exchange only
        try:
            return ("ret", self.clf.exchange(data, timeout)), send
        except BaseException as e:       # the oracle classifies it (SystemExit, KeyboardInterrupt, GeneratorExit too)
            return ("exc", e), send

    def remote(self):
        return self.ini if self.is_target else self.card

    def last_rx(self):
        """what the remote side sent during the last exchange (None: nothing)"""
        for d, brty, data in reversed(self.sim.rf_log):
            if d == "rx":
                return data
        return None

    def last_tx(self):
        for d, brty, data in reversed(self.sim.rf_log):
            if d == "tx":
                return data
        return None


def reference(sess):
    """no-fault exchange: host commands, their regular response frames, and the data oracle"""
    sim = sess.sim
    responses = []
    orig_execute = sim.execute

    def spy(code, p):
        r = orig_execute(code, p)
        responses.append(pf.response(code, r))
        return r
    sim.execute = spy
    try:
        res, send = sess.exchange()
    finally:
        del sim.execute
    if res[0] != "ret" or not isinstance(res[1], (bytes, bytearray)):
        raise SetupError("%s: reference exchange did not return data: %r" % (sess.kind, res[1]))
    if bytes(res[1]) != sess.last_rx():
        raise SetupError("%s: reference exchange returned %r, the remote sent %r" % (sess.kind, res[1], sess.last_rx()))
    if sess.last_tx() != send[0]:
        raise SetupError("%s: the chip was asked to transmit %r, exchange sent %r" % (sess.kind, sess.last_tx(), send[0]))
    codes = [c for c, _ in sim.cmdlog]
    return codes, responses


# ======================================================================================================
# C13: fault cells and the oracle
# ======================================================================================================
DOCUMENTED = list(S.STATUS_BITS.values())
DOC_MASK = 0
for _b in DOCUMENTED:
    DOC_MASK |= _b
TIMEOUT_BIT = S.STATUS_BITS["RECEIVE_TIMEOUT_ERROR"]
RF_OFF_BIT = S.STATUS_BITS["RF_OFF_ERROR"]


PLAIN = {"kind": "none"}         # the "action" of an exchange without scripted fault


def fault_class(act):
    if act is None or act["kind"] == "none":
        return "no-fault"
    if act["kind"] == "rf_status":
        return "rf-status"
    if act["kind"] == "status_byte":
        return "status-byte"
    return "hostlink:" + act["fault"]


def status_cells(code, rng, n_random, all_pairs32=False):
    """fault actions for the status of host command `code`"""
    if code in S.RF_COMMANDS:
        for b in range(32):
            yield {"kind": "rf_status", "word": 1 << b}
        # every combination of two or more documented bits (pairs, triples, ... all twelve)
        for r in range(2, len(DOCUMENTED) + 1):
            for combo in itertools.combinations(DOCUMENTED, r):
                yield {"kind": "rf_status", "word": sum(combo)}
        if all_pairs32:
            for a, b in itertools.combinations([1 << b for b in range(32)], 2):
                if not (a & DOC_MASK and b & DOC_MASK):
                    yield {"kind": "rf_status", "word": a | b}
        yield {"kind": "rf_status", "word": 0xFFFFFFFF}
        for _ in range(n_random):
            w = rng.getrandbits(32)
            yield {"kind": "rf_status", "word": w or 1}
    else:
        for s in range(1, 256):
            yield {"kind": "status_byte", "value": s}


def link_cells(good, rng, n_garbage=6):
    """host-link fault actions for a command whose regular response frame is `good`"""
    for f in ("io-timeout@write", "io-eio@write", "io-enodev@write", "io-timeout@ack", "io-eio@ack", "io-enodev@ack", "io-timeout@rsp",
              "io-eio@rsp", "io-enodev@rsp", "no-ack", "ack-ack", "error-frame", "error-frame-7f", "error-frame@ack",
              "wrong-rsp-code", "wrong-direction", "extra-bytes"):
        yield {"kind": "link", "fault": f}
    for n in S.SURPLUS_LENGTHS:
        yield {"kind": "link", "fault": "surplus", "n": n}
    for cut in range(0, len(S.ACK)):
        yield {"kind": "link", "fault": "short-ack", "cut": cut}
    for cut in range(0, len(good)):
        yield {"kind": "link", "fault": "short-frame", "cut": cut}
    for cut in range(0, len(good) - 10):
        yield {"kind": "link", "fault": "short-payload", "cut": cut}
    for f in ("bad-lcs", "bad-dcs", "bad-postamble", "bad-start"):
        for x in (0x01, 0x80, 0xFF):
            yield {"kind": "link", "fault": f, "xor": x}
    for pos in range(len(good)):
        for bit in range(8):
            yield {"kind": "link", "fault": "bitflip", "pos": pos, "bit": bit}
    fixed = [b"\x00", b"\x00\x00", b"\x00\x00\xff", b"\x00\x00\xff\xff", b"\x00\x00\xff\xff\xff\x05",
             b"\x00\x00\xff\xff\xff\x05\x00", b"\x00\x00\xff\xff\xff\x05\x00\xfb", b"\x00\x00\xff\x00\xff",
             b"\xff" * 8, bytes(12)]
    for g in fixed:
        yield {"kind": "link", "fault": "garbage", "bytes": g}
        yield {"kind": "link", "fault": "garbage@ack", "bytes": g}
    for _ in range(n_garbage):
        g = rng.randbytes(rng.choice([1, 2, 5, 6, 7, 8, 12, 30]))
        yield {"kind": "link", "fault": "garbage", "bytes": g}
        yield {"kind": "link", "fault": "garbage@ack", "bytes": g}


WRONG_ACK_FAULTS = ("no-ack", "short-ack", "error-frame@ack", "garbage@ack")      # something else where the ACK belongs
WRONG_RSP_FAULTS = ("wrong-rsp-code", "wrong-direction", "ack-ack", "error-frame", "error-frame-7f")


def hostlink_clause(stage, kind, role_target, code, act, out, notes):
    """the transport itself raised IOError while host command `code` was written, its ACK or its response read:
    the harness knows that the host link is what failed, so the only documented report is IOError - never an RF
    outcome, never data / a target, never None ("link broke" / "no target").  -> [(signature, what)]
    out: outcome class ("IOError", "data", "none", "found", "clf.<Error>", "escape:..", "ret:..")"""
    if act["kind"] != "link":
        return []
    phase = S.fault_phase(act["fault"])
    if phase is None:
        return []
    cname = S.CMD_NAMES.get(code, "%02Xh" % code)
    at_rf = code in S.RF_COMMANDS
    if act["fault"] == "io-timeout@rsp" and at_rf:
        # after a correct ACK the response to InCommRF/TgCommRF does not arrive: a driver that bounds this read by a
        # host time-out cannot tell a dead reader from RF silence.  The unchanged driver reads without time-out (the
        # chip enforces the RF time-out and reports RECEIVE_TIMEOUT_ERROR), so its IOError is what is seen here.
        notes.append("rcs380_c13_hostlink_rsp_timeout_at_rf_observed")
        notes.append("rcs380_c13_hostlink_rsp_timeout_at_rf_%s_%s" % (stage, out.split(":")[0].replace(".", "_")))
        return []
    notes.append("rcs380_c13_hostlink_%s_checked" % phase)
    if stage == "exchange":
        notes.append("rcs380_c13_hostlink_%s_checked" % ("rf_command" if at_rf else "preparatory"))
        notes.append("rcs380_c13_hostlink_as_%s_checked" % ("target" if role_target else "initiator"))
    else:
        notes.append("rcs380_c13_hostlink_%s_checked" % stage)
        notes.append("rcs380_c13_hostlink_%s_%s_checked" % (stage, "rf_command" if at_rf else "preparatory"))
    if out == "IOError" or out.startswith("escape:") or out.startswith("ret:"):
        return []                       # the latter two are violations of the coarse clause already
    return [("rcs380/hostlink-%s/%s@%s->%s" % (phase, stage, cname, out),
             "the host link failed (%s: transport IOError in the %s phase of %s during %s of %s) but the driver "
             "reported %s instead of IOError" % (act["fault"], phase, cname, stage, kind, out))]


def judge(sess, code, act, res, notes=None):
    """-> (outcome class, [(signature, what)]); the names of the finer clauses that applied are appended to notes"""
    if notes is None:
        notes = []
    out, viol = _judge_coarse(sess, code, act, res, notes)
    viol = viol + hostlink_clause("exchange", sess.kind, sess.is_target, code, act, out, notes)
    if out == "none" and sess.is_target and act["kind"] == "link" and S.fault_phase(act["fault"]) is None:
        # send_command() rejected what it read (wrong/cut ACK, wrong response code, error frame, unrecognised frame)
        # and the failure of the host protocol surfaces as None = "the communication link broke" (an RF outcome)
        viol.append(("rcs380/none-as-target/%s@%s" % (fault_class(act), S.CMD_NAMES.get(code, "%02Xh" % code)),
                     "the chip's answer was rejected by the driver's frame handling (%s) and exchange() as target "
                     "returned None (documented for a broken RF link) instead of raising IOError" % act["fault"]))
    return out, viol


def public_exception_type(exc):
    """True if the concrete type of an exception that left clf.exchange()/sense()/listen() is one of the documented
    public classes: nfc.clf.CommunicationError and its four documented kinds, nfc.clf.UnsupportedTargetError, or
    IOError / OSError (the builtin class or one of the builtin errno subclasses Python picks by itself for
    OSError(errno, ...)).  A class defined anywhere else (rcs380.CommunicationError, rcs380.StatusError, ...) is
    driver-internal even when it derives from a documented one.  (Same rule as vf.drivers.pn53x_family.)"""
    import nfc.clf
    t = type(exc)
    if t in (nfc.clf.CommunicationError, nfc.clf.TimeoutError, nfc.clf.TransmissionError, nfc.clf.ProtocolError,
             nfc.clf.BrokenLinkError, nfc.clf.UnsupportedTargetError):
        return True
    return issubclass(t, OSError) and t.__module__ == "builtins"


def type_name(exc):
    t = type(exc)
    return t.__qualname__ if t.__module__ == "builtins" else "%s.%s" % (t.__module__, t.__qualname__)


def concrete_type_clause(stage, where, exc, notes):
    """'Driver-internal exception types never escape': judged by the concrete type, not by isinstance"""
    notes.append("rcs380_c13_concrete_type_checked")
    notes.append("rcs380_c13_concrete_type_%s_checked" % stage)
    if public_exception_type(exc):
        return []
    base = "CommunicationError" if isinstance(exc, _nfc().clf.CommunicationError) else (
        "OSError" if isinstance(exc, OSError) else "Error")
    return [("rcs380/internal-type/%s(%s)/%s/%s" % (_xsig(exc), base, where, stage),
             "ContactlessFrontend.%s() raised the driver-internal %s (a %s subclass); documented are nfc.clf.TimeoutError"
             " / TransmissionError / ProtocolError / BrokenLinkError and IOError" % (stage, type_name(exc), base))]


def _nfc():
    import nfc.clf
    return nfc


def fidelity_clause(sess, code, act, val, notes):
    """exchange() 'returns the received data': what came back must be exactly the octets the simulated remote side
    sent during this exchange.  Not judged where the chip itself delivered a *well-formed* response frame with other
    content than the regular one (surplus / shortened payload inside correct LEN, LCS, DCS): the host cannot know
    better than its chip.  -> [(signature, what)]"""
    cname = S.CMD_NAMES.get(code, "%02Xh" % code)
    role = "target" if sess.is_target else "initiator"
    sent = sess.last_rx()
    got = bytes(val)
    rule = None
    if act is not None and act["kind"] == "link" and code in S.RF_COMMANDS:
        frames = sess.sim.delivered
        rsp = bytes(frames[1]) if len(frames) > 1 and isinstance(frames[1], (bytes, bytearray)) else b""
        errors, info = pf.check_response_frame(rsp, code)
        if not errors and rsp != sess.sim.last_response:
            notes.append("rcs380_c13_fidelity_wellformed_other_payload_observed")
            return []
        if errors:
            rule = errors[0]
    notes.append("rcs380_c13_fidelity_checked")
    notes.append("rcs380_c13_fidelity_as_%s_checked" % role)
    if rule is not None:
        notes.append("rcs380_c13_fidelity_invalid_frame_accepted_observed")
    if sent is None:
        if sess.is_target and len(got) == 0:
            # TgCommRF was told not to receive (receive time-out 0) and reports "no data": see time-out cells
            notes.append("rcs380_c13_fidelity_empty_without_receive_observed")
            return []
        return [("rcs380/data-but-remote-silent/%s/%s@%s" % (role, fault_class(act) if act else "no-fault", cname),
                 "exchange() returned %r although the remote side sent nothing during this exchange" % got)]
    if got == bytes(sent):
        return []
    if rule is not None:
        # the response frame failed the frame check (LCS / DCS / length / postamble) and was accepted all the same
        return [("rcs380/data-differs/frame-check-failed:%s/%s@%s" % (rule, role, cname),
                 "the %s response frame was corrupted on the host link (%s; frame rule '%s' violated) and exchange() "
                 "returned %s although the remote sent %s" % (cname, act["fault"], rule, got.hex(), bytes(sent).hex()))]
    return [("rcs380/data-differs/%s/%s@%s" % (role, fault_class(act) if act else "no-fault", cname),
             "exchange() returned %s, the remote sent %s" % (got.hex(), bytes(sent).hex()))]


def rf_status_clause(sess, cname, w, e, notes):
    """finer clauses for the communication status word w of InCommRF / TgCommRF, e = the CommunicationError raised.
    Judged for every word that contains the documented bit in question, whatever else is set (documented or not):
      as listening target RF_OFF_ERROR set         -> BrokenLinkError (the external field is gone whatever else the
                                                      chip noticed)
      RECEIVE_TIMEOUT_ERROR set (and not the above) -> TimeoutError
    The negative clauses (no time-out bit -> never TimeoutError, no RF-off bit -> never BrokenLinkError) only for words
    made of documented bits: about the meaning of the other bits the chip documentation is silent."""
    nfc = sess.nfc
    viol = []
    got = type(e).__name__
    undocumented = bool(w & ~DOC_MASK)
    if w & RF_OFF_BIT and sess.is_target:
        others = w & ~RF_OFF_BIT
        cls = "alone" if not others else ("with_undocumented" if undocumented else "combined")
        notes.append("rcs380_c13_finer_rf_off_%s_checked" % cls)
        if not isinstance(e, nfc.clf.BrokenLinkError):
            with_ = "" if not others else ("+RECEIVE_TIMEOUT_ERROR" if others & TIMEOUT_BIT else "+other-bits")
            viol.append(("rcs380/wrong-error/%s/rf-status:RF_OFF_ERROR%s@%s" % (got, with_, cname),
                         "external field lost (status %08Xh has RF_OFF_ERROR set) must surface as "
                         "nfc.clf.BrokenLinkError, got %s" % (w, got)))
    elif w & TIMEOUT_BIT:
        others = w & ~TIMEOUT_BIT
        cls = "" if not others else ("_with_undocumented" if undocumented else "_combined")
        notes.append("rcs380_c13_finer_timeout%s_checked" % cls)
        notes.append("rcs380_c13_finer_timeout_as_%s_checked" % ("target" if sess.is_target else "initiator"))
        if not isinstance(e, nfc.clf.TimeoutError):
            with_ = "" if not others else ("+undocumented-bits" if undocumented else "+other-bits")
            viol.append(("rcs380/wrong-error/%s/rf-status:RECEIVE_TIMEOUT_ERROR%s@%s" % (got, with_, cname),
                         "receive time-out (status %08Xh has RECEIVE_TIMEOUT_ERROR set) must surface as "
                         "nfc.clf.TimeoutError, got %s" % (w, got)))
    if not undocumented:
        if not w & TIMEOUT_BIT and isinstance(e, nfc.clf.TimeoutError):
            viol.append(("rcs380/wrong-error/TimeoutError/rf-status:non-timeout@%s" % cname,
                         "status %08Xh is no time-out but surfaced as nfc.clf.TimeoutError" % w))
        if not w & RF_OFF_BIT and isinstance(e, nfc.clf.BrokenLinkError):
            viol.append(("rcs380/wrong-error/BrokenLinkError/rf-status:non-rf-off@%s" % cname,
                         "status %08Xh is no field loss but surfaced as nfc.clf.BrokenLinkError" % w))
    return viol


def _judge_coarse(sess, code, act, res, notes):
    nfc = sess.nfc
    cname = S.CMD_NAMES.get(code, "%02Xh" % code)
    where = "%s@%s" % (fault_class(act), cname)
    tag, val = res
    viol = []
    if tag == "ret":
        if isinstance(val, (bytes, bytearray)):
            out = "data"
            if act["kind"] == "rf_status":
                viol.append(("rcs380/data-despite-rf-error/" + where,
                             "chip reported communication status %08Xh, exchange() returned %r as data" % (act["word"], bytes(val))))
            else:
                viol += fidelity_clause(sess, code, act, val, notes)
        elif val is None:
            out = "none"
            if not sess.is_target:
                viol.append(("rcs380/none-as-initiator/" + where,
                             "exchange() with a remote target returned None (documented only for the target role) "
                             "instead of data or an error"))
        else:
            out = "ret:" + type(val).__name__
            viol.append(("rcs380/bad-return/%s/%s" % (type(val).__name__, where), "exchange() returned %r" % (val,)))
        return out, viol
    e = val
    if isinstance(e, nfc.clf.CommunicationError):
        out = "clf." + type(e).__name__
        viol += concrete_type_clause("exchange", where, e, notes)
        if act["kind"] == "rf_status":
            viol += rf_status_clause(sess, cname, act["word"], e, notes)
        return out, viol
    if isinstance(e, OSError):
        out = "IOError"
        viol += concrete_type_clause("exchange", where, e, notes)
        if act["kind"] == "rf_status":
            viol.append(("rcs380/wrong-error/IOError/" + where,
                         "an RF communication status surfaced as IOError (reserved for a broken host link)"))
        return out, viol
    out = "escape:" + type(e).__name__
    viol.append(("rcs380/escape/%s/%s" % (_xsig(e), where),
                 "%s.%s escaped ContactlessFrontend.exchange(): %s" % (type(e).__module__, type(e).__name__, str(e)[:120])))
    return out, viol


def _count_soft(R, prefix, act, code, out):
    f = act["fault"]
    cname = S.CMD_NAMES.get(code, "%02Xh" % code)
    o = out.split(":")[0]
    if f == "surplus":
        R.count(prefix + "surplus_delivered")
        R.seen("rcs380_c13_surplus_outcomes", "%s%s+%d -> %s" % (prefix[11:], cname, act["n"], o))
    elif f in WRONG_ACK_FAULTS:
        R.count(prefix + "wrong_ack_delivered")
        R.seen("rcs380_c13_wrong_ack_outcomes", "%s%s %s -> %s" % (prefix[11:], cname, f, o))
    elif f in WRONG_RSP_FAULTS:
        R.count(prefix + "wrong_rsp_code_delivered")
        R.seen("rcs380_c13_wrong_rsp_outcomes", "%s%s %s -> %s" % (prefix[11:], cname, f, o))
    if S.fault_phase(f) is None and code not in S.RF_COMMANDS and o in ("data", "found"):
        # the driver did not notice (or ignored) that the answer to a preparatory command was not in order
        R.count(prefix + "soft_fault_at_preparatory_ignored")


def run_cell(sess, k, code, act, R, kind, fresh, send=None):
    n0 = sess.sim.fault_applied
    res, send = sess.exchange({k: act}, send=send)
    delivered = sess.sim.fault_applied > n0
    notes = []
    out, viol = judge(sess, code, act, res, notes)
    cls = fault_class(act)
    key = (kind, k, sorted((a, bytes(b).hex() if isinstance(b, (bytes, bytearray)) else b) for a, b in act.items()))
    R.case(key, nontrivial=delivered)
    R.count("rcs380_c13_cells")
    R.count("rcs380_c13_cells_" + {"rf_status": "rf_status", "status_byte": "status_byte", "link": "hostlink"}[act["kind"]])
    if not delivered:
        R.count("rcs380_c13_fault_not_reached")
    for name in notes:
        R.count(name)
    if delivered and act["kind"] == "link":
        _count_soft(R, "rcs380_c13_", act, code, out)
    if act["kind"] == "rf_status" and sess.is_target and act["word"] & RF_OFF_BIT and not act["word"] & ~DOC_MASK:
        R.seen("rcs380_c13_target_rf_off_words_by_bits_set", bin(act["word"]).count("1"))
    R.seen("rcs380_c13_outcomes", "%s|%s -> %s" % ("target" if sess.is_target else "initiator", cls, out))
    R.count("rcs380_c13_outcome_" + out.split(":")[0].replace(".", "_"))
    for sig, what in viol:
        case = {"family": FAM, "prop": "c13", "kind": kind, "k": k, "code": code, "act": act,
                "send": send[0], "timeout": send[1], "fresh": bool(fresh)}
        text = "%s kind=%s host command %d (%s): %s" % (sig, kind, k, S.CMD_NAMES.get(code), what)
        if res[0] == "exc":
            text += " | " + exc_text(res[1])[-400:].replace("\n", " / ")
        R.violation(sig, text, case)
    return out


def c13_kind(kind, R, rng, n_random, all_pairs32, link_fresh):
    try:
        sess = Session(kind)
        codes, responses = reference(sess)
    except SetupError as e:
        R.inconc("rcs380 C13 setup: %s" % e)
        return
    R.count("rcs380_c13_reference_exchanges")
    R.seen("rcs380_c13_host_commands_per_exchange", "%s: %s" % (kind, "+".join(S.CMD_NAMES[c] for c in codes)))
    R.max("rcs380_c13_host_commands_per_exchange", len(codes))
    R.seen("rcs380_c13_kinds", kind)
    sessions = 1

    def retire(old):
        R.count("rcs380_c13_host_frames_validated", old.sim.frames_checked)
        _report_frame_errors(old.sim, R, "c13")

    try:
        for k, code in enumerate(codes, 1):
            # status enumeration on the activated session (the driver keeps no state between exchanges)
            for act in status_cells(code, rng, n_random, all_pairs32):
                run_cell(sess, k, code, act, R, kind, fresh=False)
            # the session must still be healthy
            res, send = sess.exchange()
            if res[0] != "ret" or bytes(res[1] or b"") != sess.last_rx():
                R.inconc("rcs380 C13: %s session degraded after the status enumeration at k=%d: %r" % (kind, k, res[1]))
                return
            for act in link_cells(responses[k - 1], rng):
                if link_fresh:
                    retire(sess)
                    sess = Session(kind)
                    sessions += 1
                run_cell(sess, k, code, act, R, kind, fresh=link_fresh)
            retire(sess)
            sess = Session(kind)
    except SetupError as e:
        R.inconc("rcs380 C13 setup: %s" % e)
        return
    R.count("rcs380_c13_sessions", sessions)


# ---- sequences: several exchanges on one session (time-out values, two-fault schedules, follow-up) ----------
# A sequence is a list of steps executed on a fresh, really activated session:
#   {"op": "warm"}                                   regular exchange, must succeed (else the run is inconclusive)
#   {"op": "fault", "script": {k: action, ...}}       exchange under one or two scripted faults; judged by judge()
#                                                    with the fault that was delivered last
#   {"op": "timeout", "timeout": t, "mute": 0|1, "send": "auto"|None}
#                                                    exchange with time-out argument t; mute: the remote keeps silent
#   {"op": "follow", "demand": bool}                 regular exchange afterwards: it must not be answered with anything
#                                                    but what the remote sent in *this* exchange; demand: no host-link
#                                                    fault happened before, so the answer must come back as data
TMO_INI = [0, None, 1e-6, 0.0004, 0.001, 0.0015, 0.1, 6.5535, 6.5536, 65.535, 65.536, 70.0, 1e6]
TMO_TGT = [0, None, 1e-6, 0.0004, 0.00099, 0.001, 0.0015, 0.5, 65.535, 65.5354, 65.536, 70.0, 1e6]


def tmo_class(t):
    if t is None:
        return "none"
    if t == 0:
        return "zero"
    if t < 0.001:
        return "below-1ms"
    if t <= 65.535:
        return "regular"
    if t < 65.536:
        return "65535ms-to-65536ms"
    return "above-65535ms"


def _seq_case(kind, cls, steps):
    return {"family": FAM, "prop": "c13", "stage": "sequence", "kind": kind, "cls": cls, "steps": steps}


def _act_key(act):
    return sorted((a, bytes(b).hex() if isinstance(b, (bytes, bytearray)) else b) for a, b in act.items())


def run_sequence(case, R, codes=None):
    """-> list of outcome classes (one per step) or None if the sequence could not be set up"""
    kind = case["kind"]
    cls = case["cls"]
    try:
        sess = Session(kind)
    except SetupError as e:
        R.inconc("rcs380 C13 sequence setup: %s" % e)
        return None
    nfc = sess.nfc
    role = "target" if sess.is_target else "initiator"
    rf_code = 0x48 if sess.is_target else 0x04
    outs = []
    if case.get("pipe"):
        # transfers the driver did not read stay in the bulk-in pipe (as on a real USB endpoint; nfcpy's own
        # Chipset.__init__ drains such leftovers) instead of vanishing when the next command is written
        sess.sim.persistent_pipe = True
    history = []                 # classes of the steps so far (for the signature of a follow-up)
    pfx = "rcs380_c13_%s_" % cls

    def report(viol, res, step_no):
        for sig, what in viol:
            text = "%s kind=%s step %d of %s: %s" % (sig, kind, step_no, [st["op"] for st in case["steps"]], what)
            if res[0] == "exc":
                text += " | " + exc_text(res[1])[-400:].replace("\n", " / ")
            R.violation(sig, text, case)

    for i, st in enumerate(case["steps"], 1):
        op = st["op"]
        notes = []
        if op == "warm":
            res, send = sess.exchange()
            if res[0] != "ret" or res[1] is None or bytes(res[1]) != (sess.last_rx() or b"\xff-"):
                R.inconc("rcs380 C13 sequence: warm-up exchange %d of %s did not return the remote's data: %r" % (i, kind, res[1]))
                return None
            R.count(pfx + "warm_exchanges")
            outs.append("data")
            continue
        if op == "fault":
            script = {int(k): dict(a) for k, a in st["script"].items()}
            res, send = sess.exchange(script)
            applied = list(sess.sim.applied)
            if not applied:
                R.count(pfx + "fault_not_reached")
                R.count("rcs380_c13_fault_not_reached")
                R.count("rcs380_c13_cells")
                outs.append("not-reached")
                history.append("unreached")
                continue
            k, act = applied[-1]
            code = sess.sim.cmdlog[k - 1][0]
            out, viol = judge(sess, code, act, res, notes)
            R.count("rcs380_c13_cells")
            R.count(pfx + "fault_steps")
            R.count(pfx + "faults_delivered", len(applied))
            if len(applied) > 1:
                R.count(pfx + "two_faults_in_one_exchange")
                R.seen(pfx + "two_fault_pairs", "%s@%s + %s@%s -> %s" % (
                    fault_class(applied[0][1]).split(":")[-1][:14], S.CMD_NAMES.get(sess.sim.cmdlog[applied[0][0] - 1][0]),
                    fault_class(act).split(":")[0], S.CMD_NAMES.get(code), out.split(":")[0]))
            if len(history) and any(h.startswith("fault") for h in history):
                R.count(pfx + "fault_after_faulty_exchange")
            hard = any(a["kind"] == "link" and S.fault_phase(a["fault"]) for _, a in applied)
            history.append("fault-hard" if hard else ("fault-link" if any(a["kind"] == "link" for _, a in applied) else "fault-rf"))
            report(viol, res, i)
        elif op == "timeout":
            t = st["timeout"]
            tc = tmo_class(t)
            mute = int(st.get("mute") or 0)
            sess.remote().mute = mute
            send = sess.send_data()
            if st.get("send", "auto") is None:
                send = (None, send[1])
            res, send = sess.exchange(None, send=(send[0], t))
            sess.remote().mute = 0
            out, viol = _judge_coarse(sess, rf_code, PLAIN, res, notes)
            # was the chip asked to receive at all, and for a time the documentation is clear about?
            waits = (t is None or t > 0) if sess.is_target else bool(t)
            where = "%s/timeout:%s%s" % (role, tc, "/receive-only" if send[0] is None else "")
            viol = [(sig + "/timeout:" + tc if sig.startswith("rcs380/escape/") else sig, w) for sig, w in viol]
            R.count(pfx + "steps")
            R.count(pfx + "as_%s" % role)
            R.count(pfx + tc.replace("-", "_"))
            if send[0] is None:
                R.count(pfx + "receive_only")
            R.seen(pfx + "outcomes", "%s %s -> %s" % (where, "silent" if mute else "answers", out))
            # target role: did the driver tell the chip not to receive at all (TgCommRF receive time-out field 0)?
            no_receive = False
            if sess.is_target and sess.sim.cmdlog and sess.sim.cmdlog[-1][0] == 0x48 and len(sess.sim.cmdlog[-1][1]) >= 33:
                no_receive = bytes(sess.sim.cmdlog[-1][1][31:33]) == b"\x00\x00"
            if not out.startswith("escape"):
                if waits and no_receive:
                    R.count(pfx + "positive_timeout_not_received_observed")
                    if out == "data" and len(res[1]) == 0:
                        viol.append(("rcs380/timeouts/empty-data-without-receive/%s" % where,
                                     "exchange(.., %r) as target returned empty data at once: the chip was told not to "
                                     "receive (TgCommRF receive time-out 0), so neither the initiator's next frame nor "
                                     "nfc.clf.TimeoutError reaches the caller" % (t,)))
                elif waits and mute:
                    R.count(pfx + "silent_checked")
                    if not (res[0] == "exc" and isinstance(res[1], nfc.clf.TimeoutError)):
                        viol.append(("rcs380/timeouts/silent-remote/%s->%s" % (where, out),
                                     "the remote kept silent for the whole time-out of %r s, exchange() gave %s instead of "
                                     "nfc.clf.TimeoutError" % (t, out)))
                elif waits:
                    R.count(pfx + "answer_checked")
                    if out != "data":
                        viol.append(("rcs380/timeouts/answer-not-returned/%s->%s" % (where, out),
                                     "the remote answered within the time-out of %r s, exchange() gave %s" % (t, out)))
                else:
                    R.count(pfx + "no_wait_observed")
            history.append("timeout:" + tc)
            report(viol, res, i)
        elif op == "follow":
            leftover = len(sess.sim.queue) if case.get("pipe") else 0
            res, send = sess.exchange()
            out, viol = _judge_coarse(sess, rf_code, PLAIN, res, notes)
            R.count(pfx + "follow_ups")
            prev = history[-1] if history else "start"
            if case.get("pipe"):
                R.count(pfx + "follow_ups_with_unread_transfers" if leftover else pfx + "follow_ups_pipe_empty")
                R.seen(pfx + "unread_transfer_outcomes", "%s %d unread -> %s" % (role, leftover, out))
                if leftover:
                    # what the driver did not read of an earlier answer must not be taken for this exchange's answer
                    viol = [(("rcs380/stale-response/%s@%s" % (role, S.CMD_NAMES[rf_code]), w + " (transfers of an earlier, "
                              "failed command were still unread when this exchange began)")
                             if sig.startswith(("rcs380/data-differs/", "rcs380/data-but-remote-silent/")) else (sig, w))
                            for sig, w in viol]
            R.seen(pfx + "follow_up_outcomes", "%s after %s -> %s" % (role, prev, out))
            if st.get("demand", True):
                R.count(pfx + "follow_ups_demanded")
                if out == "data" and not viol and sess.last_tx() != send[0]:
                    viol.append(("rcs380/follow-up/other-command-on-air/%s/after-%s" % (role, prev),
                                 "the chip was asked to transmit %r, exchange() sent %r" % (sess.last_tx(), send[0])))
                elif out != "data" and not out.startswith("escape"):
                    viol.append(("rcs380/follow-up/answer-not-returned/%s/after-%s->%s" % (role, prev, out),
                                 "a regular exchange after %s: the remote answered, exchange() gave %s" % (prev, out)))
            history.append("follow")
            report(viol, res, i)
        else:
            raise ValueError(op)
        for name in notes:
            R.count(name)
        outs.append(out)
    R.count("rcs380_c13_host_frames_validated", sess.sim.frames_checked)
    _report_frame_errors(sess.sim, R, "c13")
    R.case(("sequence", kind, cls, [[st["op"], st.get("timeout", 0) if st["op"] == "timeout" else None, st.get("mute"),
                                     st.get("send", "auto"), sorted((int(k), _act_key(a)) for k, a in st.get("script", {}).items())]
                                    for st in case["steps"]]))
    return outs


def c13_timeouts(kind, R, rng):
    """every time-out class x {remote answers, remote silent} x {send + receive, receive only (target role)}, each after
    one regular exchange and followed by a regular exchange"""
    is_target = kind in INI_KINDS
    for t in (TMO_TGT if is_target else TMO_INI):
        for mute in (0, 1):
            for send in (("auto", None) if is_target else ("auto",)):
                steps = [{"op": "warm"}, {"op": "timeout", "timeout": t, "mute": mute, "send": send},
                         {"op": "follow", "demand": True}, {"op": "follow", "demand": True}]
                run_sequence(_seq_case(kind, "timeouts", steps), R)


SOFT_FIRST = [{"kind": "link", "fault": "garbage", "bytes": b"\xaa\x55\x00\xff\x12"}, {"kind": "link", "fault": "wrong-rsp-code"},
              {"kind": "link", "fault": "error-frame"}, {"kind": "link", "fault": "ack-ack"},
              {"kind": "link", "fault": "short-frame", "cut": 7}, {"kind": "link", "fault": "surplus", "n": 2},
              {"kind": "link", "fault": "bad-dcs", "xor": 0x01}, {"kind": "link", "fault": "garbage@ack", "bytes": b"\x00"}]
SECOND_RF = [TIMEOUT_BIT, RF_OFF_BIT, 0x04, TIMEOUT_BIT | 0x04, TIMEOUT_BIT | RF_OFF_BIT, RF_OFF_BIT | 0x01, 0x80000000,
             TIMEOUT_BIT | 0x20, 0xFFFFFFFF]


def schedule_cases(kind, codes, rng, n_in, n_across, full=False):
    """two-fault schedules.  in one exchange: a soft host-link fault at a preparatory command (the driver goes on) +
    an RF status / any host-link fault at a later command; across exchanges: RF status at the RF command, then a hard
    host-link fault at a command of the next exchange (and the other way round), then regular exchanges.  Each after
    0..5 successful exchanges."""
    n = len(codes)
    hard = [{"kind": "link", "fault": f} for f in S.faults_hard()]
    inside = []
    for k1 in range(1, n):
        for a1 in SOFT_FIRST:
            for k2 in range(k1 + 1, n + 1):
                seconds = list(hard) + [dict(a) for a in SOFT_FIRST[:4]]
                if codes[k2 - 1] in S.RF_COMMANDS:
                    seconds += [{"kind": "rf_status", "word": w} for w in SECOND_RF]
                else:
                    seconds += [{"kind": "status_byte", "value": v} for v in (0x01, 0x7F)]
                for a2 in seconds:
                    inside.append({str(k1): a1, str(k2): a2})
    across = []
    for w in SECOND_RF:
        for k in range(1, n + 1):
            for h in hard:
                across.append(({str(n): {"kind": "rf_status", "word": w}}, {str(k): h}))
    if not full:
        inside = rng.sample(inside, min(n_in, len(inside)))
        across = rng.sample(across, min(n_across, len(across)))
    for script in inside:
        warm = rng.choice([0, 1, 2, 5])
        yield _seq_case(kind, "schedule", [{"op": "warm"}] * warm + [{"op": "fault", "script": script},
                                                                        {"op": "follow", "demand": False}])
    for i, (rf, hd) in enumerate(across):
        warm = rng.choice([0, 1, 3])
        first, second = (rf, hd) if i % 2 == 0 else (hd, rf)
        yield _seq_case(kind, "schedule", [{"op": "warm"}] * warm + [
            {"op": "fault", "script": first}, {"op": "fault", "script": second}, {"op": "follow", "demand": False},
            {"op": "follow", "demand": False}])
    # unread transfers: a fault that makes the driver give up before it has read everything the chip sent (garbled or
    # cut ACK, error frame in its place), then regular exchanges on a pipe that keeps what was not read
    for k in range(1, n + 1):
        for a in ({"kind": "link", "fault": "garbage@ack", "bytes": b"\x00"}, {"kind": "link", "fault": "short-ack", "cut": 3},
                  {"kind": "link", "fault": "error-frame@ack"}):
            c = _seq_case(kind, "schedule", [{"op": "warm"}, {"op": "fault", "script": {str(k): a}},
                                             {"op": "follow", "demand": False}, {"op": "follow", "demand": False},
                                             {"op": "follow", "demand": False}])
            c["pipe"] = True
            yield c
    # RF errors only (no host-link fault anywhere): every ordered pair of status words in consecutive exchanges (the
    # class of the second must not depend on the first), the following regular exchange must deliver
    pairs = [(a, b) for a in SECOND_RF for b in SECOND_RF]
    if not full:
        pairs = rng.sample(pairs, 24)
    for a, b in pairs:
        warm = rng.choice([0, 2, 5])
        yield _seq_case(kind, "schedule", [{"op": "warm"}] * warm + [
            {"op": "fault", "script": {str(n): {"kind": "rf_status", "word": a}}},
            {"op": "fault", "script": {str(n): {"kind": "rf_status", "word": b}}}, {"op": "follow", "demand": True}])


def c13_schedules(kind, R, rng, n_in, n_across, full=False):
    try:
        codes, _ = reference(Session(kind))
    except SetupError as e:
        R.inconc("rcs380 C13 setup: %s" % e)
        return
    for case in schedule_cases(kind, codes, rng, n_in, n_across, full):
        run_sequence(case, R)


# ---- activation: the real clf.sense() / clf.listen() under faults -------------------------------------
# "nobody there" variants: what sense()/listen() do when no card is in the field / no reader shows up
ABSENT_KINDS = ["T2T", "T4B", "T3T212", "T3T424", "TT2", "TT4", "TT3-212", "DEP-106A"]
ACTIVATIONS = [[k, False] for k in ALL_KINDS] + [[k, True] for k in ABSENT_KINDS]
ACT_STATUS_BYTES = (0x01, 0x02, 0x7F, 0xFF)


def activation_cells(code, good):
    """fault actions for host command `code` of an activation whose regular response frame is `good`"""
    for f in S.faults_hard():
        yield {"kind": "link", "fault": f}
    for n in S.SURPLUS_LENGTHS:
        yield {"kind": "link", "fault": "surplus", "n": n}
    for f in ("no-ack", "ack-ack", "error-frame", "error-frame-7f", "error-frame@ack", "wrong-rsp-code",
              "wrong-direction", "extra-bytes"):
        yield {"kind": "link", "fault": f}
    for cut in range(0, len(S.ACK)):
        yield {"kind": "link", "fault": "short-ack", "cut": cut}
    for cut in range(0, len(good)):
        yield {"kind": "link", "fault": "short-frame", "cut": cut}
    for cut in range(0, len(good) - 10):
        yield {"kind": "link", "fault": "short-payload", "cut": cut}
    for g in (b"\x00", b"\x00\x00\xff\xff\xff\x05\x00\xfb", bytes(12)):
        yield {"kind": "link", "fault": "garbage", "bytes": g}
        yield {"kind": "link", "fault": "garbage@ack", "bytes": g}
    if code in S.RF_COMMANDS:
        for w in DOCUMENTED + [0xFFFFFFFF]:
            yield {"kind": "rf_status", "word": w}
    else:
        for v in ACT_STATUS_BYTES:
            yield {"kind": "status_byte", "value": v}


def attempt_activation(kind, absent, script, spy=None):
    """fresh simulator + driver (its own init()), then the real sense()/listen() under the script
    -> (session, outcome class, exception or None)"""
    sess = Session(kind, activate=False, absent=absent)
    nfc = sess.nfc
    sim = sess.sim
    if spy is not None:
        orig_execute = sim.execute

        def spying(code, p):
            r = orig_execute(code, p)
            spy.append(pf.response(code, r))
            return r
        sim.execute = spying
    sim.mark(script)
    try:
        t = sess.enter()
    except OSError as e:
        return sess, "IOError", e
    except nfc.clf.Error as e:          # CommunicationError subclasses, UnsupportedTargetError
        return sess, "clf." + type(e).__name__, e
    except BaseException as e:          # the oracle classifies it
        return sess, "escape:" + type(e).__name__, e
    finally:
        if spy is not None:
            del sim.execute
    if t is None:
        return sess, "none", None
    if isinstance(t, (nfc.clf.RemoteTarget, nfc.clf.LocalTarget)):
        return sess, "found", None
    return sess, "ret:" + type(t).__name__, None


def run_activation_cell(kind, absent, k, code, act, R):
    stage = "listen" if kind in INI_KINDS else "sense"
    label = ("nobody:" if absent else "") + kind
    sess, out, exc = attempt_activation(kind, absent, {k: act})
    delivered = sess.sim.fault_applied > 0
    key = ("activation", kind, absent, k, sorted((a, bytes(b).hex() if isinstance(b, (bytes, bytearray)) else b) for a, b in act.items()))
    R.case(key, nontrivial=delivered)
    R.count("rcs380_c13_activation_attempts")
    R.count("rcs380_c13_host_frames_validated", sess.sim.frames_checked)
    _report_frame_errors(sess.sim, R, "c13")
    if not delivered:
        R.count("rcs380_c13_activation_fault_not_reached")
        return out
    cname = S.CMD_NAMES.get(code, "%02Xh" % code)
    where = "%s@%s" % (fault_class(act), cname)
    notes = []
    viol = []
    if out.startswith("escape:"):
        viol.append(("rcs380/escape/%s/%s/%s" % (_xsig(exc), where, stage),
                     "%s.%s escaped ContactlessFrontend.%s(): %s" % (type(exc).__module__, type(exc).__name__, stage, str(exc)[:120])))
    elif out.startswith("ret:"):
        viol.append(("rcs380/bad-return/%s/%s/%s" % (out[4:], where, stage), "%s() returned a %s" % (stage, out[4:])))
    elif exc is not None:
        viol += concrete_type_clause(stage, where, exc, notes)
    viol += hostlink_clause(stage, label, kind in INI_KINDS, code, act, out, notes)
    for name in notes:
        R.count(name)
    if act["kind"] == "link":
        _count_soft(R, "rcs380_c13_activation_", act, code, out)
    R.seen("rcs380_c13_activation_outcomes", "%s|%s -> %s" % (stage, fault_class(act), out))
    R.count("rcs380_c13_activation_outcome_" + out.split(":")[0].replace(".", "_"))
    for sig, what in viol:
        case = {"family": FAM, "prop": "c13", "stage": "activation", "kind": kind, "absent": bool(absent), "k": k,
                "code": code, "act": act}
        text = "%s %s host command %d (%s): %s" % (sig, label, k, cname, what)
        if exc is not None:
            text += " | " + exc_text(exc)[-400:].replace("\n", " / ")
        R.violation(sig, text, case)
    return out


def c13_activation(kind, absent, R, rng):
    label = ("nobody:" if absent else "") + kind
    goods = []
    sess, out, exc = attempt_activation(kind, absent, None, spy=goods)
    codes = [c for c, _ in sess.sim.cmdlog]
    want = "none" if absent else "found"
    if out != want or not codes or len(goods) != len(codes):
        R.inconc("rcs380 C13: reference activation of %s gave %s (%r), expected %s" % (label, out, exc, want))
        return
    sess2, out2, _ = attempt_activation(kind, absent, None)
    if (out2, [c for c, _ in sess2.sim.cmdlog]) != (out, codes):
        R.inconc("rcs380 C13: the reference activation of %s is not reproducible" % label)
        return
    R.count("rcs380_c13_activation_cells")
    if absent:
        R.count("rcs380_c13_activation_absent_cells")
    R.max("rcs380_c13_host_commands_per_activation", len(codes))
    R.seen("rcs380_c13_activation_command_sequences", "%s: %s" % (label, " ".join(S.CMD_NAMES[c] for c in codes)))
    for k, code in enumerate(codes, 1):
        for act in activation_cells(code, goods[k - 1]):
            run_activation_cell(kind, absent, k, code, act, R)


# ---- init() and close() under the same faults: observed, no verdict ------------------------------------
def _classify_exc(nfc, e):
    if isinstance(e, OSError):
        return "IOError"
    if isinstance(e, nfc.clf.Error):
        return "clf." + type(e).__name__
    return "escape:" + _xsig(e)


def c13_init_close(R, rng):
    import nfc.clf
    import nfc.clf.rcs380 as drv
    _setup()

    def open_under(script, spy=None):
        sim = S.Port100Sim(clock=_CLOCK, card=None)
        sim.script = dict(script or {})
        if spy is not None:
            orig_execute = sim.execute

            def spying(code, p):
                r = orig_execute(code, p)
                spy.append(pf.response(code, r))
                return r
            sim.execute = spying
        try:
            drv.init(sim)
            return sim, "ok", None
        except Exception as e:
            return sim, _classify_exc(nfc, e), e

    goods = []
    sim, out, exc = open_under(None, goods)
    codes = [c for c, _ in sim.cmdlog]
    if out != "ok" or len(goods) != len(codes):
        R.inconc("rcs380 C13: init() on the undisturbed simulator gave %s (%r)" % (out, exc))
        return
    R.seen("rcs380_c13_init_command_sequence", " ".join(S.CMD_NAMES[c] for c in codes))
    for k, code in enumerate(codes, 1):
        for act in activation_cells(code, goods[k - 1]):
            sim, out, exc = open_under({k: act})
            if not sim.fault_applied:
                continue
            R.case(("init", k, sorted((a, bytes(b).hex() if isinstance(b, (bytes, bytearray)) else b) for a, b in act.items())))
            R.count("rcs380_c13_init_observed")
            R.seen("rcs380_c13_init_outcomes", "%s@%s -> %s" % (fault_class(act), S.CMD_NAMES[code], out))
            if act["kind"] == "link" and S.fault_phase(act["fault"]):
                R.count("rcs380_c13_init_hostlink_" + ("IOError" if out == "IOError" else "other"))
    # close(): SwitchRF off, ACK, transport.close()
    good = pf.response(0x06, b"\x00")
    for act in activation_cells(0x06, good):
        sim = S.Port100Sim(clock=_CLOCK, card=None)
        clf, dev = S.open_driver(sim)
        sim.mark({1: act})
        try:
            dev.close()
            out = "ok"
        except Exception as e:
            out = _classify_exc(nfc, e)
        if not sim.fault_applied:
            continue
        R.case(("close", sorted((a, bytes(b).hex() if isinstance(b, (bytes, bytearray)) else b) for a, b in act.items())))
        R.count("rcs380_c13_close_observed")
        R.seen("rcs380_c13_close_outcomes", "%s@SwitchRF -> %s%s" % (fault_class(act), out, "" if sim.closed else " (transport left open)"))


def _report_frame_errors(sim, R, prop):
    """frames written by the driver in regular operation that the validator rejects: C14 matter; under C13 they
    make the run inconclusive (the simulator answered a malformed command)"""
    for frame, errors in sim.frame_errors:
        if prop == "c14":
            R.violation("rcs380/frame/%s" % errors[0], "driver wrote a malformed host frame (%s): %s" % (
                ",".join(errors), frame.hex()), {"family": FAM, "prop": "c14", "part": "operation"})
        else:
            R.inconc("rcs380 C13: the driver wrote a malformed host frame (%s): %s - see C14" % (",".join(errors), frame.hex()))
    del sim.frame_errors[:]


# ---- conformance self-test of the simulator against the repository's literal transcripts --------------
def selftest():
    """-> None if the simulator agrees with literal frames of tests/test_clf_rcs380.py, else a description"""
    H = bytes.fromhex
    try:
        pf.selftest()
        S.crc_selftest()
        clock = vclock.VClock()

        def rsp(sim, cmd_hex):
            sim.write(pf.encode(b"\xd6" + H(cmd_hex)))
            a = bytes(sim.read())
            assert a == S.ACK, a
            f = bytes(sim.read())
            e, info = pf.check_response_frame(f, H(cmd_hex)[0])
            assert not e, (cmd_hex, e)
            return info["data"][1:].hex()

        sim = S.Port100Sim(clock=clock, card=S.RemoteCard("T1T"), leftover=())
        table = [("2a01", "2b00"), ("20", "211101"), ("22", "230001"), ("0600", "0700"), ("0002030f03", "0100"),
                 ("0200180101020103000400050006000708080009000a000b000c000e040f001000110012001306", "0300"),
                 ("0201000200050100060707", "0300"), ("04360126", "050000000008000c"),
                 ("020102020207081102", "0300"), ("04360178000000000000", "0500000000081148b2565400"),
                 ("40080b", "4100"), ("42000101010207", "4300"), ("440102", "4500"),
                 ("480000ffff00" + "00" * 26 + "0100", "490b000080000000")]
        for c, r in table:
            got = rsp(sim, c)
            assert got == r, "command %s: simulator answered %s, transcript says %s" % (c, got, r)
        sim = S.Port100Sim(clock=clock, card=None, leftover=())
        for c in ("0002030f03", "0201000200050100060707"):
            rsp(sim, c)
        assert rsp(sim, "04360126") == "0580000000"
        # Type 2 Tag read with check_crc off: the chip hands out the CRC_A (transcript: 3334 cdf5)
        assert S.crc_a(b"34") == H("cdf5")
    except Exception as e:               # any disagreement = the simulator cannot be trusted
        return "%s: %s" % (type(e).__name__, str(e)[:400])
    return None


# ---- property entry points ------------------------------------------------------------------------------
def _balanced(kinds, n):
    groups = [[] for _ in range(n)]
    for i, k in enumerate(kinds):
        groups[i % n].append(k)
    return [g for g in groups if g]


def plan_c13(tier):
    if tier == "quick":
        # the remote-card kinds have four host commands per exchange, the listen kinds one: ALL_KINDS lists the nine card
        # kinds first, so dealing them round-robin gives every shard two or three card kinds and one or two listen kinds
        plans = [{"kinds": g, "n_random": 1000, "pairs32": False, "link_fresh": True, "timeout": 300}
                 for g in _balanced(ALL_KINDS, 4)]
    else:
        plans = [{"kinds": g, "n_random": 40000, "pairs32": True, "link_fresh": True, "timeout": 1500}
                 for g in _balanced(ALL_KINDS, 8)]
    # activation cells (same content in both tiers: the enumeration is complete), heaviest shards last
    for i, g in enumerate(_balanced(ACTIVATIONS, len(plans))):
        plans[len(plans) - 1 - i]["activations"] = g
    plans[0]["init_close"] = True
    # time-out values and two-fault schedules: the kinds of the shard itself
    for p in plans:
        p["timeouts"] = True
        p["schedules"] = [40, 24, False] if tier == "quick" else [0, 0, True]
    return plans


def run_c13(desc, R, rng):
    _setup()
    bad = selftest()
    if bad:
        R.inconc("rcs380 simulator conformance self-test failed: " + bad)
        return
    R.count("rcs380_c13_sim_selftest_ok")
    for kind in desc["kinds"]:
        c13_kind(kind, R, rng, desc["n_random"], desc["pairs32"], desc["link_fresh"])
    for kind, absent in desc.get("activations", []):
        try:
            c13_activation(kind, absent, R, rng)
        except SetupError as e:
            R.inconc("rcs380 C13 activation setup: %s" % e)
    if desc.get("init_close"):
        c13_init_close(R, rng)
    for kind in desc["kinds"]:
        if desc.get("timeouts"):
            c13_timeouts(kind, R, rng)
        if desc.get("schedules"):
            n_in, n_across, full = desc["schedules"]
            c13_schedules(kind, R, rng, n_in, n_across, full)
    # a fault that the exchange never reached proves nothing: tolerated for 5 % of the cells of a shard at most
    cells = R.counters.get("rcs380_c13_cells", 0)
    missed = R.counters.get("rcs380_c13_fault_not_reached", 0)
    R.count("rcs380_c13_fault_reached", cells - missed)
    if cells and missed * 20 > cells:
        R.inconc("rcs380 C13: %d of %d scripted faults were never reached by the exchange (floor: 5 %%)" % (missed, cells))
    R.sample({"family": FAM, "kinds": desc["kinds"], "activations": desc.get("activations", [])})


def replay_c13(case, R):
    """fresh driver + simulator, real activation into the kind, the one exchange under the recorded script"""
    _setup()
    if case.get("stage") == "sequence":
        outs = run_sequence(case, R)
        R.count("rcs380_replay_sequence_steps", len(outs or ()))
        return
    if case.get("stage") == "activation":
        out = run_activation_cell(case["kind"], bool(case.get("absent")), case["k"], case["code"], dict(case["act"]), R)
        R.count("rcs380_replay_outcome_" + out.split(":")[0].replace(".", "_"))
        return
    try:
        sess = Session(case["kind"])
    except SetupError as e:
        R.inconc("rcs380 C13 replay setup: %s" % e)
        return
    out = run_cell(sess, case["k"], case["code"], dict(case["act"]), R, case["kind"], fresh=True,
                   send=(bytes(case["send"]), case["timeout"]))
    R.count("rcs380_replay_outcome_" + out.split(":")[0].replace(".", "_"))


# ======================================================================================================
# C14
# ======================================================================================================
def _lengths(tier, rng):
    if tier == "quick":
        ls = set(range(0, 7)) | set(range(250, 271)) | set(range(508, 517)) | {1000, 1022, 1023, 1024, 4093, 4094, 4095,
                                                                               65021, 65277, 65278, 65279, 65531, 65532,
                                                                               65533}
        ls |= {rng.randrange(0, 65534) for _ in range(10)} | {rng.randrange(0, 2048) for _ in range(30)}
        return sorted(ls)
    return None


def _payload(rng, n):
    r = rng.random()
    if r < 0.1:
        return bytes(n)
    if r < 0.2:
        return b"\xff" * n
    if r < 0.3:
        return bytes([rng.choice((0x00, 0xFF, 0x80, 0x7F))]) * n
    return rng.randbytes(n)


def _check_written(frame, code, payload, R, where, case):
    errors, info = pf.check_command_frame(frame, code)
    if errors:
        R.violation("rcs380/frame/%s" % errors[0], "%s: frame for command %02Xh with %d payload bytes violates %s: %s..." % (
            where, code, len(payload), ",".join(errors), frame[:24].hex()), case)
        return False
    if info["payload"] != bytes(payload):
        R.violation("rcs380/frame/payload-differs", "%s: frame for command %02Xh carries other payload bytes than given "
                    "(%d bytes)" % (where, code, len(payload)), case)
        return False
    return True


def c14_frames(desc, R, rng):
    import nfc.clf.rcs380 as drv
    sim = S.Port100Sim(clock=_CLOCK, dumb=True)
    try:
        chipset = drv.init(sim).chipset
    except Exception as e:
        _report_frame_errors(sim, R, "c14")
        R.inconc("rcs380 C14: driver init() on the simulator failed: %r" % (e,))
        return
    _report_frame_errors(sim, R, "c14")
    codes = sorted(chipset.CMD)
    R.seen("rcs380_c14_command_codes", len(codes))
    lens = _lengths(desc["tier"], rng) if desc.get("lens") is None else list(range(desc["lens"][0], desc["lens"][1]))
    if desc.get("codes") is not None:
        codes = [c for c in codes if c in desc["codes"]]
    # (1) the real send_command() path
    for code in codes:
        for n in lens:
            if n > desc.get("send_max", 65533):
                continue
            payload = _payload(rng, n)
            w0 = sim.frames_checked
            sim.frame_errors = []
            ret = chipset.send_command(code, payload)
            R.case(("send", code, n, payload[:8].hex()))
            case = {"family": FAM, "prop": "c14", "part": "send", "code": code, "payload": payload}
            if sim.frames_checked != w0 + 1:
                R.violation("rcs380/frame/write-count", "send_command wrote %d frames" % (sim.frames_checked - w0), case)
                continue
            if _check_written(sim.last_frame, code, payload, R, "send_command", case):
                R.count("rcs380_c14_frames_validated")
                R.max("rcs380_c14_payload_len", n)
            if ret is None:
                R.count("rcs380_c14_send_command_no_response")
    # (2) the Frame class for arbitrary data
    flens = lens if desc.get("frame_lens") is None else range(desc["frame_lens"][0], desc["frame_lens"][1])
    for n in flens:
        n = n + 2
        if n > 65535:
            continue
        data = bytearray(_payload(rng, n))
        if data[0:3] == b"\x00\x00\xff":
            data[2] = 0xFE                # such data would be taken for a received frame
        frame = bytes(drv.Frame(bytes(data)))
        errors, info = pf.check_frame(frame)
        errors = [e for e in errors if e not in ("code-parity",)]
        R.case(("frame", n, bytes(data[:8]).hex()))
        case = {"family": FAM, "prop": "c14", "part": "frame", "data": bytes(data)}
        if errors:
            R.violation("rcs380/frame/%s" % errors[0], "Frame() for %d data bytes violates %s: %s..." % (
                n, ",".join(errors), frame[:24].hex()), case)
        elif info["data"] != bytes(data):
            R.violation("rcs380/frame/payload-differs", "Frame() for %d data bytes carries other bytes" % n, case)
        else:
            R.count("rcs380_c14_frame_class_validated")
            R.max("rcs380_c14_frame_data_len", n)
    # the ACK the driver writes
    if bytes(drv.Chipset.ACK) != pf.ACK:
        R.violation("rcs380/frame/ack", "Chipset.ACK is %s" % bytes(drv.Chipset.ACK).hex(),
                    {"family": FAM, "prop": "c14", "part": "ack"})


def c14_operation(desc, R, rng):
    """every frame the driver writes while it is really operated (init, sense/listen, exchange, close)"""
    for kind in ALL_KINDS:
        try:
            sess = Session(kind)
            for _ in range(3):
                reference(sess)
            sess.clf.close()
        except SetupError as e:
            R.inconc("rcs380 C14 setup: %s" % e)
            continue
        R.count("rcs380_c14_operation_frames_validated", sess.sim.frames_checked)
        R.count("rcs380_c14_operation_acks", sess.sim.host_acks)
        _report_frame_errors(sess.sim, R, "c14")
        R.case(("operation", kind))


def _rsp_bases():
    """(command code, command payload, regular response payload)"""
    return [(0x00, bytes([2, 3, 15, 3]), b"\x00"),
            (0x02, bytes([1, 1, 2, 1]), b"\x00"),
            (0x20, b"", bytes.fromhex("1101")),
            (0x04, bytes.fromhex("6400") + bytes.fromhex("3004"), S.le32(0) + b"\x08" + bytes(range(0x40, 0x50))),
            (0x04, bytes.fromhex("6400") + bytes.fromhex("3004"), S.le32(0x80)),
            (0x48, bytes(33), bytes([0x0B, 0, 3]) + S.le32(0) + bytes.fromhex("f006d4060031")),
            (0x48, bytes(33), bytes([0x0C, 0, 0]) + S.le32(0x400))]


def c14_responses(desc, R, rng):
    """how send_command() handles corrupted responses: recorded, no verdict (the statement of C14 demands rejection
    only for PN53x/ACR122); exceptions of driver-internal types are counted here and prosecuted under C13"""
    import nfc.clf.rcs380 as drv
    sim = S.Port100Sim(clock=_CLOCK, dumb=True)
    chipset = drv.init(sim).chipset
    for code, cpay, rpay in _rsp_bases():
        good = pf.response(code, rpay)
        muts = []
        for pos in range(len(good)):
            for bit in range(8):
                m = bytearray(good)
                m[pos] ^= 1 << bit
                muts.append(("bitflip", bytes(m)))
        for cut in range(1, len(good)):
            muts.append(("truncated", good[:cut]))
        for extra in (b"\x00", b"\x55\xaa", bytes(8)):
            muts.append(("extended", good + extra))
        for _ in range(desc.get("subst", 200)):
            m = bytearray(good)
            i = rng.randrange(len(m))
            for j in range(i, min(len(m), i + rng.randint(1, 4))):
                m[j] = rng.randrange(256)
            if bytes(m) != good:
                muts.append(("substituted", bytes(m)))
        muts.append(("valid", good))
        for cls, m in muts:
            errors, info = pf.check_response_frame(m, code)
            valid = not errors
            expect = info["payload"] if valid else rpay
            sim.mark({1: {"kind": "link", "fault": "raw", "frames": [S.ACK, m]}})
            try:
                ret = chipset.send_command(code, cpay)
                if ret is None:
                    out = "none"
                elif bytes(ret) == expect:
                    out = "same_payload"
                else:
                    out = "other_payload"
            except OSError:
                out = "IOError"
            except Exception as e:
                out = "internal_" + ("struct_error" if type(e).__module__ == "struct" else type(e).__name__)
            R.case(("rsp", code, m.hex()))
            R.count("rcs380_c14_rsp_mutations")
            R.count("rcs380_c14_rsp_%s_%s" % (cls, out))
            if not valid and out in ("same_payload", "other_payload"):
                R.count("rcs380_c14_rsp_invalid_but_accepted")
            if not valid and out not in ("same_payload", "other_payload"):
                R.count("rcs380_c14_rsp_invalid_rejected")
            if valid and out != "same_payload":
                R.violation("rcs380/response/valid-rejected", "a valid response frame to command %02Xh gave %s" % (code, out),
                            {"family": FAM, "prop": "c14", "part": "rsp", "code": code, "cpay": cpay, "rpay": rpay, "frame": m})


# ---- Type 2 Tag CRC ----------------------------------------------------------------------------------------
def sel_class(sel):
    if sel == 0:
        return "selres-00"
    if sel & 0x60 == 0:
        return "selres-tt2-nonzero"
    return "selres-iso-or-dep"


def _t2_case(sess, raw, R, cls, sel=None):
    """one READ whose raw card response (message + CRC bytes) is `raw`; oracle from the bit-serial CRC_A.
    sel: SEL_RES of the card when it is not the Type 2 Tag's 00h (signatures and counters carry its class)"""
    nfc = sess.nfc
    sess.sim.rf_mangle = lambda _raw, raw=raw: raw
    try:
        res, send = sess.exchange(send=(b"\x30\x04", 0.1))
    finally:
        sess.sim.rf_mangle = None
    msg, crc = raw[:-2], raw[-2:]
    valid = S.crc_a(msg) == crc
    case = {"family": FAM, "prop": "c14", "part": "t2crc", "raw": raw, "cls": cls}
    sfx, cpfx = "", "rcs380_c14_t2crc_"
    if sel is not None:
        case["sel_res"] = sel
        sfx = "/" + sel_class(sel)
        cpfx = "rcs380_c14_%s_" % sel_class(sel).replace("-", "_")
    R.case(("t2crc", sel, raw.hex()))
    R.count(cpfx + "cases")
    if sess.sim.no_crc_tx:
        R.count("rcs380_c14_t2crc_command_sent_without_crc", sess.sim.no_crc_tx)
        sess.sim.no_crc_tx = 0
    if valid:
        if res[0] == "ret" and res[1] is not None and bytes(res[1]) == msg:
            R.count(cpfx + "valid_returned")
        elif res[0] == "ret":
            R.violation("rcs380/t2t-crc/data-differs" + sfx, "T2T response %s with valid CRC_A returned as %r" % (raw.hex(), res[1]), case)
        else:
            R.violation("rcs380/t2t-crc/valid-crc-rejected" + sfx, "T2T response %s with valid CRC_A raised %s" % (
                raw.hex(), type(res[1]).__name__), case)
    else:
        if res[0] == "ret":
            R.violation("rcs380/t2t-crc/wrong-crc-accepted" + sfx, "T2T response %s (CRC_A should be %s) returned as data %r" % (
                raw.hex(), S.crc_a(msg).hex(), res[1]), case)
        elif isinstance(res[1], (nfc.clf.CommunicationError, OSError)):
            R.count(cpfx + "corrupt_rejected")
            R.seen("rcs380_c14_t2crc_reject_type", type(res[1]).__name__)
        else:
            R.violation("rcs380/t2t-crc/escape/%s" % _xsig(res[1]), "T2T response with wrong CRC raised %r" % (res[1],), case)


def _acknak_case(sess, octets, R, sel):
    """one WRITE that the card answers with the CRC-less frame `octets` (4 bit ACK/NAK, arrives as one octet; or any
    other one/two octet frame without CRC).  For a Type 2 Tag platform target ((SEL_RES & 60h) == 0) the octets must
    reach the caller as they are; otherwise the chip checks the CRC itself and reports an error (observed)."""
    nfc = sess.nfc
    m = lambda _p, octets=octets: octets            # noqa: E731
    m.no_crc_frames = True
    sess.sim.rf_mangle = m
    try:
        res, send = sess.exchange(send=(bytes.fromhex("a205") + bytes([0x11, 0x22, 0x33, sess.seq & 0xFF]), 0.1))
    finally:
        sess.sim.rf_mangle = None
    tt2 = sel & 0x60 == 0
    case = {"family": FAM, "prop": "c14", "part": "acknak", "octets": octets, "sel_res": sel}
    R.case(("acknak", sel, octets.hex()))
    R.count("rcs380_c14_acknak_cases")
    if sess.sim.no_crc_tx:
        R.count("rcs380_c14_t2crc_command_sent_without_crc", sess.sim.no_crc_tx)
        sess.sim.no_crc_tx = 0
    if res[0] == "ret":
        if res[1] is not None and bytes(res[1]) == octets:
            R.count("rcs380_c14_acknak_returned" if tt2 else "rcs380_c14_acknak_returned_non_tt2")
        else:
            R.violation("rcs380/t2t-crc/ack-nak-differs/" + sel_class(sel), "the %d octet frame %s without CRC came back as %r" % (
                len(octets), octets.hex(), res[1]), case)
    elif isinstance(res[1], (nfc.clf.CommunicationError, OSError)):
        if tt2:
            R.violation("rcs380/t2t-crc/ack-nak-lost/" + sel_class(sel), "%s for the CRC-less %d octet answer %s of a Type 2 Tag "
                        "platform target (SEL_RES %02Xh)" % (type(res[1]).__name__, len(octets), octets.hex(), sel), case)
        else:
            R.count("rcs380_c14_acknak_rejected_non_tt2")
    else:
        R.violation("rcs380/t2t-crc/escape/%s" % _xsig(res[1]), "CRC-less answer raised %r" % (res[1],), case)


SEL_TT2 = [v for v in range(256) if v & 0x60 == 0]                  # what the driver treats as "Type 2 Tag platform"
SEL_NAMED = [0x08, 0x09, 0x10, 0x18, 0x88, 0x01, 0x98]              # MIFARE Classic 1K/Mini/Plus/4K, ...
SEL_OTHER = [0x20, 0x28, 0x38, 0x40, 0x60, 0xA0, 0xE0]              # ISO-DEP / NFC-DEP capable: the chip keeps checking


def c14_selres(desc, R, rng):
    """Type A cards with the Type 2 Tag command set over every SEL_RES value (found through the real clf.sense()):
    the driver asks the chip not to check CRC_A for (SEL_RES & 60h) == 0 and must then verify it itself; for the
    others the simulated chip checks (InSetProtocol check_crc) - either way a wrong CRC_A never comes back as data, an
    intact frame comes back as its payload, and the CRC-less ACK/NAK reaches the caller of a Type 2 Tag platform."""
    tier = desc["tier"]
    if desc.get("sels") is not None:
        sels = list(desc["sels"])
    elif tier == "quick":
        sels = SEL_TT2 + SEL_OTHER
    else:
        sels = list(range(256))
    for sel in sels:
        try:
            sess = Session("T2T", sel_res=sel)
        except SetupError as e:
            if sel & 0x04:
                # SEL_RES bit 3: "UID not complete" - the driver asks for a further cascade level that this card has not
                R.count("rcs380_c14_selres_cascade_bit_not_activated")
            else:
                R.inconc("rcs380 C14: cannot activate a Type A card with SEL_RES %02Xh: %s" % (sel, e))
            continue
        got = sess.clf.target.sel_res
        if got is None or len(got) != 1 or got[0] != sel:
            R.inconc("rcs380 C14: sense() reports SEL_RES %r for a card that answers %02Xh" % (got, sel))
            continue
        R.count("rcs380_c14_%s_cells" % sel_class(sel).replace("-", "_"))
        full = tier != "quick" or sel in SEL_NAMED or sel == 0 or sel in SEL_OTHER[:2]
        for ln in ([16, 1, 4] if tier == "quick" else [16, 1, 2, 4, 15, 17, 32]):
            msg = rng.randbytes(ln)
            good = msg + S.crc_a(msg)
            _t2_case(sess, good, R, "valid", sel)
            nbits = len(good) * 8
            bits = range(nbits) if (full and ln in (16, 1)) or tier != "quick" else sorted(rng.sample(range(nbits), min(nbits, 12 if ln == 16 else 5)))
            for i in bits:
                m = bytearray(good)
                m[i // 8] ^= 1 << (i % 8)
                _t2_case(sess, bytes(m), R, "bitflip", sel)
            for _ in range(3 if tier == "quick" else 20):
                m = bytearray(good)
                for __ in range(rng.randrange(1, 4)):
                    m[rng.randrange(len(m))] = rng.randrange(256)
                if S.crc_a(bytes(m[:-2])) != bytes(m[-2:]):
                    _t2_case(sess, bytes(m), R, "substitute", sel)
        R.seen("rcs380_c14_selres_check_crc", "%s/chip check_crc=%d add_crc=%d" % (
            sel_class(sel), sess.sim.in_proto.get(2, 1), sess.sim.in_proto.get(1, 1)))
        # the 4 bit ACK / NAK (one octet, no CRC), other CRC-less one and two octet frames
        octs = [b"\x0a", b"\x00", b"\x01", b"\x04", b"\x05"]
        if full:
            octs += [bytes([v]) for v in range(16)] + [bytes([v]) for v in (0x1A, 0x80, 0xFF)] + [b"\x0a\x00", b"\x63\x63"]
        for o in octs:
            _acknak_case(sess, o, R, sel)
        _report_frame_errors(sess.sim, R, "c14")




def _crc_fns(msg, R):
    """Device.add_crc_a/check_crc_a/add_crc_b/check_crc_b (inherited static methods) against the reference"""
    import nfc.clf.rcs380 as drv
    D = drv.Device
    for name, ref in (("a", S.crc_a), ("b", S.crc_b)):
        add, chk = getattr(D, "add_crc_" + name), getattr(D, "check_crc_" + name)
        case = {"family": FAM, "prop": "c14", "part": "crcfn", "msg": msg}
        good = msg + ref(msg)
        if bytes(add(bytearray(msg))) != good:
            R.violation("rcs380/crc-fn/add_crc_" + name, "add_crc_%s(%s) = %s, ISO 14443-3: %s" % (
                name, msg.hex(), bytes(add(bytearray(msg))).hex(), good.hex()), case)
        elif chk(bytearray(good)) is not True:
            R.violation("rcs380/crc-fn/check_crc_%s/valid-rejected" % name, "check_crc_%s(%s) is not True" % (name, good.hex()), case)
        else:
            R.count("rcs380_c14_crc_fn_agree")
        bad = bytearray(good)
        bad[(len(msg) * 7) % len(bad)] ^= 1 << (len(msg) % 8)
        if chk(bad) is not False:
            R.violation("rcs380/crc-fn/check_crc_%s/corrupt-accepted" % name, "check_crc_%s(%s) is not False" % (name, bytes(bad).hex()), case)


def c14_t2crc(desc, R, rng):
    try:
        sess = Session("T2T")          # activation through the real sense(); no driver-side CRC involved yet
    except SetupError as e:
        R.inconc("rcs380 C14 setup: %s" % e)
        return
    lo, hi = desc.get("two_byte", [0, 0])
    msgs = []
    if desc.get("one_byte", True):
        msgs += [bytes([b]) for b in range(256)]
    if desc.get("two_byte_all"):
        msgs += [bytes([a, b]) for a in range(lo, hi) for b in range(256)]
    else:
        msgs += [rng.randbytes(2) for _ in range(desc.get("two_byte_sample", 1500))]
    msgs += [rng.randbytes(rng.choice([3, 4, 15, 16, 17, 32, 64, 128, 255, 288])) for _ in range(desc.get("long", 300))]
    msgs += [bytes(16), b"\xff" * 16, bytes.fromhex("0000"), bytes.fromhex("1234"), b"\x63\x63"]
    for i, msg in enumerate(msgs):
        good = msg + S.crc_a(msg)
        _t2_case(sess, good, R, "valid")
        _crc_fns(msg, R)
        # wrong CRCs: plausible implementation slips and random values
        wrong = [msg + good[-2:][::-1], msg + S.crc_b(msg), msg + S._crc16_iso14443(msg, 0x0000).to_bytes(2, "little"),
                 msg + S._crc16_iso14443(msg, 0xFFFF).to_bytes(2, "little"), msg + bytes(2), msg + rng.randbytes(2),
                 good[:-1] + bytes([good[-1] ^ 0x80]), bytes([msg[0] ^ 1]) + good[1:]]
        if len(msg) > 1:
            wrong.append(msg[:-1] + S.crc_a(msg[:-1]) + b"\x00")      # CRC taken over a wrong range
        for raw in wrong:
            if raw[-2:] != S.crc_a(raw[:-2]):
                _t2_case(sess, raw, R, "wrong")
        # every single-bit corruption (all messages up to 4 bytes, a sample of the longer ones)
        if len(msg) <= 4 and (len(msg) == 1 or i % desc.get("flip_every", 8) == 0) or (len(msg) > 4 and i % 16 == 0):
            for pos in range(len(good)):
                for bit in range(8):
                    m = bytearray(good)
                    m[pos] ^= 1 << bit
                    _t2_case(sess, bytes(m), R, "bitflip")
    _report_frame_errors(sess.sim, R, "c14")


def plan_c14(tier):
    if tier == "quick":
        return [{"part": "frames", "timeout": 300},
                {"part": "responses+operation", "subst": 300, "timeout": 300, "selres": True},
                {"part": "t2crc", "two_byte_sample": 1500, "long": 300, "timeout": 300}]
    plans = []
    # every payload length 0..1100 for every command code, in 4 length slices
    for lo, hi in ((0, 300), (300, 600), (600, 850), (850, 1101)):
        plans.append({"part": "frames", "lens": [lo, hi], "frame_lens": [lo, hi], "timeout": 1500})
    # every length through the Frame class (0..65533 payload = 2..65535 data bytes) in 6 slices, plus large send_command
    edges = [1101, 20000, 33000, 43000, 52000, 59500, 65534]
    for lo, hi in zip(edges, edges[1:]):
        plans.append({"part": "frames", "lens": [lo, min(lo + 40, hi)], "codes": [0x04, 0x48, 0xF0],
                      "frame_lens": [lo, hi], "timeout": 1500})
    plans.append({"part": "responses+operation", "subst": 5000, "timeout": 1500})
    for i in range(4):
        plans.append({"part": "t2crc", "two_byte_all": True, "two_byte": [i * 64, i * 64 + 64], "one_byte": i == 0,
                      "long": 1500, "flip_every": 64, "timeout": 1500})
    for i in range(2):
        plans.append({"part": "selres", "sels": list(range(i * 128, i * 128 + 128)), "timeout": 1500})
    return plans


def run_c14(desc, R, rng):
    _setup()
    bad = selftest()
    if bad:
        R.inconc("rcs380 simulator conformance self-test failed: " + bad)
        return
    part = desc["part"]
    if part == "frames":
        c14_frames(desc, R, rng)
    elif part == "responses+operation":
        c14_responses(desc, R, rng)
        c14_operation(desc, R, rng)
        if desc.get("selres"):
            c14_selres(desc, R, rng)
    elif part == "selres":
        c14_selres(desc, R, rng)
    elif part == "t2crc":
        c14_t2crc(desc, R, rng)
    R.sample({"family": FAM, "part": part})


def replay_c14(case, R):
    _setup()
    import nfc.clf.rcs380 as drv
    part = case.get("part")
    if part == "send":
        sim = S.Port100Sim(clock=_CLOCK, dumb=True)
        chipset = drv.init(sim).chipset
        chipset.send_command(case["code"], case["payload"])
        _check_written(sim.last_frame, case["code"], case["payload"], R, "send_command", case)
    elif part == "frame":
        frame = bytes(drv.Frame(bytes(case["data"])))
        errors, info = pf.check_frame(frame)
        errors = [e for e in errors if e != "code-parity"]
        if errors:
            R.violation("rcs380/frame/%s" % errors[0], "Frame() violates %s" % ",".join(errors), case)
        elif info["data"] != bytes(case["data"]):
            R.violation("rcs380/frame/payload-differs", "Frame() carries other bytes", case)
    elif part == "t2crc":
        sess = Session("T2T", sel_res=case.get("sel_res"))
        _t2_case(sess, bytes(case["raw"]), R, case.get("cls", "replay"), case.get("sel_res"))
    elif part == "acknak":
        sess = Session("T2T", sel_res=case.get("sel_res"))
        _acknak_case(sess, bytes(case["octets"]), R, case["sel_res"])
    elif part == "crcfn":
        _crc_fns(bytes(case["msg"]), R)
    elif part == "operation":
        c14_operation({}, R, random.Random(0))
    elif part == "ack":
        if bytes(drv.Chipset.ACK) != pf.ACK:
            R.violation("rcs380/frame/ack", "Chipset.ACK is %s" % bytes(drv.Chipset.ACK).hex(), case)
    elif part == "rsp":
        sim = S.Port100Sim(clock=_CLOCK, dumb=True)
        chipset = drv.init(sim).chipset
        sim.mark({1: {"kind": "link", "fault": "raw", "frames": [S.ACK, bytes(case["frame"])]}})
        try:
            ret = chipset.send_command(case["code"], case["cpay"])
            out = "none" if ret is None else ("same" if bytes(ret) == bytes(case["rpay"]) else "other")
        except Exception as e:
            out = type(e).__name__
        if out != "same":
            R.violation("rcs380/response/valid-rejected", "a valid response frame gave %s" % out, case)
    R.case(("replay", part))
