"""Driver-family dispatch for the driver properties C13 and C14.

Each module vf/drivers/<fam>.py (pn53x_family, rcs380, udp, frontend, transport) provides for the properties it serves:
    plan_cXX(tier) -> list of shard descriptors;  run_cXX(desc, R, rng);  replay_cXX(case, R)
    RULE_CXX, REQUIRED_CXX, ASSUMPTIONS
Signatures and counters are prefixed with the driver name ("pn533/...", "rcs380_...").
"""
import importlib

FAMILIES = ["pn53x_family", "rcs380", "udp", "frontend", "transport"]


def family(name):
    return importlib.import_module("vf.drivers." + name)


MISSING = {}      # family -> import error text; a family that cannot be imported must never vanish silently


class FamilyMissing(Exception):
    pass


def available(prop):
    import os
    only = [x for x in os.environ.get("VERIF_FAMILIES", "").split(",") if x]
    out = []
    for f in FAMILIES:
        if only and f not in only:
            continue
        try:
            m = family(f)
        except ImportError as e:
            MISSING[f] = "%s: %s" % (type(e).__name__, e)
            continue
        if hasattr(m, "run_" + prop):
            out.append(f)
    return out


def plan(prop, tier, seed):
    available(prop)
    if MISSING:
        # fail closed: the family's cases and its REQUIRED counters would otherwise disappear and the check report "held"
        raise FamilyMissing("family module(s) could not be imported: %r" % (MISSING,))
    descs = []
    for f in available(prop):
        for d in getattr(family(f), "plan_" + prop)(tier):
            d = dict(d)
            d["family"] = f
            descs.append(d)
    return descs


def run(prop, desc, R, rng):
    R.seen("families_run", desc["family"])
    getattr(family(desc["family"]), "run_" + prop)(desc, R, rng)


def replay(prop, case, R):
    getattr(family(case["family"]), "replay_" + prop)(case, R)
