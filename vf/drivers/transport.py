"""C14 through the REAL host-link transport classes nfc.clf.transport.USB and nfc.clf.transport.TTY.

The other driver families replace the transport object by a stand-in at the write(frame)/read(timeout) level, so
the code of nfc/clf/transport.py never runs there.  Here only the *back ends* are replaced:

  usb1 (libusb)   _UsbProxy stands in for the `usb1` module inside nfc.clf.transport: USBContext().getDeviceList()
                  lists fake devices (one interrupt endpoint, one bulk OUT, one bulk IN with a chosen
                  wMaxPacketSize), USB.__init__/open() run unchanged and end with a device handle whose
                  bulkWrite/bulkRead drive a UsbPipe with USB bulk semantics:
                    OUT  every bulkWrite is cut into packets of wMaxPacketSize; the device side *transfer* ends
                         with the first packet shorter than wMaxPacketSize (a zero-length packet included); a
                         write whose length is a multiple of wMaxPacketSize leaves the transfer open, and whatever
                         is written next is appended to it (that is what a device without a length prefix sees);
                    IN   one bulkRead returns one device transfer (the device terminates its transfers correctly);
                         a transfer longer than the buffer -> USBErrorOverflow, nothing queued -> USBErrorTimeout.
  pyserial        _SerialProxy stands in for the `serial` module: Serial(port, ...) on a registered port name is a
                  FakeSerial on a SerialLine: a byte stream with arrival gaps on the virtual clock; read(n) returns
                  what arrives before the time-out (short reads exactly when pyserial has them); flushInput drops
                  what has arrived; write() feeds a device side *stream* reassembler that delimits frames by
                  start code and LEN like the chip (not by write() calls).

Device side = the trusted simulators (vf.sim.chipsets.pn53x.ChipsetSim, vf.sim.chipsets.rcs380.Port100Sim) fed with
the reassembled transfers / frames, which they validate with the independent validators vf.ref.frames and
vf.ref.port100_frames.

Workload
  (a) transport level
      USB.write(frame) for every frame length 0..600 x wMaxPacketSize in {8,16,32,64,512}: the device must have seen
      exactly one complete transfer carrying exactly the frame and no transfer may be left open; libusb errors at
      the data write and at the zero-length-packet write must surface as IOError (time-out <-> ETIMEDOUT).
      USB.read(): transfers of every length 1..300 come back intact; empty transfer / overflow / libusb errors ->
      IOError (time-out <-> ETIMEDOUT), nothing else escapes.
      TTY.write(frame) for every length: the line carries exactly those bytes once; a pyserial write time-out ->
      IOError.  TTY.read(): ACK / normal / extended / error frames delivered in one burst, split at every position
      with a gap shorter than the read time-out, back to back with a following frame (-> exactly the frame, the rest
      stays on the line); split with a gap longer than the time-out, trickled, garbage, port errors (-> IOError, or
      exactly the bytes it consumed from the line = a prefix of the stream; nothing else escapes).
  (b) driver level through the real transport: rcs380, pn531, pn533, rcs956, acr122 (USB) and pn532, arygonA,
      arygonB (TTY) created by their own init() and driven by clf.exchange() for every payload length 0..max; the
      chip echoes a digest of the RF data it was given.  Verdict per exchange, first clause that fails:
        - when the host turned to read, the device still had an unterminated transfer / an incomplete frame
        - the validator rejected something the device received as a transfer / frame
        - the RF command (InCommRF / InCommunicateThru) did not arrive exactly once with exactly the payload
        - exchange() did not return what the chip answered (healthy link, valid response)
      TTY drivers additionally get their responses split with short gaps (must still succeed) and with gaps longer
      than the read time-out (accepted outcomes: the right data, IOError or CommunicationError; never other data,
      never another exception).
Not judged (observations only): a zero-length packet that terminates nothing (spurious ZLP), frame length 0, read
with an infinite time-out on a silent device (counted), responses larger than the 300 octet read buffer (overflow ->
IOError is within the property), the serial time-out value TTY.read programs.
"""
import collections
import errno
import struct
import zlib

from vf.core import vclock
from vf.core.rec import exc_sig
from vf.ref import frames as F
from vf.ref import port100_frames as pf

FAM = "transport"

USB_DRIVERS = ["rcs380", "pn531", "pn533", "rcs956", "acr122"]
TTY_DRIVERS = ["pn532", "arygonA", "arygonB"]
MPS_ALL = [8, 16, 32, 64, 512]

RULE_C14 = ("real nfc.clf.transport.USB / TTY over a fake libusb handle with bulk short-packet semantics and a fake "
            "pyserial port with arrival gaps: USB.write for every frame length 0..600 x wMaxPacketSize 8/16/32/64/512 "
            "(+ libusb errors at the data and the zero-length-packet write), USB.read for every transfer length "
            "0..310 + errors, TTY.write for every length, TTY.read for ACK/normal/extended frames x every split "
            "position x gap below/above the read time-out + trickle + garbage + back-to-back frames; driver level: "
            "rcs380/pn531/pn533/rcs956/acr122 (USB, wMaxPacketSize 64 and a smaller one) and pn532/arygonA/arygonB "
            "(TTY) clf.exchange() for every payload length 0..max with the chipset simulators behind the device "
            "side reassembler; distinct by (part, wMaxPacketSize, length, delivery); non-trivial if the device side "
            "saw the transfer / the host got the bytes")
REQUIRED_C14 = (["transport_usb_write_cases", "transport_usb_write_len_multiple_of_mps",
                 "transport_usb_write_len_multiple_of_mps_multi_packet", "transport_usb_zlp_seen",
                 "transport_usb_short_packet_terminations", "transport_usb_write_faults_checked",
                 "transport_usb_write_fault_at_zlp_checked", "transport_usb_read_exact",
                 "transport_usb_read_transfer_multiple_of_mps", "transport_usb_read_faults_checked",
                 "transport_usb_read_timeouts_checked", "transport_usb_read_overflow_checked",
                 "transport_tty_write_cases", "transport_tty_write_faults_checked", "transport_tty_read_exact",
                 "transport_tty_read_extended_frames", "transport_tty_read_split_short_gap",
                 "transport_tty_read_split_long_gap", "transport_tty_read_header_cut", "transport_tty_read_body_cut",
                 "transport_tty_read_trickle", "transport_tty_read_timeouts_checked", "transport_tty_read_garbage",
                 "transport_tty_read_back_to_back", "transport_tty_short_reads_seen"] +
                ["transport_%s_exchanges_ok" % d for d in USB_DRIVERS + TTY_DRIVERS] +
                ["transport_%s_command_frames_validated" % d for d in USB_DRIVERS + TTY_DRIVERS] +
                ["transport_%s_frames_multiple_of_mps" % d for d in USB_DRIVERS] +
                ["transport_%s_rf_frames_multiple_of_mps_multi_packet" % d for d in USB_DRIVERS] +
                ["transport_%s_zlp_seen" % d for d in USB_DRIVERS] +
                ["transport_%s_payload_with_start_code" % d for d in USB_DRIVERS + TTY_DRIVERS] +
                ["transport_tty_read_extended_frames_over_five"] +
                ["transport_%s_split_responses_ok" % d for d in TTY_DRIVERS] +
                ["transport_%s_short_read_responses" % d for d in TTY_DRIVERS])
ASSUMPTIONS = [
    "transport: a USB bulk OUT transfer ends at the first packet shorter than wMaxPacketSize (zero-length packet "
    "included); a device does not see a frame whose transfer is still open and takes what is written next for its "
    "continuation (USB 2.0 5.8.3); the device terminates its own IN transfers correctly, so one bulkRead returns one "
    "transfer",
    "transport: nfc.clf.transport reaches libusb only through usb1.USBContext().getDeviceList(), the device's "
    "iterSettings()/iterEndpoints()/open() and the handle's claimInterface/bulkWrite/bulkRead/close, and pyserial "
    "only through serial.Serial(port, baudrate, timeout=...) with read/write/readline/flushInput/flushOutput/close "
    "and the timeout/baudrate attributes",
    "transport: pyserial's read(n) returns fewer than n bytes exactly when the time-out expires first; write() sends "
    "all bytes or raises SerialTimeoutException",
    "transport: the chip delimits frames on a serial line by start code and LEN/LCS, not by the host's write() calls",
    "transport: time-out errors must keep errno ETIMEDOUT (documented by Chipset.command and used by every driver to "
    "tell a silent chip from a broken link); other link errors only have to be IOError",
]

_CLOCK = None
_MAX_PER_SIG = 3


# =============================================================================================================
# fake libusb
# =============================================================================================================
def _usb1():
    import usb1
    return usb1


USB_EXC = {"timeout": "USBErrorTimeout", "nodevice": "USBErrorNoDevice", "io": "USBErrorIO", "pipe": "USBErrorPipe",
           "overflow": "USBErrorOverflow", "busy": "USBErrorBusy", "interrupted": "USBErrorInterrupted",
           "other": "USBErrorOther"}


def usb_exc(name):
    return getattr(_usb1(), USB_EXC[name])()


class UsbPipe(object):
    """the bulk pipes of one fake device, packet level on the OUT side"""
    OUT, IN, INTR = 0x02, 0x81, 0x83

    def __init__(self, mps, device, clock=None):
        self.mps, self.device, self.clock = mps, device, clock
        self.stats = collections.Counter()
        self.claimed = None
        self.closed = False
        self.reset()

    def reset(self):
        self.pending = bytearray()
        self.open = False
        self.transfers = []              # (bytes, "short" | "zlp") in completion order since reset()
        self.events = []                 # ("unterminated-at-read", octets pending)
        self.nwrites = 0
        self.write_script = {}           # n-th bulkWrite since reset() -> libusb error name
        self.in_script = []              # what the next bulkRead calls meet before the device queue is asked

    # ---- host side ----------------------------------------------------------------------------------------
    def bulk_write(self, ep, data, timeout):
        self.nwrites += 1
        name = self.write_script.get(self.nwrites)
        if name:
            self.stats["write_faults_raised"] += 1
            raise usb_exc(name)
        if ep != self.OUT:
            self.stats["wrong_endpoint"] += 1
            raise _usb1().USBErrorNotFound()
        data = bytes(data)
        n = len(data)
        if n == 0:
            self.stats["zlp"] += 1
            if not self.open:
                self.stats["zlp_terminating_nothing"] += 1
            self._complete("zlp")
            return 0
        full, rem = divmod(n, self.mps)
        self.stats["packets"] += full + (1 if rem else 0)
        self.pending += data
        self.open = True
        if rem:
            self.stats["short_packet_terminations"] += 1
            self._complete("short")
        else:
            self.stats["writes_ending_on_packet_boundary"] += 1
        return n

    def _complete(self, how):
        data, self.pending, self.open = bytes(self.pending), bytearray(), False
        self.transfers.append((data, how))
        if data:
            self.device.on_transfer(data)

    def bulk_read(self, ep, length, timeout):
        if ep != self.IN:
            self.stats["wrong_endpoint"] += 1
            raise _usb1().USBErrorNotFound()
        if self.open:
            self.stats["unterminated_at_read"] += 1
            self.events.append(("unterminated-at-read", len(self.pending)))
        if self.in_script:
            item = self.in_script.pop(0)
        else:
            item = self.device.next_in(timeout)
        if item is None:
            if not timeout:
                self.stats["infinite_wait_on_silent_device"] += 1
            elif self.clock is not None:
                self.clock.advance(timeout / 1000.0)
            raise _usb1().USBErrorTimeout()
        if isinstance(item, tuple):
            raise usb_exc(item[1])
        item = bytes(item)
        if len(item) > length:
            self.stats["in_overflow"] += 1
            raise _usb1().USBErrorOverflow()
        self.stats["in_transfers"] += 1
        if len(item) % self.mps == 0:
            self.stats["in_transfers_multiple_of_mps"] += 1       # the device appends the zero-length packet
        return item


class _Endpoint(object):
    def __init__(self, addr, attr, mps):
        self.addr, self.attr, self.mps = addr, attr, mps

    def getAddress(self):
        return self.addr

    def getAttributes(self):
        return self.attr

    def getMaxPacketSize(self):
        return self.mps


class _Setting(object):
    def __init__(self, endpoints):
        self.endpoints = endpoints

    def iterEndpoints(self):
        return iter(self.endpoints)


class _Handle(object):
    def __init__(self, pipe):
        self.pipe = pipe

    def claimInterface(self, n):
        self.pipe.claimed = n

    def bulkWrite(self, endpoint, data, timeout=0):
        return self.pipe.bulk_write(endpoint, data, timeout)

    def bulkRead(self, endpoint, length, timeout=0):
        return self.pipe.bulk_read(endpoint, length, timeout)

    def close(self):
        self.pipe.closed = True


class FakeUsbDevice(object):
    def __init__(self, bus, adr, pipe, manufacturer, product, vid=0x1234, pid=0x5678):
        self.bus, self.adr, self.pipe = bus, adr, pipe
        self.manufacturer, self.product, self.vid, self.pid = manufacturer, product, vid, pid

    def getBusNumber(self):
        return self.bus

    def getDeviceAddress(self):
        return self.adr

    def getVendorID(self):
        return self.vid

    def getProductID(self):
        return self.pid

    def getManufacturer(self):
        return self.manufacturer

    def getProduct(self):
        return self.product

    def iterSettings(self):
        p = self.pipe
        # interrupt IN first (the ACR122U has one): only *bulk* endpoints may be picked
        return iter([_Setting([_Endpoint(p.INTR, 3, 8), _Endpoint(p.OUT, 2, p.mps), _Endpoint(p.IN, 2, p.mps)])])

    def open(self):
        return _Handle(self.pipe)


class _Context(object):
    def __init__(self):
        self.exited = False

    def getDeviceList(self, skip_on_error=False):
        return list(_UsbProxy.DEVICES.values())

    def exit(self):
        self.exited = True

    def __enter__(self):
        return self

    def __exit__(self, *a):
        self.exit()


class _UsbProxy(object):
    """`usb1` as nfc.clf.transport sees it: constants and exception classes are the real ones"""
    DEVICES = {}
    SEQ = [0]

    def __init__(self, real):
        self._real = real

    def __getattr__(self, name):
        return getattr(self._real, name)

    def USBContext(self):
        return _Context()


# =============================================================================================================
# fake pyserial
# =============================================================================================================
def frame_end(buf, i0=0):
    """end index (exclusive) of the first PN53x frame in buf[i0:]; None = not complete yet; -1 = cannot be delimited
    (no start code where one must be, or a length checksum that does not fit)"""
    n = len(buf)
    i = i0
    while i < n and buf[i] == 0x00:
        i += 1
    if i >= n:
        return None                          # preamble only so far
    if buf[i] != 0xFF or i == i0:
        return -1
    i += 1
    if n - i < 2:
        return None
    ln, lcs = buf[i], buf[i + 1]
    if (ln, lcs) in ((0x00, 0xFF), (0xFF, 0x00)):
        end = i + 3
    elif (ln, lcs) == (0xFF, 0xFF):
        if n - i < 5:
            return None
        if (buf[i + 2] + buf[i + 3] + buf[i + 4]) & 0xFF:
            return -1
        end = i + 5 + (buf[i + 2] << 8 | buf[i + 3]) + 2
    else:
        if (ln + lcs) & 0xFF:
            return -1
        end = i + 2 + ln + 2
    return end if end <= n else None


class SerialLine(object):
    """device side of a serial port.  mode: 'raw' (record only), 'pn532' (TAMA frames), 'arygon' ('0..' ASCII
    commands to the controller, '2' + TAMA frame)"""
    def __init__(self, mode="raw", clock=None):
        self.mode, self.clock = mode, clock
        self.stats = collections.Counter()
        self.baudrate = None
        self.on_frame = None             # callable(raw) for every delimited host frame
        self.source = None               # callable() -> list of segments: what the chip sends next
        self.ascii = None                # callable(data, baudrate) -> reply line (arygon controller)
        self.reset()

    def reset(self):
        self.rx = collections.deque()    # bytes | ("gap", seconds) | ("raise", exception)
        self.txbuf = bytearray()
        self.written = []                # every write() since reset()
        self.read_log = []               # what every read() returned since reset()
        self.events = []
        self.line_reply = b""
        self.nwrites = 0
        self.write_script = {}           # n-th write since reset -> "timeout"
        self.flushes = 0

    def push(self, *segments):
        for s in segments:
            if isinstance(s, (list, tuple)):
                s = (s[0], s[1])
            else:
                s = bytes(s)
                if not s:
                    continue
            self.rx.append(s)

    def pull(self):
        if self.source is not None:
            self.push(*self.source())

    # ---- device side reassembly of what the host writes ---------------------------------------------------
    def host_wrote(self, data):
        self.written.append(data)
        if self.mode == "raw":
            return
        if self.mode == "arygon" and not self.txbuf and data[:1] == b"0":
            self.stats["ascii_commands"] += 1
            self.line_reply = self.ascii(data, self.baudrate) if self.ascii else b""
            return
        self.txbuf += data
        while self.txbuf:
            pre = 0
            if self.mode == "arygon":
                if self.txbuf[0] != 0x32:
                    self._hand_over(len(self.txbuf))
                    return
                pre = 1
            end = frame_end(self.txbuf, pre)
            if end is None:
                return
            self._hand_over(len(self.txbuf) if end < 0 else end)

    def _hand_over(self, n):
        raw, self.txbuf = bytes(self.txbuf[:n]), self.txbuf[n:]
        self.stats["frames_delimited"] += 1
        if self.on_frame is not None:
            self.on_frame(raw)

    def host_reads(self):
        if self.mode != "raw" and self.txbuf:
            self.stats["incomplete_at_read"] += 1
            self.events.append(("incomplete-at-read", len(self.txbuf)))
            self._hand_over(len(self.txbuf))      # what the chip has is not a frame: let the validator name the clause


class FakeSerial(object):
    def __init__(self, line, port, baudrate, timeout):
        self.line, self.port, self.timeout = line, port, timeout
        self._baud = baudrate
        line.baudrate = baudrate
        self.is_open = True

    @property
    def baudrate(self):
        return self._baud

    @baudrate.setter
    def baudrate(self, v):
        self._baud = v
        self.line.baudrate = v

    def write(self, data):
        line = self.line
        line.nwrites += 1
        if line.write_script.get(line.nwrites) == "timeout":
            import serial
            raise serial.SerialTimeoutException("Write timeout")
        data = bytes(data)
        line.host_wrote(data)
        return len(data)

    def read(self, size=1):
        line = self.line
        line.host_reads()
        budget = self.timeout
        waited = 0.0
        out = bytearray()
        while len(out) < size:
            if not line.rx:
                line.pull()
            if not line.rx:
                if budget is None:
                    line.stats["read_would_block_forever"] += 1
                else:
                    waited = budget
                break
            seg = line.rx[0]
            if isinstance(seg, tuple):
                if seg[0] == "gap":
                    if budget is not None and waited + seg[1] > budget:
                        line.rx[0] = ("gap", seg[1] - (budget - waited))
                        waited = budget
                        break
                    waited += seg[1]
                    line.rx.popleft()
                    continue
                if out:
                    break
                line.rx.popleft()
                raise seg[1]
            take = min(size - len(out), len(seg))
            out += seg[:take]
            if take == len(seg):
                line.rx.popleft()
            else:
                line.rx[0] = seg[take:]
        if line.clock is not None and waited:
            line.clock.advance(waited)
        line.stats["reads"] += 1
        if len(out) < size:
            line.stats["short_reads" if out else "empty_reads"] += 1
        line.read_log.append(bytes(out))
        return bytes(out)

    def readline(self):
        line = self.line
        reply, line.line_reply = line.line_reply, b""
        if not reply and line.clock is not None:
            line.clock.advance(self.timeout or 0)
        return reply

    def flushInput(self):
        line = self.line
        line.flushes += 1
        while line.rx and not isinstance(line.rx[0], tuple):      # only what has arrived can be dropped
            line.rx.popleft()

    def flushOutput(self):
        pass

    def close(self):
        self.is_open = False


class _SerialProxy(object):
    """`serial` as nfc.clf.transport sees it"""
    LINES = {}
    SEQ = [0]

    def __init__(self, real):
        self._real = real

    def __getattr__(self, name):
        return getattr(self._real, name)

    def Serial(self, port=None, baudrate=9600, timeout=None, **kw):
        if port in self.LINES:
            return FakeSerial(self.LINES[port], port, baudrate, timeout)
        return self._real.Serial(port, baudrate, timeout=timeout, **kw)


# =============================================================================================================
# installation
# =============================================================================================================
def install():
    import nfc.clf.transport as T
    if not isinstance(T.libusb, _UsbProxy):
        T.libusb = _UsbProxy(T.libusb)
    if not isinstance(T.serial, _SerialProxy):
        T.serial = _SerialProxy(T.serial)
    return T


def _timed_modules():
    import importlib
    return [importlib.import_module(n) for n in (
        "nfc.clf", "nfc.clf.pn53x", "nfc.clf.pn531", "nfc.clf.pn532", "nfc.clf.pn533", "nfc.clf.rcs956",
        "nfc.clf.acr122", "nfc.clf.arygon", "nfc.clf.rcs380")]


def _setup():
    global _CLOCK
    if _CLOCK is None:
        _CLOCK = vclock.VClock()
    vclock.patch(_timed_modules(), _CLOCK)
    import nfc.clf.pn532 as pn532
    from vf.sim.chipsets import pn53x as S
    if not isinstance(pn532.os, S._OsProxy):
        pn532.os = S._OsProxy()          # pn532.init() shells out to stty
    install()
    return _CLOCK


def open_usb(pipe, manufacturer="vf", product="SimReader v1"):
    """the real nfc.clf.transport.USB, opened by its own __init__ on a fake device"""
    T = install()
    _UsbProxy.SEQ[0] += 1
    bus, adr = 1 + _UsbProxy.SEQ[0] // 100, 1 + _UsbProxy.SEQ[0] % 100
    _UsbProxy.DEVICES = {(bus, adr): FakeUsbDevice(bus, adr, pipe, manufacturer, product)}
    try:
        return T.USB(bus, adr)
    finally:
        _UsbProxy.DEVICES = {}


def open_tty(line):
    """the real nfc.clf.transport.TTY on a fake serial port"""
    T = install()
    _SerialProxy.SEQ[0] += 1
    port = "/dev/ttyVFTR%d" % _SerialProxy.SEQ[0]
    _SerialProxy.LINES[port] = line
    return T.TTY(port)


class Capped(object):
    """at most _MAX_PER_SIG violations per signature and shard"""
    def __init__(self, R):
        self.R, self.n = R, collections.Counter()

    def violation(self, sig, what, case):
        self.n[sig] += 1
        if self.n[sig] <= _MAX_PER_SIG:
            case = dict(case)
            case["family"] = FAM
            self.R.violation(sig, what, case)


# =============================================================================================================
# (a) transport level: USB
# =============================================================================================================
class RecDev(object):
    def __init__(self):
        self.got = []
        self.inq = collections.deque()

    def on_transfer(self, data):
        self.got.append(data)

    def next_in(self, timeout):
        return self.inq.popleft() if self.inq else None


def _pattern(rng, n):
    r = rng.random()
    if r < 0.08:
        return bytes(n)
    if r < 0.16:
        return b"\xff" * n
    data = rng.randbytes(n)
    if r < 0.36 and n >= 3:
        # what delimits frames on the link, inside a payload: start code, ACK, NACK, the extended frame marker
        pat = rng.choice([b"\x00\x00\xff", bytes(F.ACK), bytes(F.NACK), b"\x00\x00\xff\xff\xff", b"\x00\xff"])[:n]
        at = rng.choice([0, n - len(pat), rng.randrange(0, n - len(pat) + 1)])
        data = data[:at] + pat + data[at + len(pat):]
    return data


def _errno_clause(e, want_timeout, R=None):
    """the clause an exception breaks (None = fine): must be IOError; ETIMEDOUT exactly for time-outs.  Any other
    link error only has to be an IOError (see ASSUMPTIONS): one without errno is counted, not judged"""
    if not isinstance(e, IOError):
        return "escape/" + exc_sig(e)
    if want_timeout and e.errno != errno.ETIMEDOUT:
        return "timeout-without-ETIMEDOUT"
    if not want_timeout and e.errno == errno.ETIMEDOUT:
        return "error-reported-as-timeout"
    if e.errno is None and R is not None:
        R.count("transport_ioerror_without_errno_not_judged")
    return None


def usb_write_case(V, R, case, tr=None, pipe=None):
    """one USB.write(frame) on a pipe with the given wMaxPacketSize; case = {mps, frame, fault: None | [n, name]}"""
    mps, frame, fault = case["mps"], bytes(case["frame"]), case.get("fault")
    if tr is None:
        pipe = UsbPipe(mps, RecDev())
        tr = open_usb(pipe)
    pipe.reset()
    pipe.device.got = []
    if fault:
        pipe.write_script = {int(fault[0]): fault[1]}
    n = len(frame)
    multiple = n > 0 and n % mps == 0
    R.case(("usb-write", mps, n, frame[:4], fault and tuple(fault)))
    exc = None
    try:
        tr.write(bytearray(frame) if n % 2 else frame)
    except Exception as e:                  # noqa - judged below
        exc = e
    if fault:
        raised = pipe.stats["write_faults_raised"]
        if exc is None:
            if pipe.nwrites >= int(fault[0]):
                V.violation("transport/usb/write/libusb-error-swallowed", "USB.write returned normally although bulkWrite "
                            "#%d raised %s" % (fault[0], USB_EXC[fault[1]]), case)
            else:
                R.count("transport_usb_write_fault_not_reached")
            return
        clause = _errno_clause(exc, fault[1] == "timeout", R)
        if clause:
            V.violation("transport/usb/write/%s/%s" % (clause, fault[1]),
                        "USB.write: libusb %s at bulkWrite #%d surfaced as %r" % (USB_EXC[fault[1]], fault[0], exc), case)
        R.count("transport_usb_write_faults_checked")
        if int(fault[0]) == 2:
            R.count("transport_usb_write_fault_at_zlp_checked")
        assert raised
        return
    R.count("transport_usb_write_cases")
    if multiple:
        R.count("transport_usb_write_len_multiple_of_mps")
        if n > mps:
            R.count("transport_usb_write_len_multiple_of_mps_multi_packet")
    if exc is not None:
        V.violation("transport/usb/write/escape/" + exc_sig(exc), "USB.write of a %d octet frame (wMaxPacketSize %d) "
                    "raised %r on a healthy pipe" % (n, mps, exc), case)
        return
    if n == 0:
        R.count("transport_usb_write_empty_frame_not_judged")
        return
    kind = "other-length" if not multiple else ("one-packet" if n == mps else "multi-packet")
    if pipe.open:
        V.violation("transport/usb/write/unterminated-transfer/" + kind,
                    "USB.write of a %d octet frame on wMaxPacketSize %d left the bulk transfer open (no short or "
                    "zero-length packet): the device does not see the frame" % (n, mps), case)
        return
    got = pipe.device.got
    if len(got) != 1:
        V.violation("transport/usb/write/transfer-count/" + kind, "USB.write of a %d octet frame reached the device as %d "
                    "transfers" % (n, len(got)), case)
        return
    if got[0] != frame:
        V.violation("transport/usb/write/bytes-differ/" + kind, "USB.write of a %d octet frame: the device received %d "
                    "other octets" % (n, len(got[0])), case)
        return
    how = [t for t in pipe.transfers if t[0]][-1][1]
    if how == "zlp":
        R.count("transport_usb_zlp_seen")
    else:
        R.count("transport_usb_short_packet_terminations")
    spurious = sum(1 for t in pipe.transfers if not t[0])
    if spurious:
        R.count("transport_usb_spurious_zlp_not_judged", spurious)
    R.max("transport_usb_write_max_len", n)


def usb_read_case(V, R, case, tr=None, pipe=None):
    """one USB.read(timeout); case = {mps, item: bytes | None | ['raise', name], timeout}"""
    mps, item, tmo = case["mps"], case["item"], case.get("timeout", 100)
    if tr is None:
        pipe = UsbPipe(mps, RecDev())
        tr = open_usb(pipe)
    pipe.reset()
    pipe.device.inq.clear()
    if item is not None:
        pipe.device.inq.append(tuple(item) if isinstance(item, (list, tuple)) else bytes(item))
    R.case(("usb-read", mps, item if not isinstance(item, (bytes, bytearray)) else (len(item), bytes(item[:4]))))
    exc = ret = None
    try:
        ret = tr.read(tmo)
    except Exception as e:                  # noqa
        exc = e
    if isinstance(item, (bytes, bytearray)) and 0 < len(item) <= 300:
        if exc is not None:
            V.violation("transport/usb/read/valid-transfer-rejected/" + exc_sig(exc), "USB.read raised %r for a "
                        "transfer of %d octets" % (exc, len(item)), case)
        elif ret is None or bytes(ret) != bytes(item):
            V.violation("transport/usb/read/bytes-differ", "USB.read returned %s for a transfer of %d octets" % (
                "None" if ret is None else "%d other octets" % len(ret), len(item)), case)
        else:
            R.count("transport_usb_read_exact")
            if len(item) % mps == 0:
                R.count("transport_usb_read_transfer_multiple_of_mps")
        return
    # everything else must raise IOError
    what = ("empty-transfer" if isinstance(item, (bytes, bytearray)) and not item else
            "overflow" if isinstance(item, (bytes, bytearray)) else "timeout" if item is None else item[1])
    if exc is None:
        V.violation("transport/usb/read/returned-instead-of-ioerror/" + what, "USB.read returned %r (%s)" % (
            None if ret is None else bytes(ret[:16]), what), case)
        return
    clause = _errno_clause(exc, what == "timeout", R)
    if clause:
        V.violation("transport/usb/read/%s/%s" % (clause, what), "USB.read: %s surfaced as %r" % (what, exc), case)
        return
    R.count({"timeout": "transport_usb_read_timeouts_checked", "overflow": "transport_usb_read_overflow_checked",
             "empty-transfer": "transport_usb_read_empty_transfer_checked"}.get(what, "transport_usb_read_faults_checked"))


def run_usb_level(R, rng, tier, mps_list=None):
    V = Capped(R)
    _setup()
    for mps in (mps_list or MPS_ALL):
        pipe = UsbPipe(mps, RecDev())
        tr = open_usb(pipe)
        if pipe.claimed != 0 or tr.usb_out.getAddress() != pipe.OUT or tr.usb_inp.getAddress() != pipe.IN:
            R.inconc("transport: USB.open() did not pick the bulk endpoints of the fake device")
            return
        for n in range(0, 601):
            usb_write_case(V, R, {"part": "usb-write", "mps": mps, "frame": _pattern(rng, n)}, tr, pipe)
        # libusb errors at the data write (#1) and at the zero-length-packet write (#2)
        for name in ("timeout", "nodevice", "io", "pipe", "busy", "interrupted", "other"):
            for n in (1, mps - 1, mps, mps + 1, 2 * mps, 3 * mps):
                for k in (1, 2):
                    usb_write_case(V, R, {"part": "usb-write", "mps": mps, "frame": _pattern(rng, n),
                                          "fault": [k, name]}, tr, pipe)
        lens = range(0, 311) if mps in (8, 64) or tier != "quick" else (0, 1, mps - 1, mps, mps + 1, 2 * mps, 256, 300, 301)
        for n in lens:
            usb_read_case(V, R, {"part": "usb-read", "mps": mps, "item": _pattern(rng, n)}, tr, pipe)
        for tmo in (1, 100, 5000):
            usb_read_case(V, R, {"part": "usb-read", "mps": mps, "item": None, "timeout": tmo}, tr, pipe)
        for name in ("nodevice", "io", "pipe", "overflow", "busy", "interrupted", "other", "timeout"):
            usb_read_case(V, R, {"part": "usb-read", "mps": mps, "item": ["raise", name]}, tr, pipe)
        tr.close()
        if not pipe.closed:
            R.count("transport_usb_close_left_handle_open_not_judged")
        for k, v in pipe.stats.items():
            R.count("transport_usb_pipe_%s" % k, v)
        R.seen("transport_usb_mps", mps)


# =============================================================================================================
# (a) transport level: TTY
# =============================================================================================================
def _tty_frames(rng, tier):
    """(label, frame) the chip may send"""
    out = [("ack", F.ACK), ("error", F.ERROR_FRAME)]      # (a NACK frame only travels from the host to the chip)
    lens = [1, 2, 3, 4, 5, 6, 7, 8, 16, 64, 127, 128, 200, 253, 254, 255] if tier == "quick" else list(range(1, 256))
    for n in lens:
        data = bytes([0xD5, rng.randrange(0, 256) | 1]) + rng.randbytes(max(0, n - 2))
        out.append(("normal", F.build_frame(data[:n], extended=False)))
    for n in ([1, 2, 7, 100, 254, 255, 256, 257, 264, 265, 300, 511] if tier == "quick" else
              [1, 2, 3, 7, 100, 254, 255, 256, 257, 263, 264, 265, 266, 300, 511, 512, 600]):
        data = bytes([0xD5, 0x43]) + rng.randbytes(max(0, n - 2))
        out.append(("extended", F.build_frame(data[:n], extended=True)))
    return out


def _segs(case_segments):
    out = []
    for s in case_segments:
        if isinstance(s, (bytes, bytearray)):
            out.append(bytes(s))
        elif s[0] == "raise":
            import serial
            out.append(("raise", serial.SerialException("device reports readiness to read but returned no data")))
        else:
            out.append(("gap", float(s[1])))
    return out


def tty_read_case(V, R, case, tr=None, line=None):
    """case = {segments: [bytes | ['gap', s] | ['raise', '']], expect: [frames that must come back exactly] | None,
    timeout (ms), reads: number of TTY.read calls, cls}"""
    if tr is None:
        line = SerialLine("raw", _setup())
        tr = open_tty(line)
    line.reset()
    line.push(*_segs(case["segments"]))
    stream = b"".join(bytes(s) for s in case["segments"] if isinstance(s, (bytes, bytearray)))
    expect, cls = case.get("expect"), case["cls"]
    R.case(("tty-read", cls, len(stream), stream[:8], [s[1] for s in case["segments"] if not isinstance(s, (bytes, bytearray))]))
    pos = 0
    for k in range(case.get("reads", 1)):
        mark = len(line.read_log)
        exc = ret = None
        try:
            ret = tr.read(case.get("timeout", 100))
        except Exception as e:              # noqa
            exc = e
        consumed = b"".join(line.read_log[mark:])
        if exc is not None and not isinstance(exc, IOError):
            V.violation("transport/tty/read/escape/%s/%s" % (exc_sig(exc), cls), "TTY.read raised %r (%s)" % (exc, cls), case)
            return
        if expect is not None:
            want = bytes(expect[k]) if k < len(expect) else None
            if want is None:
                # nothing more on the line: a time-out
                if exc is None or exc.errno != errno.ETIMEDOUT:
                    V.violation("transport/tty/read/timeout-without-ETIMEDOUT", "TTY.read on a silent line gave %r" % (
                        exc if exc is not None else bytes(ret),), case)
                    return
                R.count("transport_tty_read_timeouts_checked")
                continue
            if exc is not None:
                V.violation("transport/tty/read/valid-frame-rejected/%s" % cls, "TTY.read raised %r for a complete %d "
                            "octet frame (%s)" % (exc, len(want), cls), case)
                return
            if ret is None or bytes(ret) != want:
                V.violation("transport/tty/read/bytes-differ/%s" % cls, "TTY.read returned %d octets for a %d octet frame "
                            "(%s)" % (-1 if ret is None else len(ret), len(want), cls), case)
                return
            if consumed != want:
                V.violation("transport/tty/read/over-read/%s" % cls, "TTY.read took %d octets from the line for a %d octet "
                            "frame (%s)" % (len(consumed), len(want), cls), case)
                return
            pos += len(want)
            continue
        # hostile delivery: IOError, or exactly what was taken from the line (a prefix of the stream)
        assert stream[pos:pos + len(consumed)] == consumed
        pos += len(consumed)
        if exc is not None:
            if exc.errno is None and not case.get("port_error"):
                R.count("transport_ioerror_without_errno_not_judged")       # a link error only has to be an IOError
            R.count("transport_tty_read_hostile_ioerror")
            continue
        if ret is None or bytes(ret) != consumed:
            V.violation("transport/tty/read/not-what-was-read/%s" % cls, "TTY.read returned %r, the line handed out %r" % (
                None if ret is None else bytes(ret[:24]), consumed[:24]), case)
            return
        R.count("transport_tty_read_hostile_returned_prefix")
    return True


def tty_write_case(V, R, case, tr=None, line=None):
    frame = bytes(case["frame"])
    if tr is None:
        line = SerialLine("raw", _setup())
        tr = open_tty(line)
    line.reset()
    line.push(b"\x55\xaa stale")
    if case.get("fault"):
        line.write_script = {1: "timeout"}
    R.case(("tty-write", len(frame), frame[:4], bool(case.get("fault"))))
    exc = None
    try:
        tr.write(bytearray(frame) if len(frame) % 2 else frame)
    except Exception as e:                  # noqa
        exc = e
    if case.get("fault"):
        if exc is None:
            V.violation("transport/tty/write/serial-timeout-swallowed", "TTY.write returned normally although the port "
                        "timed out", case)
        elif not isinstance(exc, IOError):
            V.violation("transport/tty/write/escape/" + exc_sig(exc), "TTY.write raised %r for a port time-out" % (exc,), case)
        else:
            R.count("transport_tty_write_faults_checked")
        return
    if exc is not None:
        V.violation("transport/tty/write/escape/" + exc_sig(exc), "TTY.write of %d octets raised %r" % (len(frame), exc), case)
        return
    if b"".join(line.written) != frame:
        V.violation("transport/tty/write/bytes-differ", "TTY.write of %d octets put %d other octets on the line" % (
            len(frame), len(b"".join(line.written))), case)
        return
    R.count("transport_tty_write_cases")
    if line.flushes and not line.rx:
        R.count("transport_tty_write_flushed_stale_input")


def run_tty_level(R, rng, tier):
    V = Capped(R)
    clock = _setup()
    line = SerialLine("raw", clock)
    tr = open_tty(line)
    for n in range(0, 601):
        tty_write_case(V, R, {"part": "tty-write", "frame": _pattern(rng, n)}, tr, line)
    for n in (1, 9, 300):
        tty_write_case(V, R, {"part": "tty-write", "frame": _pattern(rng, n), "fault": True}, tr, line)
    frames = _tty_frames(rng, tier)
    ext_seen = set()
    C = lambda **kw: dict(kw, part="tty-read")
    for label, f in frames:
        ext = label == "extended"
        # one burst, then silence
        if tty_read_case(V, R, C(cls="burst", segments=[f], expect=[f], reads=2), tr, line):
            R.count("transport_tty_read_exact")
            if ext:
                R.count("transport_tty_read_extended_frames")
                ext_seen.add(len(f))
                if len(ext_seen) == 6:
                    R.count("transport_tty_read_extended_frames_over_five")
        # back to back: ACK immediately followed by the response is the regular case.  (Response frames are the last
        # thing a chip sends, so "a frame followed by another frame" is not judged: TTY.read takes a normal frame
        # with LEN = FFh for an extended one, reads on until the time-out and returns the right frame only when
        # nothing follows - observed, see transport_tty_read_frame_then_frame_*.)
        if tty_read_case(V, R, C(cls="back-to-back", segments=[F.ACK + f], expect=[F.ACK, f], reads=3), tr, line):
            R.count("transport_tty_read_back_to_back")
        nxt = frames[rng.randrange(len(frames))][1]
        line.reset()
        line.push(f + nxt)
        try:
            got = tr.read(100)
            R.count("transport_tty_read_frame_then_frame_%s_not_judged" % ("exact" if bytes(got) == f else "over_read"))
        except IOError:
            R.count("transport_tty_read_frame_then_frame_ioerror_not_judged")
        positions = list(range(1, len(f)))
        if tier == "quick" and len(positions) > 24:
            positions = sorted(set(positions[:12] + positions[-6:] + rng.sample(positions, 6)))
        for p in positions:
            # a gap shorter than the read time-out: pyserial delivers everything
            if tty_read_case(V, R, C(cls="split-short-gap", segments=[f[:p], ["gap", 0.01], f[p:]], expect=[f]), tr, line):
                R.count("transport_tty_read_split_short_gap")
            # a gap longer than the read time-out: a short read
            before = line.stats["short_reads"] + line.stats["empty_reads"]
            if tty_read_case(V, R, C(cls="split-long-gap", segments=[f[:p], ["gap", 0.3], f[p:]], expect=None,
                                    timeout=100, reads=2), tr, line):
                R.count("transport_tty_read_split_long_gap")
                head = 9 if ext else 6
                R.count("transport_tty_read_header_cut" if p < head else "transport_tty_read_body_cut")
            R.count("transport_tty_short_reads_seen", line.stats["short_reads"] + line.stats["empty_reads"] - before)
        # trickle: octet by octet; the whole frame within / beyond the time-out of one read() call
        if len(f) <= 64:
            seg = []
            for b in f:
                seg += [bytes([b]), ["gap", 0.0005]]
            if tty_read_case(V, R, C(cls="trickle-fast", segments=seg, expect=[f]), tr, line):
                R.count("transport_tty_read_trickle")
            seg = []
            for b in f:
                seg += [bytes([b]), ["gap", 0.03]]
            tty_read_case(V, R, C(cls="trickle-slow", segments=seg, expect=None, timeout=50, reads=3), tr, line)
    for tmo in (1, 50, 100, 1500):
        tty_read_case(V, R, C(cls="silence", segments=[], expect=[], timeout=tmo), tr, line)
    for i in range(60 if tier == "quick" else 600):
        n = rng.choice((1, 2, 3, 4, 5, 6, 7, 8, 9, 10, 20, 40))
        g = bytearray(rng.randbytes(n))
        if i % 3 == 0:
            g[:3] = b"\x00\x00\xff"[:n]                     # a start code followed by garbage
        if i % 6 == 0 and n > 5:
            g[3:5] = b"\xff\xff"                             # ... that claims to be an extended frame
        if tty_read_case(V, R, C(cls="garbage", segments=[bytes(g)], expect=None, reads=2), tr, line):
            R.count("transport_tty_read_garbage")
    tty_read_case(V, R, C(cls="port-error", segments=[["raise", ""]], expect=None, port_error=True), tr, line)
    tty_read_case(V, R, C(cls="port-error-mid-frame", segments=[F.ACK[:3], ["raise", ""]], expect=None, port_error=True,
                          reads=2), tr, line)
    for k, v in line.stats.items():
        R.count("transport_tty_line_%s" % k, v)
    tr.close()


# =============================================================================================================
# (b) driver level
# =============================================================================================================
def token(data):
    data = bytes(data)
    return b"\xa5" + struct.pack(">HI", len(data), zlib.crc32(data))


class Port100Dev(object):
    def __init__(self, sim):
        self.sim = sim

    def on_transfer(self, data):
        self.sim.write(data)

    def next_in(self, timeout):
        try:
            return bytes(self.sim.read(timeout))
        except IOError as e:
            if e.errno == errno.ETIMEDOUT:
                return None
            return ("raise", "nodevice" if e.errno == errno.ENODEV else "io")


class Pn53xDev(object):
    def __init__(self, sim):
        self.sim = sim

    def on_transfer(self, data):
        self.sim.host_write(data)

    def next_in(self, timeout):
        q = self.sim.q
        if not q:
            return None
        item = q.pop(0)
        if isinstance(item, tuple):
            return ("raise", {errno.ETIMEDOUT: "timeout", errno.ENODEV: "nodevice"}.get(item[1], "io"))
        if self.sim.clock is not None:
            self.sim.clock.advance(0.0005)
        return bytes(item)


class Ctx(object):
    """one real driver on a real transport on a fake back end with a simulated chip"""
    def __init__(self, driver, mps=64):
        import importlib
        import nfc.clf
        from vf.sim.chipsets import pn53x as S
        self.driver, self.mps = driver, mps
        self.clock = _setup()
        self.usb = driver in USB_DRIVERS
        self.pipe = self.line = None
        self.cmds = []                   # (code, payload) of the host commands the chip understood
        self.rf_seen = []                # RF data of every RF command the chip got
        self.last_cmd = None
        self.rlen = 0
        self.policy = {"kind": "burst"}
        self.rf_code = 0x04 if driver == "rcs380" else 0x42
        if driver == "rcs380":
            from vf.sim.chipsets import rcs380 as S3
            self.sim = sim = S3.Port100Sim(clock=self.clock, dumb=True)
            inner = sim.execute

            def execute(code, p):
                if code == 0x04:
                    return S3.le32(0) + b"\x08" + self.reply(bytes(p[2:]))
                return inner(code, p)
            sim.execute = execute
            self.pipe = UsbPipe(mps, Port100Dev(sim), self.clock)
            self.tr = open_usb(self.pipe, "SONY", "RC-S380/P")
            modname = "rcs380"
        else:
            modname, variant, link, baud = S.DRIVERS[driver]
            self.sim = sim = S.ChipsetSim(variant, link, self.clock, arygon_baud=baud or 115200)
            sim.command_bound = 10 ** 9
            if self.usb:
                self.pipe = UsbPipe(mps, Pn53xDev(sim), self.clock)
                self.tr = open_usb(self.pipe, "vf", "ACR122U PICC Interface" if link == "ccid" else "SimReader")
            else:
                self.line = line = SerialLine("arygon" if link == "arygon" else "pn532", self.clock)
                line.on_frame = sim.host_write
                line.source = self.serial_source
                line.ascii = self.arygon_ascii
                self.tr = open_tty(line)
        mod = importlib.import_module("nfc.clf." + modname)
        self.dev = mod.init(self.tr)
        self.dev._path = "vf:transport:" + driver
        self.clf = nfc.clf.ContactlessFrontend()
        self.clf.device = self.dev
        self.clf.target = nfc.clf.RemoteTarget("106A", sens_res=bytearray.fromhex("4403"), sel_res=bytearray.fromhex("20"),
                                               sdd_res=bytearray.fromhex("04112233445566"))
        self.max_send = self.clf.max_send_data_size
        self.max_recv = self.clf.max_recv_data_size
        if driver != "rcs380":
            sim.responder = self.responder
        self.init_events = self.drain_events()

    # ---- the chip's answers -------------------------------------------------------------------------------
    def reply(self, data):
        self.rf_seen.append(bytes(data))
        return token(data) + bytes((i * 29 + 7) & 0xFF for i in range(self.rlen))

    def responder(self, cmd, params):
        sim = self.sim
        self.cmds.append((cmd, bytes(params)))
        self.last_cmd = cmd
        if cmd == 0x42:
            payload = b"\x00" + self.reply(params)
        else:
            payload = sim.execute(cmd, params)
        ccid = sim.link == "ccid"
        if payload == "syntax" or payload is None:
            if ccid:
                return [F.ccid_build_datablock(bytes.fromhex("6300"), 0, 0, 0, 0x81)]
            return [F.ACK, F.ERROR_FRAME] if payload == "syntax" else [F.ACK]
        if ccid:
            return [F.ccid_build_datablock(bytes([0xD5, (cmd + 1) & 0xFF]) + bytes(payload) + b"\x90\x00", 0, 0, 0, 0x81)]
        return [F.ACK, F.build_response(cmd, payload)]

    def arygon_ascii(self, data, baudrate):
        if self.sim.link != "arygon" or baudrate != self.sim.arygon_baud:
            return b""
        if data == b"0av":
            return b"FF00000600V3.2\r\n"
        if data in (b"0at05", b"0ah05", b"0au"):
            return b"FF000000\r\n"
        return b""

    def serial_source(self):
        """what the chip puts on the serial line next, cut up by the delivery policy"""
        q, out = self.sim.q, []
        pol = self.policy
        while q:
            item = q.pop(0)
            if isinstance(item, tuple):
                out.append(("raise", IOError(item[1], "port error")))
                continue
            item = bytes(item)
            last = not q
            if (pol["kind"] == "burst" or (pol.get("which", "rsp") == "rsp") != last or len(item) < 2 or
                    (pol.get("only_rf") and self.last_cmd != self.rf_code)):
                out.append(item)
            else:
                cuts = sorted(set(1 + p % (len(item) - 1) for p in pol["pos"]))
                prev = 0
                for c in cuts:
                    out += [item[prev:c], ("gap", pol["gap"])]
                    prev = c
                out.append(item[prev:])
            if pol.get("frame_gap") and not last:
                out.append(("gap", pol["frame_gap"]))
        return out

    # ---- bookkeeping --------------------------------------------------------------------------------------
    def drain_events(self):
        """-> [(clause, detail)] of what the device side noticed since the last call; validator state cleared"""
        ev = []
        sim = self.sim
        if self.pipe is not None:
            for name, n in self.pipe.events:
                ev.append(("unterminated-transfer", "the host turned to read while a bulk transfer of %d octets was still "
                           "open (no short / zero-length packet sent)" % n))
            if self.pipe.open:
                ev.append(("unterminated-transfer", "a bulk transfer of %d octets was left open" % len(self.pipe.pending)))
            self.pipe.events = []
        if self.line is not None:
            for name, n in self.line.events:
                ev.append(("incomplete-at-device", "the host turned to read while the chip had received only %d octets "
                           "of a frame" % n))
            if self.line.txbuf:
                ev.append(("incomplete-at-device", "the chip holds %d octets of an incomplete frame" % len(self.line.txbuf)))
            self.line.events = []
        if self.driver == "rcs380":
            for raw, errors in sim.frame_errors:
                ev.append(("invalid/" + errors[0], "the device received a transfer that is no frame (%s): %s" % (
                    ",".join(errors), bytes(raw[:24]).hex())))
            sim.frame_errors = []
        else:
            for clause, raw in sim.bad_writes:
                ev.append(("invalid/" + clause, "the device received something that is no frame (%s): %s" % (
                    clause, bytes(raw[:24]).hex())))
            sim.bad_writes = []
        return ev

    def frames_ok(self):
        if self.driver == "rcs380":
            return self.sim.frames_checked
        return sum(self.sim.frames_ok.values())

    def resync(self):
        if self.pipe is not None:
            self.pipe.reset()
        if self.line is not None:
            self.line.reset()
        if self.driver == "rcs380":
            self.sim.queue.clear()
        else:
            self.sim.q = []

    def rf_frame_len(self, n):
        """octets of the host frame / CCID message that carries n RF data octets"""
        if self.driver == "rcs380":
            return n + 14
        if self.driver == "acr122":
            return n + 17
        return n + 9 if n + 2 <= 255 else n + 12


def exchange_case(V, R, ctx, case):
    """case = {driver, mps, data, rlen, policy, weak}"""
    import nfc.clf
    d = ctx.driver
    data = bytes(case["data"])
    ctx.rlen = int(case.get("rlen", 0))
    ctx.policy = case.get("policy") or {"kind": "burst"}
    weak = bool(case.get("weak"))
    ctx.cmds = []
    ctx.rf_seen = []
    if d == "rcs380":
        ctx.sim.mark()
    f0 = ctx.frames_ok()
    st0 = dict(ctx.pipe.stats) if ctx.pipe is not None else dict(ctx.line.stats)
    R.case(("exchange", d, ctx.mps, len(data), data[:6], ctx.rlen, repr(sorted(ctx.policy.items()))))
    try:
        out = ("ret", ctx.clf.exchange(bytearray(data) if len(data) % 2 else data, 0.1))
    except Exception as e:                  # noqa - judged below
        out = ("exc", e)
    ev = ctx.drain_events()
    want = token(data) + bytes((i * 29 + 7) & 0xFF for i in range(ctx.rlen))
    pre = "transport/%s" % d
    n = len(data)
    text = "%s exchange() with %d octets (host frame %d octets%s)" % (
        d, n, ctx.rf_frame_len(n), ", wMaxPacketSize %d" % ctx.mps if ctx.usb else "")
    bad = None
    if ev:
        bad = ("%s/command-frame/%s" % (pre, ev[0][0]), "%s: %s" % (text, ev[0][1]))
    elif len(ctx.rf_seen) == 0 and not (weak and out[0] == "exc"):
        bad = (pre + "/command-frame/rf-command-not-received", "%s: the chip never got the RF command (%s)" % (
            text, out[1] if out[0] == "exc" else "returned"))
    elif len(ctx.rf_seen) > 1:
        bad = (pre + "/command-frame/rf-command-repeated", "%s: the chip got the RF command %d times" % (text, len(ctx.rf_seen)))
    elif ctx.rf_seen and ctx.rf_seen[0] != data:
        bad = (pre + "/command-frame/payload-differs", "%s: the chip got %d other RF data octets" % (text, len(ctx.rf_seen[0])))
    elif out[0] == "exc":
        e = out[1]
        if not weak:
            bad = ("%s/response/valid-rejected/%s" % (pre, exc_sig(e)), "%s raised %r although the chip answered with a "
                   "valid frame on a healthy link" % (text, e))
        elif not isinstance(e, (IOError, nfc.clf.CommunicationError)):
            bad = ("%s/response/escape/%s" % (pre, exc_sig(e)), "%s raised %r for a response delivered in pieces" % (text, e))
    elif out[1] is None or bytes(out[1]) != want:
        bad = ("%s/response/%s" % (pre, "corrupted-accepted" if weak else "not-intact"), "%s returned %s, the chip sent %d "
               "octets" % (text, "None" if out[1] is None else "%d other octets" % len(out[1]), len(want)))
    if bad:
        V.violation(bad[0], bad[1], dict(case, part="exchange"))
        ctx.resync()
        return False
    R.count("transport_%s_command_frames_validated" % d, ctx.frames_ok() - f0)
    if ctx.pipe is not None:
        st = ctx.pipe.stats
        flen = ctx.rf_frame_len(n)
        if flen % ctx.mps == 0:
            R.count("transport_%s_rf_frames_multiple_of_mps" % d)
            if flen > ctx.mps:
                R.count("transport_%s_rf_frames_multiple_of_mps_multi_packet" % d)
        R.count("transport_%s_frames_multiple_of_mps" % d, st["writes_ending_on_packet_boundary"] - st0.get("writes_ending_on_packet_boundary", 0))
        R.count("transport_%s_zlp_seen" % d, st["zlp"] - st0.get("zlp", 0))
        R.count("transport_%s_responses_multiple_of_mps" % d, st["in_transfers_multiple_of_mps"] - st0.get("in_transfers_multiple_of_mps", 0))
        if st["infinite_wait_on_silent_device"] - st0.get("infinite_wait_on_silent_device", 0):
            R.count("transport_%s_infinite_wait_on_silent_device_not_judged" % d)
    if out[0] == "ret":
        if weak:
            R.count("transport_%s_short_read_responses_returned_right_data" % d)
        elif ctx.policy["kind"] != "burst":
            R.count("transport_%s_split_responses_ok" % d)
        R.count("transport_%s_exchanges_ok" % d)
        R.max("transport_%s_max_payload" % d, n)
        R.max("transport_%s_max_response" % d, len(want))
    else:
        R.count("transport_%s_short_read_responses_%s" % (d, "ioerror" if isinstance(out[1], IOError) else "comm_error"))
    if weak:
        if ctx.line.stats["short_reads"] + ctx.line.stats["empty_reads"] > st0.get("short_reads", 0) + st0.get("empty_reads", 0):
            R.count("transport_%s_short_read_responses" % d)
        ctx.resync()
    return True


def make_ctx(V, R, driver, mps):
    try:
        ctx = Ctx(driver, mps)
    except Exception as e:                  # noqa
        R.inconc("transport: %s init() over the real transport failed: %r [%s]" % (driver, e, exc_sig(e)))
        return None
    if ctx.init_events:
        clause, detail = ctx.init_events[0]
        V.violation("transport/%s/command-frame/%s" % (driver, clause), "%s init(): %s" % (driver, detail),
                    {"part": "init", "driver": driver, "mps": mps})
    return ctx


def run_driver(R, rng, tier, driver, mps_list, lengths=None):
    V = Capped(R)
    for mps in mps_list:
        ctx = make_ctx(V, R, driver, mps)
        if ctx is None:
            return
        cap = min(ctx.max_recv, (300 - 17 if driver in ("rcs380", "acr122") else ctx.max_recv)) - 7
        todo = range(0, ctx.max_send + 1) if lengths is None else lengths
        for n in todo:
            if n > ctx.max_send:
                continue
            case = {"driver": driver, "mps": mps, "data": _pattern(rng, n), "rlen": (n * 5 + 3) % (cap + 1)}
            if b"\x00\x00\xff" in case["data"]:
                R.count("transport_%s_payload_with_start_code" % driver)
            if not ctx.usb:
                r = n % 4
                if r == 1:
                    case["policy"] = {"kind": "split", "which": "rsp", "pos": [rng.randrange(1000) for _ in range(1 + n % 3)],
                                      "gap": 0.004}
                elif r == 2:
                    case["policy"] = {"kind": "split", "which": "ack", "pos": [rng.randrange(5)], "gap": 0.01, "frame_gap": 0.002}
                elif r == 3:
                    case["policy"] = {"kind": "burst", "frame_gap": 0.003}
            exchange_case(V, R, ctx, case)
        if not ctx.usb:
            # responses (and ACKs) cut by a gap longer than the read time-out: short reads inside the real TTY.read
            for i in range(40 if tier == "quick" else 400):
                n = rng.randrange(0, ctx.max_send + 1)
                which = "ack" if i % 5 == 4 else "rsp"
                pos = rng.randrange(9) if i % 2 else rng.randrange(1000)
                case = {"driver": driver, "mps": mps, "data": _pattern(rng, n), "rlen": rng.randrange(0, cap + 1), "weak": True,
                        "policy": {"kind": "split", "which": which, "pos": [pos], "gap": 0.5, "only_rf": i % 3 != 0}}
                exchange_case(V, R, ctx, case)
        try:
            ctx.clf.close()
        except Exception:                   # noqa
            R.count("transport_%s_close_raised_not_judged" % driver)
        for clause, detail in ctx.drain_events():
            if clause.startswith("invalid/") or clause in ("unterminated-transfer", "incomplete-at-device"):
                V.violation("transport/%s/command-frame/%s" % (driver, clause), "%s close(): %s" % (driver, detail),
                            {"part": "close", "driver": driver, "mps": mps})
        R.seen("transport_%s_mps" % driver, mps)


# =============================================================================================================
# family interface
# =============================================================================================================
def plan_c14(tier):
    if tier == "quick":
        return [{"part": "usb-level", "timeout": 300},
                {"part": "tty-level", "timeout": 300},
                {"part": "drivers", "drivers": ["rcs380", "pn531"], "mps": [64, 16], "timeout": 300},
                {"part": "drivers", "drivers": ["pn533", "rcs956", "acr122"], "mps": [64, 32], "timeout": 300},
                {"part": "drivers", "drivers": TTY_DRIVERS, "mps": [0], "timeout": 300}]
    plans = [{"part": "usb-level", "timeout": 1500}, {"part": "tty-level", "timeout": 1500}]
    for d in USB_DRIVERS:
        plans.append({"part": "drivers", "drivers": [d], "mps": MPS_ALL, "timeout": 1500})
    for d in TTY_DRIVERS:
        plans.append({"part": "drivers", "drivers": [d], "mps": [0], "timeout": 1500})
    return plans


def run_c14(desc, R, rng):
    tier = desc.get("tier", "quick")
    part = desc["part"]
    if part == "usb-level":
        run_usb_level(R, rng, tier)
    elif part == "tty-level":
        run_tty_level(R, rng, tier)
    elif part == "drivers":
        from vf.sim.chipsets import pn53x as S
        try:
            R.count("transport_sim_selftest_frames", S.selftest() + F.selftest())
            pf.selftest()
        except AssertionError as e:
            R.inconc("transport: simulator/reference self-test failed: %r" % (e,))
            return
        for d in desc["drivers"]:
            run_driver(R, rng, tier, d, desc["mps"] if d in USB_DRIVERS else [0])
    R.sample({"family": FAM, "part": part})
    R.exhaustive = False


def replay_c14(case, R):
    V = Capped(R)
    _setup()
    part = case.get("part")
    if part == "usb-write":
        usb_write_case(V, R, case)
    elif part == "usb-read":
        usb_read_case(V, R, case)
    elif part == "tty-write":
        tty_write_case(V, R, case)
    elif part == "tty-read":
        tty_read_case(V, R, case)
    elif part in ("exchange", "init", "close"):
        ctx = make_ctx(V, R, case["driver"], int(case.get("mps") or 64))
        if ctx is not None and part == "exchange":
            exchange_case(V, R, ctx, case)
        elif ctx is not None and part == "close":
            ctx.clf.close()
            for clause, detail in ctx.drain_events():
                V.violation("transport/%s/command-frame/%s" % (case["driver"], clause), detail, case)
    R.case(("replay", part))
